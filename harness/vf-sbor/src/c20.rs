//! C20 SBOR values round-trip and have a unique encoding.

use crate::conv::*;
use crate::valgen::*;
use crate::wire::*;
use std::sync::OnceLock;
use vf_core::{catch, ensure, Check, Gen, Outcome, Part};

pub fn pick_flavour(g: &mut Gen) -> Flavour {
    Flavour::ALL[g.index(3)]
}

fn wire_error_class(e: &WireError) -> &'static str {
    match e {
        WireError::Empty => "empty input",
        WireError::Prefix(_) => "wrong payload prefix",
        WireError::Eof => "truncated",
        WireError::UnknownKind(_) => "unknown value kind",
        WireError::BadSize => "non-canonical or oversized length prefix",
        WireError::BadBool(_) => "bool not 0/1",
        WireError::Utf8 => "invalid UTF-8",
        WireError::BadCustom(_) => "invalid custom value",
        WireError::Trailing(_) => "trailing bytes",
        WireError::TooDeep => "nesting beyond the depth limit",
    }
}

/// Seed corpus: valid payloads copied from the repository's assets (`/verif/corpus/C20/*.bin`).
pub fn corpus() -> &'static Vec<(Flavour, Vec<u8>)> {
    static CORPUS: OnceLock<Vec<(Flavour, Vec<u8>)>> = OnceLock::new();
    CORPUS.get_or_init(|| {
        let dir = vf_core::verif_root().join("corpus").join("C20");
        let mut files: Vec<_> = match std::fs::read_dir(&dir) {
            Ok(rd) => rd.filter_map(|e| e.ok()).map(|e| e.path()).collect(),
            Err(_) => Vec::new(),
        };
        files.sort();
        let mut out = Vec::new();
        for f in files {
            if let Ok(b) = std::fs::read(&f) {
                if let Some(fl) = b.first().and_then(|p| Flavour::ALL.iter().find(|fl| fl.prefix() == *p)) {
                    out.push((*fl, b));
                }
            }
        }
        out
    })
}

fn label_shape(g: &mut Gen, n: &Node) {
    if n.depth() >= 3 {
        g.label("depth >= 3");
    }
    if n.has_custom() {
        g.label("has custom value");
    }
    if n.has_multibyte_size() {
        g.label("multi-byte size");
    }
}

fn shape_nontrivial(n: &Node) -> bool {
    n.depth() >= 3 || n.has_custom() || n.has_multibyte_size()
}

/// Value direction: value -> encode -> (R2 print, decode).
pub fn values(g: &mut Gen) -> Outcome {
    let fl = pick_flavour(g);
    g.label(fl.name());
    let limit = fl.default_depth();
    let mode = g.weighted(&[6, 3, 1, 2]);
    let (node, injected) = {
        let mut vg = ValGen::new(g, fl, 48);
        match mode {
            0 => {
                let d = 1 + vg.g.index(6);
                (vg.value(d), false)
            }
            1 => {
                // around the depth limit: limit-1 ..= limit+2
                let d = limit - 1 + vg.g.index(4);
                vg.budget = 24;
                (vg.spine(d), false)
            }
            2 => (vg.big(), false),
            _ => {
                vg.want_mismatch = true;
                let d = 2 + vg.g.index(4);
                let v = vg.value(d);
                (v, vg.mismatched)
            }
        }
    };
    match mode {
        1 => g.label("around depth limit"),
        2 => g.label("LEB128 size boundary"),
        3 if injected => g.label("element kind mismatch"),
        _ => {}
    }
    let depth = node.depth();
    let consistent = node.kinds_consistent();
    let Some(value) = node_to_any(fl, &node) else {
        return Outcome::Discard;
    };
    g.sample(|| format!("{} value depth {}: {}", fl.name(), depth, node.render()));
    let expected_ok = consistent && depth <= limit;
    let enc = {
        let v = value.clone();
        match catch(move || encode_any(&v, limit)) {
            Ok(r) => r,
            Err(p) => return Outcome::fail(format!("{} encode panics", fl.name()), format!("value {}: {}", node.render(), p)),
        }
    };
    match enc {
        Err(e) => {
            ensure!(
                !expected_ok,
                format!("{} encode refuses an encodable value", fl.name()),
                "value (depth {} <= limit {}, element kinds consistent) {} refused: {:?}",
                depth,
                limit,
                node.render(),
                e
            );
            if consistent {
                g.label("refused: too deep");
                ensure!(
                    is_depth_encode_error(&e),
                    format!("{} encode refuses an over-deep value with a non-depth error", fl.name()),
                    "value of depth {} (limit {}) {} refused with {:?}",
                    depth,
                    limit,
                    node.render(),
                    e
                );
            } else {
                g.label("refused: kind mismatch");
                if depth <= limit {
                    ensure!(
                        matches!(
                            e,
                            sbor::EncodeError::MismatchingArrayElementValueKind { .. }
                                | sbor::EncodeError::MismatchingMapKeyValueKind { .. }
                                | sbor::EncodeError::MismatchingMapValueValueKind { .. }
                        ),
                        format!("{} encode refuses a kind-mismatched value with another error", fl.name()),
                        "value {} refused with {:?}",
                        node.render(),
                        e
                    );
                }
                g.nontrivial();
            }
            Outcome::Pass
        }
        Ok(bytes) => {
            ensure!(
                expected_ok,
                if consistent {
                    format!("{} encode accepts a value deeper than the depth limit", fl.name())
                } else {
                    format!("{} encode accepts a value with mismatching element kinds", fl.name())
                },
                "value (depth {}, limit {}, kinds consistent: {}) {} encoded to {}",
                depth,
                limit,
                consistent,
                node.render(),
                hexs(&bytes[..bytes.len().min(200)])
            );
            label_shape(g, &node);
            g.set_nontrivial(shape_nontrivial(&node));
            let reference = print_payload(fl, &node);
            ensure!(
                bytes == reference,
                format!("{} encode differs from the wire format", fl.name()),
                "value {}: encoder {} / wire reference {}",
                node.render(),
                hexs(&bytes[..bytes.len().min(300)]),
                hexs(&reference[..reference.len().min(300)])
            );
            let dec = {
                let b = bytes.clone();
                match catch(move || decode_any(fl, &b, limit)) {
                    Ok(r) => r,
                    Err(p) => return Outcome::fail(format!("{} decode panics", fl.name()), format!("payload {}: {}", hexs(&bytes[..bytes.len().min(300)]), p)),
                }
            };
            match dec {
                Err(e) => Outcome::fail(
                    format!("{} decode rejects the encoding of a value", fl.name()),
                    format!("value {} encoded to {} which decode rejects: {:?}", node.render(), hexs(&bytes[..bytes.len().min(300)]), e),
                ),
                Ok(back) => {
                    ensure!(
                        back == value,
                        format!("{}: decode(encode(v)) != v", fl.name()),
                        "value {} came back as {}",
                        node.render(),
                        back.to_node().render()
                    );
                    Outcome::Pass
                }
            }
        }
    }
}

/// Byte direction: bytes -> (R2 recognise, decode) -> re-encode.
pub fn bytes(g: &mut Gen) -> Outcome {
    let fl_choice = pick_flavour(g);
    let source = g.weighted(&[5, 3, 2, 3, 1, 2, 2]);
    let (fl, payload, probe): (Flavour, Vec<u8>, bool) = match source {
        0 | 1 | 2 | 6 => {
            let node = {
                let mut vg = ValGen::new(g, fl_choice, 40);
                if source == 6 {
                    let limit = fl_choice.default_depth();
                    let d = limit - 1 + vg.g.index(4);
                    vg.budget = 16;
                    vg.spine(d)
                } else if vg.g.chance(1, 12) {
                    vg.big()
                } else if vg.g.chance(1, 4) {
                    vg.custom_rich()
                } else {
                    let d = 1 + vg.g.index(6);
                    vg.value(d)
                }
            };
            let (mut b, sites) = print_payload_sites(fl_choice, &node);
            match source {
                0 => {
                    let l = mutate_site(g, fl_choice, &mut b, &sites);
                    g.label(l);
                    (fl_choice, b, true)
                }
                1 => {
                    let l = mutate_bytes(g, &mut b);
                    g.label(l);
                    (fl_choice, b, true)
                }
                6 => {
                    g.label("around depth limit");
                    (fl_choice, b, false)
                }
                _ => {
                    g.label("printed tree");
                    (fl_choice, b, false)
                }
            }
        }
        3 | 4 => {
            let c = corpus();
            if c.is_empty() {
                return Outcome::Discard;
            }
            let (fl, b) = &c[g.index(c.len())];
            let mut b = b.clone();
            if source == 3 {
                let l = mutate_bytes(g, &mut b);
                g.label(l);
                g.label("corpus mutant");
                (*fl, b, true)
            } else {
                g.label("corpus payload");
                (*fl, b, false)
            }
        }
        _ => {
            let mut b = g.blob(48);
            if g.chance(3, 4) {
                b.insert(0, fl_choice.prefix());
            }
            g.label("raw bytes");
            (fl_choice, b, false)
        }
    };
    g.label(fl.name());
    let limit = fl.default_depth();
    g.sample(|| format!("{} payload ({} bytes): {}", fl.name(), payload.len(), hexs(&payload[..payload.len().min(160)])));

    let reference = parse_payload(fl, &payload);
    let ref_accept: Result<&Parsed, &'static str> = match &reference {
        Ok(p) if p.depth <= limit => Ok(p),
        Ok(_) => Err("nesting beyond the depth limit"),
        Err(e) => Err(wire_error_class(e)),
    };
    let dec = {
        let b = payload.clone();
        match catch(move || decode_any(fl, &b, limit)) {
            Ok(r) => r,
            Err(p) => return Outcome::fail(format!("{} decode panics", fl.name()), format!("payload {}: {}", hexs(&payload[..payload.len().min(300)]), p)),
        }
    };
    match (&ref_accept, &dec) {
        (Err(class), Ok(v)) => Outcome::fail(
            format!("{} decode accepts a payload outside the wire format: {}", fl.name(), class),
            format!(
                "payload {} is not a {} payload ({:?}) but decoded to {}",
                hexs(&payload[..payload.len().min(300)]),
                fl.name(),
                reference.as_ref().err(),
                v.to_node().render()
            ),
        ),
        (Ok(p), Err(e)) => Outcome::fail(
            format!("{} decode rejects a well-formed payload", fl.name()),
            format!(
                "payload {} is well-formed (depth {}, tree {}) but decode returned {:?}",
                hexs(&payload[..payload.len().min(300)]),
                p.depth,
                p.tree.render(),
                e
            ),
        ),
        (Err(class), Err(_)) => {
            g.label("rejected by both");
            let _ = class;
            g.set_nontrivial(probe);
            Outcome::Pass
        }
        (Ok(p), Ok(v)) => {
            g.label("accepted by both");
            label_shape(g, &p.tree);
            g.set_nontrivial(shape_nontrivial(&p.tree) || probe);
            let tree = v.to_node();
            ensure!(
                tree == p.tree,
                format!("{} decode yields a different value than the wire format denotes", fl.name()),
                "payload {}: decoded {} / wire reference {}",
                hexs(&payload[..payload.len().min(300)]),
                tree.render(),
                p.tree.render()
            );
            let enc = {
                let v = v.clone();
                match catch(move || encode_any(&v, limit)) {
                    Ok(r) => r,
                    Err(p) => return Outcome::fail(format!("{} encode panics", fl.name()), format!("value {}: {}", tree.render(), p)),
                }
            };
            match enc {
                Err(e) => Outcome::fail(
                    format!("{} encode refuses a decoded value", fl.name()),
                    format!("payload {} decoded to {} which encode refuses: {:?}", hexs(&payload[..payload.len().min(300)]), tree.render(), e),
                ),
                Ok(b) => {
                    ensure!(
                        b == payload,
                        format!("{}: an accepted payload is not the unique encoding of its value", fl.name()),
                        "payload {} decodes to {} which encodes to {}",
                        hexs(&payload[..payload.len().min(300)]),
                        tree.render(),
                        hexs(&b[..b.len().min(300)])
                    );
                    Outcome::Pass
                }
            }
        }
    }
}

pub fn check() -> Check {
    Check::new(
        "C20",
        "SBOR values round-trip and have a unique encoding",
        "part values: random value trees of the three flavours (every value kind and custom kind, nesting limit-1..limit+2, collection/string sizes at the LEB128 boundaries 127/128/16383/16384/2^21, deliberately mismatching element kinds) are encoded; encodable <=> (kinds consistent and depth <= limit); the bytes must equal the independent wire printer's and decode back to an equal value. part bytes: wire-printed trees with one targeted mutation (padded / oversized / off-by-one sizes, bool 2, unknown kind, invalid UTF-8, bad non-fungible-id discriminator / 65-byte / empty / bad charset, bad address entity, unknown expression, wrong prefix) or one generic byte mutation, corpus payloads from the repository (plain and mutated), payloads at the depth limit, and raw bytes; accept <=> the independent wire recogniser accepts within the depth limit, the decoded tree equals the recogniser's and re-encodes to the same bytes. Non-trivial = accepted payload/value with depth >= 3 or a custom value or a multi-byte size, or a mutation probe, or a refused kind-mismatched value. Distinct = distinct decoded choice sequences.",
    )
    .assume("the wire reference (vf-sbor/src/wire.rs, ~400 lines transcribed from the documented format) is trusted")
    .assume("values are built through the public validated constructors (no ManifestNonFungibleLocalId / ManifestAddress built from raw enum variants with invalid content)")
    .part(Part::new("values", 120_000, 6_000_000, 1024, values))
    .part(Part::new("bytes", 240_000, 14_000_000, 1024, bytes))
    .min_nontrivial_pct(20.0)
}
