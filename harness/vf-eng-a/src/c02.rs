//! C02 Failed, rejected and aborted transactions change nothing but fees (fault enumeration).
//!
//! For a generated manifest on a generated reachable state: the untouched run, then the repository's
//! own `execute_manifest_with_injected_error` at injection indices 1..K (K = first index at which
//! the run completes untouched, learnt by galloping + bisection), restoring the pre-state each time;
//! plus an `abort_when_loan_repaid` run and runs with the fee lock replaced by amounts around the
//! real cost. Every run is judged by `judge`: a validity predicate over the receipt and the raw
//! database difference (pre-state dump vs committed database), written here from the property
//! statement — not from `StateUpdateSummary`.

use crate::exec::*;
use crate::mgen::*;
use scrypto_test::prelude::*;
use std::collections::{BTreeMap, BTreeSet};
use vf_core::{Check, Failure, Gen, Level, Outcome, Part};
use vf_world::*;

fn thorough_or_replay() -> bool {
    // argv: <bin> <ID> quick|thorough|--replay <file>; only the quick tier samples injection indices
    std::env::args().nth(2).map(|a| a != "quick").unwrap_or(true)
}

const QUICK_INDEX_CAP: u64 = 400;

#[derive(Clone, Copy, Debug, PartialEq, Eq)]
pub enum Kind {
    Success,
    Failure,
    Reject,
    Abort,
}

pub struct Pre {
    pub db: Db,
    pub dump: BTreeMap<RawKey, Vec<u8>>,
    pub nodes: BTreeSet<NodeId>,
    pub rewards_vault: NodeId,
}

fn validator_rewards(db: &Db) -> Option<ValidatorRewardsSubstate> {
    db.get_substate::<FieldSubstate<ConsensusManagerValidatorRewardsFieldPayload>>(
        CONSENSUS_MANAGER.as_node_id(),
        MAIN_BASE_PARTITION,
        ConsensusManagerField::ValidatorRewards,
    )
    .map(|s| s.into_payload().fully_update_and_into_latest_version())
}

impl Pre {
    pub fn capture(db: &Db) -> Pre {
        let rewards_vault = validator_rewards(db).expect("consensus manager has a validator rewards field").rewards_vault.0 .0;
        Pre { db: db.clone(), dump: dump(db), nodes: all_nodes(db), rewards_vault }
    }
}

fn xrd_vault(db: &Db, node: &NodeId) -> bool {
    if node.entity_type() != Some(EntityType::InternalFungibleVault) {
        return false;
    }
    match type_info(db, node) {
        Some(radix_engine::system::type_info::TypeInfoSubstate::Object(o)) => match &o.blueprint_info.outer_obj_info {
            OuterObjectInfo::Some { outer_object } => outer_object.as_node_id() == XRD.as_node_id(),
            OuterObjectInfo::None => false,
        },
        _ => false,
    }
}

fn fail(entry: &str, what: &str, message: String) -> Failure {
    Failure { signature: format!("{}: {}", entry, what), message }
}

fn total_cost(s: &TransactionFeeSummary) -> Option<Decimal> {
    s.total_execution_cost_in_xrd
        .checked_add(s.total_finalization_cost_in_xrd)?
        .checked_add(s.total_tipping_cost_in_xrd)?
        .checked_add(s.total_storage_cost_in_xrd)?
        .checked_add(s.total_royalty_cost_in_xrd)
}

/// The oracle. `db` is the database after the run (committed by the simulator if the result was a commit).
pub fn judge(entry: &str, pre: &Pre, db: &Db, receipt: &TransactionReceipt, ctx: &dyn Fn() -> String) -> Result<Kind, Failure> {
    let c = match &receipt.result {
        TransactionResult::Reject(_) | TransactionResult::Abort(_) => {
            let kind = if matches!(receipt.result, TransactionResult::Reject(_)) { Kind::Reject } else { Kind::Abort };
            if *db != pre.db {
                let d = diff(&pre.dump, &dump(db));
                return Err(fail(
                    entry,
                    "database changed by a rejected or aborted transaction",
                    format!("{} ; {} substates differ, e.g. {} :: {}", outcome_string(receipt), d.len(), d.first().map(|(k, _, _)| show_raw_key(k)).unwrap_or_default(), ctx()),
                ));
            }
            return Ok(kind);
        }
        TransactionResult::Commit(c) => c,
    };
    if matches!(c.outcome, TransactionOutcome::Success(_)) {
        return Ok(Kind::Success);
    }
    let out = outcome_string(receipt);
    if !receipt.transaction_costing_parameters.free_credit_in_xrd.is_zero() {
        return Err(fail(entry, "harness: free credit is not zero", ctx()));
    }

    // ---- events: only fee-related ones; they name the vaults that locked fee ----
    let mut locked: BTreeSet<NodeId> = BTreeSet::new();
    let mut burnt = Decimal::ZERO;
    for (EventTypeIdentifier(emitter, name), data) in &c.application_events {
        let ok = match (emitter, name.as_str()) {
            (Emitter::Method(node, ModuleId::Main), "LockFeeEvent") if xrd_vault(&pre.db, node) => {
                locked.insert(*node);
                true
            }
            (Emitter::Method(node, ModuleId::Main), "PayFeeEvent") => locked.contains(node),
            (Emitter::Method(node, ModuleId::Main), "DepositEvent") => *node == pre.rewards_vault,
            (Emitter::Method(node, ModuleId::Main), "BurnFungibleResourceEvent") if node == XRD.as_node_id() => {
                match scrypto_decode::<BurnFungibleResourceEvent>(data) {
                    Ok(e) => {
                        burnt = burnt.checked_add(e.amount).unwrap_or(Decimal::MAX);
                        true
                    }
                    Err(_) => false,
                }
            }
            _ => false,
        };
        if !ok {
            return Err(fail(
                entry,
                "failed commit emits an event that is not fee-related",
                format!("{} ; event {:?} {} (data {}) ; all events: {:?} :: {}", out, emitter, name, hex::encode(data), c.application_events.iter().map(|(EventTypeIdentifier(e, n), _)| format!("{:?}:{}", e, n)).collect::<Vec<_>>(), ctx()),
            ));
        }
    }

    // ---- the receipt must not report entities created by a failed transaction ----
    {
        let s = &c.state_update_summary;
        if !(s.new_packages.is_empty() && s.new_components.is_empty() && s.new_resources.is_empty() && s.new_vaults.is_empty()) {
            return Err(fail(
                entry,
                "failed commit reports new entities in its receipt",
                format!("{} ; new packages {:?} components {:?} resources {:?} vaults {:?} :: {}", out, s.new_packages, s.new_components, s.new_resources, s.new_vaults, ctx()),
            ));
        }
    }

    // ---- raw difference of the database ----
    let post = dump(db);
    let d = diff(&pre.dump, &post);
    let mut allowed: BTreeMap<RawKey, &'static str> = BTreeMap::new();
    for v in &locked {
        allowed.insert(raw_key(v, MAIN_BASE_PARTITION, &FungibleVaultField::Balance.into()), "fee vault");
    }
    allowed.insert(raw_key(CONSENSUS_MANAGER.as_node_id(), MAIN_BASE_PARTITION, &ConsensusManagerField::ValidatorRewards.into()), "validator rewards");
    allowed.insert(raw_key(&pre.rewards_vault, MAIN_BASE_PARTITION, &FungibleVaultField::Balance.into()), "rewards vault");
    let tracker_node_key = SpreadPrefixKeyMapper::to_db_partition_key(TRANSACTION_TRACKER.as_node_id(), MAIN_BASE_PARTITION).node_key;
    let mut tracker_entries_set = 0;
    for (k, before, after) in &d {
        if allowed.contains_key(k) {
            continue;
        }
        if k.0 == tracker_node_key {
            // the tracker field, one status entry, or entries removed by a partition reset
            let is_field = *k == raw_key(TRANSACTION_TRACKER.as_node_id(), MAIN_BASE_PARTITION, &SubstateKey::Field(0));
            if is_field {
                continue;
            }
            if k.1 > MAIN_BASE_PARTITION.0 {
                if after.is_none() {
                    continue;
                }
                tracker_entries_set += 1;
                if tracker_entries_set <= 1 {
                    continue;
                }
            }
        }
        let pk = DbPartitionKey { node_key: k.0.clone(), partition_num: k.1 };
        let (node, _) = SpreadPrefixKeyMapper::from_db_partition_key(&pk);
        let what = if !pre.nodes.contains(&node) { "failed commit creates a node" } else { "failed commit changes a substate outside the fee set" };
        return Err(fail(
            entry,
            what,
            format!(
                "{} ; {} changed from {:?} to {:?} ; vaults that locked fee: {:?} ; {} substates differ in all :: {}",
                out,
                show_raw_key(k),
                before.as_ref().map(hex::encode),
                after.as_ref().map(hex::encode),
                locked,
                d.len(),
                ctx()
            ),
        ));
    }

    // ---- amounts ----
    let mut paid = Decimal::ZERO;
    for v in &locked {
        let (Some(b), Some(a)) = (fungible_vault_balance(&pre.db, v), fungible_vault_balance(db, v)) else {
            return Err(fail(entry, "fee vault balance unreadable after a failed commit", format!("{} ; vault {:?} :: {}", out, v, ctx())));
        };
        if a > b {
            return Err(fail(entry, "fee vault balance grows in a failed commit", format!("{} ; vault {:?} {} -> {} :: {}", out, v, b, a, ctx())));
        }
        paid = paid.checked_add(b.checked_sub(a).unwrap()).unwrap();
    }
    let (Some(rb), Some(ra)) = (fungible_vault_balance(&pre.db, &pre.rewards_vault), fungible_vault_balance(db, &pre.rewards_vault)) else {
        return Err(fail(entry, "rewards vault balance unreadable after a failed commit", format!("{} :: {}", out, ctx())));
    };
    let rewarded = ra.checked_sub(rb).unwrap_or(Decimal::MIN);
    let cost = total_cost(&receipt.fee_summary);
    if rewarded.is_negative() || Some(paid) != rewarded.checked_add(burnt) || Some(paid) != cost {
        return Err(fail(
            entry,
            "failed commit: sum of fee vault decreases differs from the total cost / from rewards + burn",
            format!("{} ; fee vaults paid {} ; rewards vault received {} ; burn event {} ; fee summary total {:?} :: {}", out, paid, rewarded, burnt, cost, ctx()),
        ));
    }
    if !receipt.fee_summary.total_royalty_cost_in_xrd.is_zero() {
        return Err(fail(entry, "failed commit charges royalties", format!("{} ; royalty cost {} :: {}", out, receipt.fee_summary.total_royalty_cost_in_xrd, ctx())));
    }
    match (validator_rewards(&pre.db), validator_rewards(db)) {
        (Some(b), Some(a)) => {
            let mut up = Decimal::ZERO;
            let mut ok = a.rewards_vault == b.rewards_vault && a.proposer_rewards.len() >= b.proposer_rewards.len();
            for (idx, amount) in &a.proposer_rewards {
                let before = b.proposer_rewards.get(idx).copied().unwrap_or(Decimal::ZERO);
                if *amount < before {
                    ok = false;
                } else {
                    up = up.checked_add(amount.checked_sub(before).unwrap()).unwrap();
                }
            }
            if !ok || up > rewarded {
                return Err(fail(entry, "failed commit: validator rewards bookkeeping inconsistent with the rewards vault", format!("{} ; before {:?} after {:?} ; rewards vault received {} :: {}", out, b, a, rewarded, ctx())));
            }
        }
        _ => return Err(fail(entry, "validator rewards unreadable after a failed commit", format!("{} :: {}", out, ctx()))),
    }

    // ---- ledger invariants ----
    let problems = Totals::scan(db).supply_problems();
    if !problems.is_empty() {
        return Err(fail(entry, "supply invariant broken after a failed commit", format!("{} ; {:?} :: {}", out, problems, ctx())));
    }
    Ok(Kind::Failure)
}

/// Execution cost units consumed by the untouched run up to (and including) its first write into
/// the track that is not a write of one of `fee_vaults`; None if it makes no such write.
fn units_at_first_non_fee_write(receipt: &TransactionReceipt, fee_vaults: &BTreeSet<NodeId>) -> Option<u64> {
    use radix_engine::system::system_modules::costing::owned::*;
    let info = receipt.debug_information.as_ref()?;
    let mut units = 0u64;
    for e in &info.detailed_execution_cost_breakdown {
        if let ExecutionCostBreakdownItem::Execution { item, cost_units, .. } = &e.item {
            units += *cost_units as u64;
            let io = match item {
                ExecutionCostingEntryOwned::CreateNode { event: CreateNodeEventOwned::IOAccess(io) } => Some(io),
                ExecutionCostingEntryOwned::MoveModule { event: MoveModuleEventOwned::IOAccess(io) } => Some(io),
                ExecutionCostingEntryOwned::WriteSubstate { event: WriteSubstateEventOwned::IOAccess(io) } => Some(io),
                ExecutionCostingEntryOwned::SetSubstate { event: SetSubstateEventOwned::IOAccess(io) } => Some(io),
                ExecutionCostingEntryOwned::RemoveSubstate { event: RemoveSubstateEventOwned::IOAccess(io) } => Some(io),
                ExecutionCostingEntryOwned::DrainSubstates { event: DrainSubstatesEventOwned::IOAccess(io) } => Some(io),
                _ => None,
            };
            if let Some(IOAccess::TrackSubstateUpdated { canonical_substate_key, .. }) = io {
                if !fee_vaults.contains(&canonical_substate_key.node_id) {
                    return Some(units);
                }
            }
        }
    }
    None
}

fn case(g: &mut Gen) -> Outcome {
    with_world("c02", no_genesis, build_world, |w| match run_case(g, w) {
        Ok(()) => Outcome::Pass,
        Err(f) => Outcome::Fail(f),
    })
}

const SIG_PREDICT: &str = "harness/mgen: outcome of a generated transaction differs from the generator's expectation";

fn kind_label(prefix: &'static str, k: Kind) -> &'static str {
    match (prefix, k) {
        ("untouched", Kind::Success) => "untouched run: commit success",
        ("untouched", Kind::Failure) => "untouched run: commit failure (natural)",
        ("untouched", Kind::Reject) => "untouched run: rejected (natural)",
        ("untouched", Kind::Abort) => "untouched run: aborted",
        ("abort", Kind::Abort) => "abort_when_loan_repaid: aborted",
        ("abort", Kind::Reject) => "abort_when_loan_repaid: rejected",
        ("abort", Kind::Failure) => "abort_when_loan_repaid: commit failure",
        ("abort", Kind::Success) => "abort_when_loan_repaid: commit success",
        ("fee", Kind::Success) => "fee lock around the real cost: commit success",
        ("fee", Kind::Failure) => "fee lock around the real cost: commit failure",
        ("fee", Kind::Reject) => "fee lock around the real cost: rejected",
        (_, _) => "other run",
    }
}

fn run_case(g: &mut Gen, w: &mut World) -> Result<(), Failure> {
    // ---- a reachable state ----
    let mut model = Model::new(w);
    let n_hist = g.weighted(&[4, 3, 2, 1]);
    let mut history: Vec<String> = Vec::new();
    for _ in 0..n_hist {
        let plan = gen_plan(g, w, &model, &Opts { allow_publish: false, ..Opts::history() });
        let text = plan.describe(w);
        let run = w.run(plan.render(w), plan.proofs(w));
        if let Some(p) = &run.panic {
            return Err(fail("execute_manifest", "host panic on a generated transaction", format!("{} :: history [{}] ; {}", p, history.join(" | "), text)));
        }
        let r = run.receipt();
        if let Err(e) = plan.check_expect(r) {
            return Err(Failure { signature: SIG_PREDICT.into(), message: format!("{} :: history [{}] ; {}", e, history.join(" | "), text) });
        }
        if r.is_commit_success() {
            model = plan.commit_success(r);
        }
        history.push(format!("{} => {}", text, outcome_string(r)));
    }
    g.count("history transactions", n_hist as u64);

    // ---- the manifest under test ----
    let plan = gen_plan(g, w, &model, &Opts::failing_mix());
    let text = plan.describe(w);
    let manifest = plan.render(w);
    let proofs = plan.proofs(w);
    for l in &plan.labels {
        g.label(l);
    }
    g.label(match &plan.fee {
        FeePlan::Faucet => "fee: faucet",
        FeePlan::Accounts(l) if l.len() == 1 => "fee: one account vault",
        FeePlan::Accounts(l) if l.iter().any(|x| x.2) => "fee: several locks incl. contingent",
        FeePlan::Accounts(_) => "fee: several locks",
        FeePlan::TooSmall(..) => "fee: small lock",
        FeePlan::None => "fee: none locked",
    });
    let snap = w.sim.create_snapshot();
    let pre = Pre::capture(w.db());
    let base_ctx = format!("history [{}] ; manifest {}", history.join(" | "), text);

    // fee vaults of this plan (for the non-trivial rule only)
    let mut fee_vaults: BTreeSet<NodeId> = BTreeSet::new();
    match &plan.fee {
        FeePlan::Faucet => {
            for v in w.sim.get_component_vaults(FAUCET, XRD) {
                fee_vaults.insert(v);
            }
        }
        FeePlan::Accounts(locks) => {
            for (a, _, _) in locks {
                for v in w.sim.get_component_vaults(w.accounts[*a].address, XRD) {
                    fee_vaults.insert(v);
                }
            }
        }
        FeePlan::TooSmall(a, _) => {
            for v in w.sim.get_component_vaults(w.accounts[*a].address, XRD) {
                fee_vaults.insert(v);
            }
        }
        FeePlan::None => {}
    }

    let inject = |w: &mut World, k: u64| -> Result<(TransactionReceipt, Kind), Failure> {
        let m = manifest.clone();
        let p = proofs.clone();
        let sim = &mut w.sim;
        let r = vf_core::catch(move || sim.execute_manifest_with_injected_error(m, p, k));
        let out = match r {
            Err(panic) => Err(fail(
                "execute_manifest_with_injected_error",
                "host panic",
                format!("injection index {}: {} :: {}", k, panic, base_ctx),
            )),
            Ok(receipt) => {
                let ctx = || format!("injection index {} :: {}", k, base_ctx);
                let entry = if k == 0 { "execute_manifest (natural outcome)" } else { "execute_manifest_with_injected_error" };
                judge(entry, &pre, w.db(), &receipt, &ctx).map(|kind| (receipt, kind))
            }
        };
        w.sim.restore_snapshot(snap.clone());
        out
    };

    // ---- untouched run ----
    let (r0, k0) = inject(w, 0)?;
    if let Err(e) = plan.check_expect(&r0) {
        return Err(Failure { signature: SIG_PREDICT.into(), message: format!("{} :: {}", e, base_ctx) });
    }
    g.label(kind_label("untouched", k0));
    let parts0 = parts(&r0);

    // debug-information run of the same manifest (not committed): where does the first non-fee write happen?
    let first_write_units = {
        let nonce = w.sim.next_transaction_nonce();
        let exe = executable(w, manifest.clone(), nonce, &proofs).map_err(|e| fail("harness/mgen", "generated manifest is not a valid executable", format!("{} :: {}", e, base_ctx)))?;
        let sim = &mut w.sim;
        let r = vf_core::catch(move || sim.execute_transaction_no_commit(exe, ExecutionConfig::for_debug_transaction()));
        w.sim.restore_snapshot(snap.clone());
        match r {
            Ok(r) => units_at_first_non_fee_write(&r, &fee_vaults),
            Err(p) => return Err(fail("execute_transaction (debug information)", "host panic", format!("{} :: {}", p, base_ctx))),
        }
    };

    // ---- K: first injection index at which the run completes untouched ----
    let mut runs = 0u64;
    let mut lo = 0u64; // largest index known to be touched (0 = none known)
    let mut hi = 64u64;
    loop {
        let (r, _) = inject(w, hi)?;
        runs += 1;
        if first_difference(&parts0, &parts(&r)).is_none() {
            break;
        }
        lo = hi;
        hi *= 2;
        if hi > (1 << 22) {
            return Err(fail("harness", "no injection index below 2^22 leaves the run untouched", base_ctx.clone()));
        }
    }
    while hi - lo > 1 {
        let mid = lo + (hi - lo) / 2;
        let (r, _) = inject(w, mid)?;
        runs += 1;
        if first_difference(&parts0, &parts(&r)).is_none() {
            hi = mid;
        } else {
            lo = mid;
        }
    }
    let k_untouched = hi;
    g.count("injection points of the generated manifests (K-1)", k_untouched - 1);

    // ---- sweep ----
    let n_points = k_untouched - 1;
    let indices: Vec<u64> = if thorough_or_replay() || n_points <= QUICK_INDEX_CAP {
        (1..=n_points).collect()
    } else {
        g.label("injection indices sampled evenly (K-1 > 400)");
        let offset_max = n_points / QUICK_INDEX_CAP;
        let off = g.below(offset_max.max(1));
        (0..QUICK_INDEX_CAP).map(|i| (1 + i * n_points / QUICK_INDEX_CAP + off).min(n_points)).collect()
    };
    let mut seen = [0u64; 4];
    let mut after_write = 0u64;
    for k in indices {
        let (r, kind) = inject(w, k)?;
        runs += 1;
        seen[kind as usize] += 1;
        if kind == Kind::Failure {
            if let Some(u) = first_write_units {
                if r.fee_summary.total_execution_cost_units_consumed as u64 > u {
                    after_write += 1;
                }
            }
        }
    }
    g.count("injected runs judged", runs);
    g.count("injected runs: commit failure", seen[Kind::Failure as usize]);
    g.count("injected runs: commit failure after a non-fee write", after_write);
    g.count("injected runs: rejected", seen[Kind::Reject as usize]);
    g.count("injected runs: commit success (error swallowed)", seen[Kind::Success as usize]);
    if seen[Kind::Failure as usize] > 0 {
        g.label("injection turned the run into a failed commit");
    }
    if seen[Kind::Reject as usize] > 0 {
        g.label("injection turned the run into a rejection");
    }
    if after_write > 0 {
        g.label("injected failure after a non-fee state write");
        g.nontrivial();
    }

    // ---- abort_when_loan_repaid ----
    {
        let cfg = ExecutionConfig::for_test_transaction().update_system_overrides(|o| o.set_abort_when_loan_repaid());
        let run = w.run_with_config(manifest.clone(), proofs.clone(), cfg);
        let res = match (&run.panic, &run.receipt) {
            (Some(p), _) => Err(fail("execute_manifest (abort_when_loan_repaid)", "host panic", format!("{} :: {}", p, base_ctx))),
            (None, Some(r)) => judge("execute_manifest (abort_when_loan_repaid)", &pre, w.db(), r, &|| base_ctx.clone()),
            _ => unreachable!(),
        };
        w.sim.restore_snapshot(snap.clone());
        let kind = res?;
        g.label(kind_label("abort", kind));
        if kind == Kind::Abort {
            g.count("aborted runs judged", 1);
        }
    }

    // ---- the fee lock replaced by amounts around the real cost ----
    if let (Some(cost), true) = (total_cost(&r0.fee_summary), matches!(k0, Kind::Success | Kind::Failure)) {
        let payer = g.index(w.accounts.len());
        if model.xrd_lb[payer] >= 1000 * ONE && !cost.is_zero() {
            let atto = Decimal::from_attos(I192::from(1u8));
            let candidates = [
                cost.checked_div(dec!(2)).unwrap(),
                cost.checked_mul(dec!("0.9")).unwrap(),
                cost.checked_mul(dec!("0.99")).unwrap(),
                cost.checked_sub(atto).unwrap(),
                cost,
                cost.checked_add(atto).unwrap(),
                cost.checked_mul(dec!("1.05")).unwrap(),
                dec!("0.2"),
                dec!("0.25"),
            ];
            for _ in 0..3 {
                let amount = *g.pick(&candidates);
                let p2 = plan.with_single_lock(payer, amount);
                let text2 = p2.describe(w);
                let run = w.run(p2.render(w), p2.proofs(w));
                let res = match (&run.panic, &run.receipt) {
                    (Some(p), _) => Err(fail("execute_manifest (fee lock around the real cost)", "host panic", format!("{} :: history [{}] ; manifest {}", p, history.join(" | "), text2))),
                    (None, Some(r)) => judge("execute_manifest (fee lock around the real cost)", &pre, w.db(), r, &|| format!("history [{}] ; manifest {}", history.join(" | "), text2)),
                    _ => unreachable!(),
                };
                w.sim.restore_snapshot(snap.clone());
                let kind = res?;
                g.label(kind_label("fee", kind));
                g.count("runs with the fee lock around the real cost", 1);
                if kind == Kind::Failure {
                    g.count("runs with the fee lock around the real cost: commit failure", 1);
                }
            }
        }
    }

    g.sample(|| {
        format!(
            "{} ; untouched => {} ; K-1 = {} injection points: {} failed commits ({} after a non-fee write), {} rejections, {} untouched/success",
            base_ctx,
            outcome_string(&r0),
            n_points,
            seen[Kind::Failure as usize],
            after_write,
            seen[Kind::Reject as usize],
            seen[Kind::Success as usize]
        )
    });
    Ok(())
}

pub fn check() -> Check {
    Check::new(
        "C02",
        "Failed, rejected and aborted transactions change nothing but fees",
        "A generated manifest (typed manifest generator: transfers, mint/burn, NF operations, faucet and WAT calls, puppet scripts writing component state / creating nodes and KV entries, calls of a royalty-charging component; 45% end in one of 15 deliberate failures; fee from the faucet, 1-3 account vaults incl. contingent locks, too small, or none) is run on a state reached by 0-3 committed generated transactions. After the untouched run, the repository's execute_manifest_with_injected_error is run at injection indices 1..K-1 (K = first index at which the run completes untouched, learnt by galloping and bisection; the quick tier sweeps all indices when K-1 <= 400 and 400 evenly spaced ones otherwise, thorough sweeps all), then once with abort_when_loan_repaid, and three times with the fee section replaced by a single lock of an amount around the real cost (x0.5, x0.9, x0.99, cost-1 atto, cost, cost+1 atto, x1.05, 0.2, 0.25). The pre-state is restored before every run. Each run is judged: Reject/Abort => database identical to the pre-state; Commit-Failure => raw database difference (harness dump before vs after) contains only {balance field of an XRD vault named by a LockFeeEvent of this transaction, ConsensusManager validator-rewards field, rewards vault balance, transaction tracker field / one status entry / removed tracker entries}, no node that did not exist and no new entity listed in the receipt, only LockFee / PayFee / rewards-vault Deposit / XRD burn events, sum of fee-vault decreases = total cost (free credit 0) = rewards vault increase + burn event amount, no royalty cost, validator rewards bookkeeping monotone, and the harness's full-ledger scan reports supply == sum of vaults for every tracked resource. Non-trivial = at least one injected run committed as a failure after the transaction had already written a non-fee substate into the track (located with the detailed cost breakdown of the untouched run: cost units consumed at the first TrackSubstateUpdated of a substate that is not one of the plan's fee vaults). Distinct = distinct decoded choice sequences.",
    )
    .level(Level::FaultEnumeration)
    .assume("injection points are those of the repository's InjectCostingError wrapper (every kernel callback and every cost application); errors raised elsewhere are covered only by the naturally failing manifests")
    .assume("test transactions carry no intent-hash nullification, so the tracker status entry branch of the allowed set is not exercised (the tracker field rewrite is)")
    .assume("the 'after a non-fee write' classification uses cost units consumed as a position marker; it affects only the non-trivial count, never a verdict")
    .part(Part::new("manifest x injection index", 120, 800, 6000, case))
    .min_nontrivial_pct(15.0)
}
