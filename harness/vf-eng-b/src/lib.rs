//! vf-eng-b: engine-level resource checks — C03 conservation per transaction, C04 supply/vault
//! history invariant, C09 worktop/bucket/proof accounting, C10 funds behind live proofs.

pub mod c03;
pub mod c04;
pub mod c09;
pub mod c10;
pub mod judge;
pub mod mgen;
pub mod session;

pub fn checks() -> Vec<vf_core::Check> {
    vec![c03::check(), c04::check(), c09::check(), c10::check()]
}
