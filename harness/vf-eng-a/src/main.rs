fn main() {
    let args: Vec<String> = std::env::args().collect();
    if args.get(1).map(|s| s.as_str()) == Some("c01-child") {
        // child-process mode of C01: print the digest of a history + probe given as a file
        let code = match args.get(2) {
            Some(f) => vf_eng_a::c01::child_main(f),
            None => 2,
        };
        std::process::exit(code);
    }
    vf_core::main_with(vf_eng_a::checks());
}
