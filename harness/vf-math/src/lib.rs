pub mod refdec;
pub mod c24;
pub mod c25;
pub mod c26;
pub mod c27;
pub mod c28;
pub mod c29;

pub fn checks() -> Vec<vf_core::Check> {
    vec![c24::check(), c25::check(), c26::check(), c27::check(), c28::check(), c29::check()]
}
