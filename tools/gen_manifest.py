#!/usr/bin/env python3
"""Regenerates /verif/MANIFEST.json from harness/checks.tsv + tools/manifest_src.json.
Properties without a registered check are listed under not_applicable with their reason."""
import json, os, sys
root = os.path.dirname(os.path.dirname(os.path.abspath(__file__)))
src = json.load(open(os.path.join(root, "tools", "manifest_src.json")))
props = [json.loads(l) for l in open(os.path.join(root, "properties.jsonl")) if l.strip()]
rows = {}
for line in open(os.path.join(root, "harness", "checks.tsv")):
    if line.startswith("#") or not line.strip():
        continue
    f = line.rstrip("\n").split("\t")
    rows[f[0]] = f
checks, na = [], []
for p in props:
    pid = p["id"]
    meta = src["checks"].get(pid)
    if pid in rows and meta:
        c = {
            "property_id": pid,
            "quick_cmd": f"./check {pid} quick",
            "thorough_cmd": f"./check {pid} thorough",
            "evidence_file": f"evidence/{pid}.json",
            "replay_cmd_template": f"./check {pid} --replay {{path}}",
            "engine": rows[pid][1],
            "level_claimed": {
                "category": meta.get("category", "exploration"),
                "text": meta["text"],
                "design_ref": meta.get("design_ref", f"DESIGN.md section 3, {pid}"),
            },
            "level_note": meta["note"],
            "technique": meta.get("technique", "property-based testing (proptest-driven tape, explicit oracle)"),
        }
        checks.append(c)
    else:
        na.append({"property_id": pid, "reason": src["not_applicable"].get(pid, src["default_na"])})
engines = {}
for pid, f in rows.items():
    engines.setdefault(f[1], []).append(pid)
m = {
    "version": 1,
    "setup_cmd": "./check setup",
    "hooks": src["hooks"],
    "engines": [
        {"name": k, "path": f"harness/{k}", "serves_properties": sorted(v),
         "kind_free_text": src["engines"].get(k, "proptest-driven harness binary")}
        for k, v in sorted(engines.items())
    ],
    "checks": checks,
    "notes": src["notes"],
    "not_applicable": na,
}
json.dump(m, open(os.path.join(root, "MANIFEST.json"), "w"), indent=1)
print(f"{len(checks)} checks, {len(na)} not_applicable")
