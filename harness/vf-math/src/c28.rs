//! C28 Addresses and identifiers have lossless, network-bound text forms.
//!
//! Oracles: round trip (decode_N(encode_N(a)) == a, also through the five typed wrappers);
//! cross-network rejection (any network with a different hrp suffix); cross-type rejection (typed
//! wrapper of another entity class; correct checksum under another entity's hrp); "accepted text is
//! the Bech32m text of the returned address" (re-encoded independently with the bech32 crate, so a
//! Bech32-variant or otherwise non-canonical acceptance is caught); for ids an independent
//! recogniser / printer of the four documented text forms decides accept <=> valid and the value.

use num_bigint::BigInt;
use radix_common::address::{AddressBech32Decoder, AddressBech32Encoder};
use radix_common::data::manifest::{manifest_decode, manifest_encode};
use radix_common::data::scrypto::model::NonFungibleLocalId;
use radix_common::data::scrypto::{scrypto_decode, scrypto_encode};
use radix_common::network::NetworkDefinition;
use radix_common::types::{ComponentAddress, GlobalAddress, InternalAddress, NonFungibleGlobalId, PackageAddress, ResourceAddress};
use radix_rust::ContextualDisplay;
use std::borrow::Cow;
use std::str::FromStr;
use vf_core::{catch, ensure, Gen, Outcome, Part};

// -------------------------------------------------------------------------------------------
// entity classes (own table, written from the documented entity-type bytes)
// -------------------------------------------------------------------------------------------

#[derive(Clone, Copy, PartialEq, Eq, Debug)]
enum Class {
    Package,
    Resource,
    GlobalComponent,
    Internal,
}

const ENTITY_BYTES: [(u8, Class, &str); 22] = [
    (0b0000_1101, Class::Package, "GlobalPackage"),
    (0b1000_0110, Class::GlobalComponent, "GlobalConsensusManager"),
    (0b1000_0011, Class::GlobalComponent, "GlobalValidator"),
    (0b1000_0010, Class::GlobalComponent, "GlobalTransactionTracker"),
    (0b1100_0000, Class::GlobalComponent, "GlobalGenericComponent"),
    (0b1100_0001, Class::GlobalComponent, "GlobalAccount"),
    (0b1100_0010, Class::GlobalComponent, "GlobalIdentity"),
    (0b1100_0011, Class::GlobalComponent, "GlobalAccessController"),
    (0b1100_0100, Class::GlobalComponent, "GlobalOneResourcePool"),
    (0b1100_0101, Class::GlobalComponent, "GlobalTwoResourcePool"),
    (0b1100_0110, Class::GlobalComponent, "GlobalMultiResourcePool"),
    (0b0110_1000, Class::GlobalComponent, "GlobalAccountLocker"),
    (0b1101_0001, Class::GlobalComponent, "GlobalPreallocatedSecp256k1Account"),
    (0b1101_0010, Class::GlobalComponent, "GlobalPreallocatedSecp256k1Identity"),
    (0b0101_0001, Class::GlobalComponent, "GlobalPreallocatedEd25519Account"),
    (0b0101_0010, Class::GlobalComponent, "GlobalPreallocatedEd25519Identity"),
    (0b0101_1101, Class::Resource, "GlobalFungibleResourceManager"),
    (0b0101_1000, Class::Internal, "InternalFungibleVault"),
    (0b1001_1010, Class::Resource, "GlobalNonFungibleResourceManager"),
    (0b1001_1000, Class::Internal, "InternalNonFungibleVault"),
    (0b1111_1000, Class::Internal, "InternalGenericComponent"),
    (0b1011_0000, Class::Internal, "InternalKeyValueStore"),
];

fn class_of(byte: u8) -> Option<(Class, &'static str)> {
    ENTITY_BYTES.iter().find(|e| e.0 == byte).map(|e| (e.1, e.2))
}

const SUFFIX_CHARS: &[u8] = b"abcdefghijklmnopqrstuvwxyz0123456789_";
const KNOWN_SUFFIXES: [&str; 7] = ["sim", "rdx", "loc", "tdx_2_", "tdx_a_", "tdx_21_", "x"];
const BECH32_CHARS: &[u8] = b"qpzry9x8gf2tvdw0s3jn54khce6mua7l";

fn gen_suffix(g: &mut Gen) -> String {
    if g.chance(1, 3) {
        return (*g.pick(&KNOWN_SUFFIXES)).to_string();
    }
    let n = 1 + g.len(11);
    (0..n).map(|_| *g.pick(SUFFIX_CHARS) as char).collect()
}

/// A suffix different from `s`: unrelated, an extension of it, a proper prefix of it, or one
/// character changed.
fn gen_other_suffix(g: &mut Gen, s: &str) -> (String, &'static str) {
    let (o, how) = match g.weighted(&[3, 2, 2, 2]) {
        0 => (gen_suffix(g), "unrelated suffix"),
        1 => {
            let mut o = s.to_string();
            o.push(*g.pick(SUFFIX_CHARS) as char);
            (o, "suffix extends the other")
        }
        2 => {
            if s.len() > 1 {
                (s[..s.len() - 1].to_string(), "suffix is a prefix of the other")
            } else {
                (format!("{}{}", s, s), "suffix extends the other")
            }
        }
        _ => {
            let mut b = s.as_bytes().to_vec();
            let i = g.index(b.len());
            let c = *g.pick(SUFFIX_CHARS);
            b[i] = if c == b[i] { if c == b'a' { b'b' } else { b'a' } } else { c };
            (String::from_utf8(b).unwrap(), "suffix differs in one character")
        }
    };
    if o == s {
        (format!("{}z", s), "suffix extends the other")
    } else {
        (o, how)
    }
}

fn network(suffix: &str, id: u8) -> NetworkDefinition {
    NetworkDefinition { id, logical_name: Cow::Owned(format!("net{}", id)), hrp_suffix: Cow::Owned(suffix.to_string()) }
}

fn gen_node(g: &mut Gen, entity_byte: u8) -> [u8; 30] {
    let mut node = [0u8; 30];
    node[0] = entity_byte;
    match g.weighted(&[1, 6, 1]) {
        0 => {}
        1 => {
            for b in node[1..].iter_mut() {
                *b = g.u8();
            }
        }
        _ => {
            for b in node[1..].iter_mut() {
                *b = 0xff;
            }
        }
    }
    node
}

/// Independent reading of a bech32 string: Some((hrp, payload, is_bech32m)).
fn independent_decode(s: &str) -> Option<(String, Vec<u8>, bool)> {
    use bech32::FromBase32;
    let (hrp, data, variant) = bech32::decode(s).ok()?;
    let bytes = Vec::<u8>::from_base32(&data).ok()?;
    Some((hrp, bytes, variant == bech32::Variant::Bech32m))
}

fn independent_encode(hrp: &str, payload: &[u8], m: bool) -> Option<String> {
    use bech32::ToBase32;
    bech32::encode(hrp, payload.to_base32(), if m { bech32::Variant::Bech32m } else { bech32::Variant::Bech32 }).ok()
}

/// (which wrappers accepted, payloads) for a text on a decoder.
fn typed_decodes(dec: &AddressBech32Decoder, s: &str) -> Result<[Option<Vec<u8>>; 5], String> {
    let s = s.to_string();
    catch(|| {
        [
            GlobalAddress::try_from_bech32(dec, &s).map(|a| a.to_vec()),
            InternalAddress::try_from_bech32(dec, &s).map(|a| a.to_vec()),
            ComponentAddress::try_from_bech32(dec, &s).map(|a| a.to_vec()),
            ResourceAddress::try_from_bech32(dec, &s).map(|a| a.to_vec()),
            PackageAddress::try_from_bech32(dec, &s).map(|a| a.to_vec()),
        ]
    })
}

const WRAPPERS: [&str; 5] = ["GlobalAddress", "InternalAddress", "ComponentAddress", "ResourceAddress", "PackageAddress"];

fn wrapper_accepts(w: usize, c: Class) -> bool {
    match w {
        0 => c != Class::Internal,
        1 => c == Class::Internal,
        2 => c == Class::GlobalComponent,
        3 => c == Class::Resource,
        _ => c == Class::Package,
    }
}

fn typed_display(w: usize, node: &[u8; 30], enc: &AddressBech32Encoder) -> Result<String, String> {
    let node = *node;
    catch(|| match w {
        0 => GlobalAddress::new_or_panic(node).to_string(enc),
        1 => InternalAddress::new_or_panic(node).to_string(enc),
        2 => ComponentAddress::new_or_panic(node).to_string(enc),
        3 => ResourceAddress::new_or_panic(node).to_string(enc),
        _ => PackageAddress::new_or_panic(node).to_string(enc),
    })
}

// -------------------------------------------------------------------------------------------
// part addresses
// -------------------------------------------------------------------------------------------

fn addresses(g: &mut Gen) -> Outcome {
    let suffix = gen_suffix(g);
    let net_n = network(&suffix, 1);
    let enc = AddressBech32Encoder::new(&net_n);
    let dec = AddressBech32Decoder::new(&net_n);

    // an invalid entity-type byte: outside the property's domain, only "no panic"
    if g.chance(1, 25) {
        let mut b = g.u8();
        while class_of(b).is_some() {
            b = b.wrapping_add(1);
        }
        let node = gen_node(g, b);
        g.label("invalid entity type byte");
        g.sample(|| format!("encode(node {} with invalid entity byte) on suffix {:?}", hex::encode(node), suffix));
        return match catch(|| enc.encode(&node)) {
            Err(p) => Outcome::fail("AddressBech32Encoder::encode panics", format!("node {}: {}", hex::encode(node), p)),
            Ok(_) => Outcome::Pass,
        };
    }

    let (byte, class, tname) = *g.pick(&ENTITY_BYTES);
    g.label(tname);
    let node = gen_node(g, byte);
    let text = match catch(|| enc.encode(&node)) {
        Err(p) => return Outcome::fail("AddressBech32Encoder::encode panics", format!("node {}: {}", hex::encode(node), p)),
        Ok(Err(e)) => {
            return Outcome::fail(
                "AddressBech32Encoder::encode fails for a valid entity address",
                format!("node {} ({}) on hrp suffix {:?}: {:?}", hex::encode(node), tname, suffix, e),
            )
        }
        Ok(Ok(t)) => t,
    };
    g.sample(|| format!("{} node {} on suffix {:?} encodes to {}", tname, hex::encode(node), suffix, text));

    // the text is the Bech32m encoding of the node id (independent reading)
    match independent_decode(&text) {
        Some((hrp, payload, is_m)) => {
            ensure!(is_m && payload == node, "AddressBech32Encoder::encode does not produce the Bech32m text of the address", "node {} encoded to {:?}: bech32m={} payload {}", hex::encode(node), text, is_m, hex::encode(&payload));
            let _ = hrp;
        }
        None => return Outcome::fail("AddressBech32Encoder::encode does not produce the Bech32m text of the address", format!("node {} encoded to {:?}, not valid bech32", hex::encode(node), text)),
    }

    // same network: decodes back
    let back = {
        let t = text.clone();
        catch(|| dec.validate_and_decode(&t))
    };
    match back {
        Err(p) => return Outcome::fail("AddressBech32Decoder::validate_and_decode panics", format!("input {:?}: {}", text, p)),
        Ok(Err(e)) => return Outcome::fail("decode_N(encode_N(a)) fails", format!("node {} -> {:?} -> {:?}", hex::encode(node), text, e)),
        Ok(Ok((et, bytes))) => {
            ensure!(bytes == node && et as u8 == byte, "decode_N(encode_N(a)) != a", "node {} -> {:?} -> entity {:?} bytes {}", hex::encode(node), text, et, hex::encode(&bytes));
        }
    }

    // typed wrappers on the same network: Some exactly for the wrappers of the entity's class
    let typed = match typed_decodes(&dec, &text) {
        Ok(t) => t,
        Err(p) => return Outcome::fail("try_from_bech32 panics", format!("input {:?}: {}", text, p)),
    };
    for (w, got) in typed.iter().enumerate() {
        let want = wrapper_accepts(w, class);
        if !want {
            g.count("cross-type decodes attempted", 1);
        }
        match (want, got) {
            (true, None) => return Outcome::fail(format!("{}::try_from_bech32 rejects an address of its own entity class", WRAPPERS[w]), format!("{} address {:?}", tname, text)),
            (false, Some(_)) => return Outcome::fail(format!("{}::try_from_bech32 accepts an address of another entity class", WRAPPERS[w]), format!("{} address {:?}", tname, text)),
            (true, Some(b)) => {
                ensure!(b[..] == node[..], format!("{}::try_from_bech32 returns another address", WRAPPERS[w]), "{:?} -> {}", text, hex::encode(b));
                match typed_display(w, &node, &enc) {
                    Err(p) => return Outcome::fail(format!("{} display panics", WRAPPERS[w]), format!("node {}: {}", hex::encode(node), p)),
                    Ok(s) => ensure!(s == text, format!("{} display differs from the encoder's text", WRAPPERS[w]), "node {}: {:?} vs {:?}", hex::encode(node), s, text),
                }
            }
            (false, None) => {}
        }
    }
    g.nontrivial(); // cross-type decodes were attempted above

    // another network
    let (other, how) = gen_other_suffix(g, &suffix);
    g.label(how);
    let net_m = network(&other, if g.bool() { 1 } else { 2 });
    let dec_m = AddressBech32Decoder::new(&net_m);
    let cross = {
        let t = text.clone();
        catch(|| dec_m.validate_and_decode(&t).ok())
    };
    match cross {
        Err(p) => return Outcome::fail("AddressBech32Decoder::validate_and_decode panics", format!("input {:?}: {}", text, p)),
        Ok(Some(_)) => return Outcome::fail("address of network N is accepted by the decoder of network M", format!("{:?} (suffix {:?}) accepted on suffix {:?}", text, suffix, other)),
        Ok(None) => {}
    }
    match typed_decodes(&dec_m, &text) {
        Err(p) => return Outcome::fail("try_from_bech32 panics", format!("input {:?}: {}", text, p)),
        Ok(t) => {
            for (w, got) in t.iter().enumerate() {
                ensure!(got.is_none(), format!("{}::try_from_bech32 accepts an address of another network", WRAPPERS[w]), "{:?} (suffix {:?}) accepted on suffix {:?}", text, suffix, other);
            }
        }
    }
    // and the other direction: M's text on N
    let enc_m = AddressBech32Encoder::new(&net_m);
    if let Ok(Ok(text_m)) = catch(|| enc_m.encode(&node)) {
        let r = {
            let t = text_m.clone();
            catch(|| dec.validate_and_decode(&t).ok())
        };
        match r {
            Err(p) => return Outcome::fail("AddressBech32Decoder::validate_and_decode panics", format!("input {:?}: {}", text_m, p)),
            Ok(Some(_)) => return Outcome::fail("address of network N is accepted by the decoder of network M", format!("{:?} (suffix {:?}) accepted on suffix {:?}", text_m, other, suffix)),
            Ok(None) => {}
        }
    }

    // the same payload under the hrp of another entity class, with a correct Bech32m checksum
    let (byte2, _, tname2) = *g.pick(&ENTITY_BYTES);
    let mut node2 = node;
    node2[0] = byte2;
    if let (Ok(Ok(t2)), Some((hrp1, _, _))) = (catch(|| enc.encode(&node2)), independent_decode(&text)) {
        if let Some((hrp2, _, _)) = independent_decode(&t2) {
            if hrp2 != hrp1 {
                g.label("payload under another entity's hrp");
                if let Some(forged) = independent_encode(&hrp2, &node, true) {
                    let r = {
                        let f = forged.clone();
                        catch(|| dec.validate_and_decode(&f).ok())
                    };
                    match r {
                        Err(p) => return Outcome::fail("AddressBech32Decoder::validate_and_decode panics", format!("input {:?}: {}", forged, p)),
                        Ok(Some(_)) => {
                            return Outcome::fail(
                                "address text with the hrp of another entity type is accepted",
                                format!("{} node {} under the hrp of {} ({:?}) accepted", tname, hex::encode(node), tname2, forged),
                            )
                        }
                        Ok(None) => {}
                    }
                }
            }
        }
    }
    Outcome::Pass
}

// -------------------------------------------------------------------------------------------
// part address_strings: accepted text must be the Bech32m text of the returned address
// -------------------------------------------------------------------------------------------

const ODD: &[&str] = &["1", "q", "b", "i", "o", "A", "Q", "_", "-", " ", "\0", "é", "١", "😀", ":", "0"];

fn mutate_text(g: &mut Gen, s: &str, alphabet: &[&str]) -> (String, &'static str) {
    let chars: Vec<char> = s.chars().collect();
    match g.weighted(&[4, 3, 3]) {
        0 if !chars.is_empty() => {
            let pos = g.index(chars.len());
            let rep = *g.pick(alphabet);
            let mut out: String = chars[..pos].iter().collect();
            out.push_str(rep);
            out.extend(chars[pos + 1..].iter());
            (out, "replace one character")
        }
        1 if !chars.is_empty() => {
            let pos = g.index(chars.len());
            let mut out: String = chars[..pos].iter().collect();
            out.extend(chars[pos + 1..].iter());
            (out, "delete one character")
        }
        _ => {
            let pos = g.index(chars.len() + 1);
            let ins = *g.pick(alphabet);
            let mut out: String = chars[..pos].iter().collect();
            out.push_str(ins);
            out.extend(chars[pos..].iter());
            (out, "insert one character")
        }
    }
}

fn address_strings(g: &mut Gen) -> Outcome {
    let suffix = gen_suffix(g);
    let net_n = network(&suffix, 1);
    let enc = AddressBech32Encoder::new(&net_n);
    let dec = AddressBech32Decoder::new(&net_n);
    let (byte, _, tname) = *g.pick(&ENTITY_BYTES);
    let node = gen_node(g, byte);
    let Ok(Ok(text)) = catch(|| enc.encode(&node)) else { return Outcome::Discard };
    let Some((hrp, _, _)) = independent_decode(&text) else { return Outcome::Discard };
    let (s, how): (String, &'static str) = match g.weighted(&[2, 4, 2, 2, 2, 2, 1, 2]) {
        0 => (text.clone(), "valid text"),
        1 => {
            // substitute one data / checksum character by another bech32 character
            let sep = text.rfind('1').unwrap();
            let mut b = text.clone().into_bytes();
            let i = sep + 1 + g.index(b.len() - sep - 1);
            let c = *g.pick(BECH32_CHARS);
            b[i] = if c == b[i] { if c == b'q' { b'p' } else { b'q' } } else { c };
            (String::from_utf8(b).unwrap(), "one data character substituted")
        }
        2 => (independent_encode(&hrp, &node, false).unwrap_or_default(), "Bech32 (non-m) checksum"),
        3 => (text.to_uppercase(), "all upper case"),
        4 => {
            let mut b = text.clone().into_bytes();
            let i = g.index(b.len());
            b[i] = b[i].to_ascii_uppercase();
            (String::from_utf8(b).unwrap(), "one letter upper-cased")
        }
        5 => {
            let (m, how) = mutate_text(g, &text, ODD);
            (m, how)
        }
        6 => {
            // a payload of another length with a valid checksum
            let n = g.len(40);
            let mut p = vec![byte];
            p.extend(g.bytes(n));
            (independent_encode(&hrp, &p, true).unwrap_or_default(), "valid checksum, other payload length")
        }
        _ => (String::from_utf8_lossy(&g.blob(40)).into_owned(), "raw bytes"),
    };
    g.label(how);
    g.label(tname);
    if how != "valid text" {
        g.nontrivial();
    }
    if !s.is_ascii() {
        g.label("non-ASCII");
    }
    g.sample(|| format!("decode {:?} on suffix {:?} ({})", s, suffix, how));
    let r = {
        let t = s.clone();
        catch(|| dec.validate_and_decode(&t).ok())
    };
    let accepted = match r {
        Err(p) => return Outcome::fail("AddressBech32Decoder::validate_and_decode panics", format!("input {:?}: {}", s, p)),
        Ok(a) => a,
    };
    match typed_decodes(&dec, &s) {
        Err(p) => return Outcome::fail("try_from_bech32 panics", format!("input {:?}: {}", s, p)),
        Ok(t) => {
            if accepted.is_none() {
                for (w, got) in t.iter().enumerate() {
                    ensure!(got.is_none(), format!("{}::try_from_bech32 accepts text the decoder rejects", WRAPPERS[w]), "input {:?}", s);
                }
            }
        }
    }
    if let Some((et, payload)) = accepted {
        g.label("accepted");
        // lossless: the accepted text is (up to whole-string case) the Bech32m text of the payload
        // under the network's hrp for the returned entity type
        let canon = catch(|| enc.encode(&payload));
        let ok = match &canon {
            Ok(Ok(c)) => *c == s || c.to_uppercase() == s,
            _ => false,
        };
        ensure!(
            ok,
            "decoder accepts text that is not the Bech32m text of the returned address",
            "input {:?} ({}) decoded to entity {:?} payload {}, whose text on this network is {:?}",
            s,
            how,
            et,
            hex::encode(&payload),
            canon
        );
        let indep = independent_decode(&s);
        ensure!(
            matches!(&indep, Some((_, p, true)) if *p == payload),
            "decoder accepts text that is not the Bech32m text of the returned address",
            "input {:?} ({}) decoded to payload {}, independent reading: {:?}",
            s,
            how,
            hex::encode(&payload),
            indep
        );
    } else if how == "valid text" || how == "all upper case" {
        // upper case is outside the statement: only the canonical text must decode
        ensure!(how != "valid text", "decode_N(encode_N(a)) fails", "node {} -> {:?} rejected", hex::encode(node), s);
    }
    Outcome::Pass
}

// -------------------------------------------------------------------------------------------
// ids: independent model, printer and recogniser of the four text forms
// -------------------------------------------------------------------------------------------

#[derive(Clone, Debug, PartialEq, Eq)]
enum IdModel {
    Str(String),
    Int(u64),
    Bytes(Vec<u8>),
    Ruid([u8; 32]),
}

fn lower_hex(b: &[u8]) -> String {
    let mut s = String::with_capacity(b.len() * 2);
    for x in b {
        s.push(char::from_digit((x >> 4) as u32, 16).unwrap());
        s.push(char::from_digit((x & 15) as u32, 16).unwrap());
    }
    s
}

fn ref_print(m: &IdModel) -> String {
    match m {
        IdModel::Str(s) => format!("<{}>", s),
        IdModel::Int(v) => format!("#{}#", v),
        IdModel::Bytes(b) => format!("[{}]", lower_hex(b)),
        IdModel::Ruid(b) => {
            let h = lower_hex(b);
            format!("{{{}-{}-{}-{}}}", &h[0..16], &h[16..32], &h[32..48], &h[48..64])
        }
    }
}

fn unhex(s: &str) -> Option<Vec<u8>> {
    let b = s.as_bytes();
    if b.len() % 2 != 0 {
        return None;
    }
    let val = |c: u8| match c {
        b'0'..=b'9' => Some(c - b'0'),
        b'a'..=b'f' => Some(c - b'a' + 10),
        b'A'..=b'F' => Some(c - b'A' + 10),
        _ => None,
    };
    b.chunks(2).map(|p| Some(val(p[0])? * 16 + val(p[1])?)).collect()
}

/// The documented text forms: `<[A-Za-z0-9_]{1,64}>`, `#0|[1-9][0-9]*#` (<= u64::MAX),
/// `[hex of 1..=64 bytes]`, `{16hex-16hex-16hex-16hex}`. Hex digits of either case denote the same
/// id (only integers are required to be canonical by the property).
fn ref_parse(s: &str) -> Option<IdModel> {
    let b = s.as_bytes();
    if b.len() < 2 {
        return None;
    }
    let inner = &b[1..b.len() - 1];
    match (b[0], b[b.len() - 1]) {
        (b'<', b'>') => {
            let ok = !inner.is_empty() && inner.len() <= 64 && inner.iter().all(|c| c.is_ascii_alphanumeric() || *c == b'_');
            ok.then(|| IdModel::Str(String::from_utf8(inner.to_vec()).unwrap()))
        }
        (b'#', b'#') => {
            if inner.is_empty() || !inner.iter().all(|c| c.is_ascii_digit()) || (inner[0] == b'0' && inner.len() > 1) {
                return None;
            }
            let v = BigInt::parse_bytes(inner, 10)?;
            u64::try_from(v).ok().map(IdModel::Int)
        }
        (b'[', b']') => {
            let bytes = unhex(std::str::from_utf8(inner).ok()?)?;
            (!bytes.is_empty() && bytes.len() <= 64).then_some(IdModel::Bytes(bytes))
        }
        (b'{', b'}') => {
            if inner.len() != 67 || inner[16] != b'-' || inner[33] != b'-' || inner[50] != b'-' {
                return None;
            }
            let mut h = String::new();
            for (i, c) in inner.iter().enumerate() {
                if i != 16 && i != 33 && i != 50 {
                    h.push(*c as char);
                }
            }
            if !h.is_ascii() {
                return None;
            }
            let bytes = unhex(&h)?;
            Some(IdModel::Ruid(bytes.try_into().ok()?))
        }
        _ => None,
    }
}

fn to_real(m: &IdModel) -> NonFungibleLocalId {
    match m {
        IdModel::Str(s) => NonFungibleLocalId::string(s.as_str()).expect("model string ids are valid"),
        IdModel::Int(v) => NonFungibleLocalId::integer(*v),
        IdModel::Bytes(b) => NonFungibleLocalId::bytes(b.clone()).expect("model bytes ids are valid"),
        IdModel::Ruid(b) => NonFungibleLocalId::ruid(*b),
    }
}

const ID_CHARS: &[u8] = b"abcdefghijklmnopqrstuvwxyzABCDEFGHIJKLMNOPQRSTUVWXYZ0123456789_";

fn gen_id(g: &mut Gen) -> IdModel {
    match g.below(4) {
        0 => {
            let n = g.len_around(64, &[1, 2, 63, 64]).max(1);
            IdModel::Str((0..n).map(|_| *g.pick(ID_CHARS) as char).collect())
        }
        1 => IdModel::Int(match g.weighted(&[2, 2, 3, 2]) {
            0 => *g.pick(&[0u64, 1, 7, 10, 100, u64::MAX, u64::MAX - 1, 1 << 63, 9_999_999_999_999_999_999, 10_000_000_000_000_000_000]),
            1 => g.below(1000),
            2 => g.u64(),
            _ => g.u64() >> g.below(64),
        }),
        2 => {
            let n = g.len_around(64, &[1, 2, 32, 63, 64]).max(1);
            IdModel::Bytes(g.bytes(n))
        }
        _ => IdModel::Ruid(g.array::<32>()),
    }
}

fn kind_name(m: &IdModel) -> &'static str {
    match m {
        IdModel::Str(_) => "string id",
        IdModel::Int(_) => "integer id",
        IdModel::Bytes(_) => "bytes id",
        IdModel::Ruid(_) => "ruid id",
    }
}

fn gen_resource(g: &mut Gen) -> [u8; 30] {
    let byte = if g.bool() { 0b0101_1101 } else { 0b1001_1010 };
    gen_node(g, byte)
}

fn ids(g: &mut Gen) -> Outcome {
    let m = gen_id(g);
    g.label(kind_name(&m));
    let id = to_real(&m);
    let expected_text = ref_print(&m);
    g.sample(|| format!("local id {}", expected_text));
    let len_edge = match &m {
        IdModel::Str(s) => s.len() == 1 || s.len() == 64,
        IdModel::Bytes(b) => b.len() == 1 || b.len() == 64,
        IdModel::Int(v) => *v == 0 || *v == u64::MAX,
        IdModel::Ruid(_) => false,
    };
    if len_edge {
        g.label("length / value edge");
        g.nontrivial();
    }
    // text
    let text = match catch(|| id.to_string()) {
        Ok(t) => t,
        Err(p) => return Outcome::fail("NonFungibleLocalId::to_string panics", format!("{:?}: {}", m, p)),
    };
    ensure!(text == expected_text, "NonFungibleLocalId prints a non-canonical text", "{:?} printed {:?}, documented form {:?}", m, text, expected_text);
    match catch(|| NonFungibleLocalId::from_str(&text)) {
        Err(p) => return Outcome::fail("NonFungibleLocalId::from_str panics", format!("input {:?}: {}", text, p)),
        Ok(r) => ensure!(r.as_ref().ok() == Some(&id), "NonFungibleLocalId: parse(print(id)) != id", "{:?} -> {:?}", text, r),
    }
    // binary forms
    let r = catch(|| {
        let sb = scrypto_encode(&id).map_err(|e| format!("{:?}", e))?;
        let back: NonFungibleLocalId = scrypto_decode(&sb).map_err(|e| format!("scrypto decode {:?}", e))?;
        let mb = manifest_encode(&id).map_err(|e| format!("{:?}", e))?;
        let back2: NonFungibleLocalId = manifest_decode(&mb).map_err(|e| format!("manifest decode {:?}", e))?;
        Ok::<_, String>((back, back2))
    });
    match r {
        Err(p) => return Outcome::fail("NonFungibleLocalId SBOR codec panics", format!("{}: {}", text, p)),
        Ok(Err(e)) => return Outcome::fail("NonFungibleLocalId does not round-trip through SBOR", format!("{}: {}", text, e)),
        Ok(Ok((a, b))) => ensure!(a == id && b == id, "NonFungibleLocalId does not round-trip through SBOR", "{} -> {:?} / {:?}", text, a, b),
    }

    // global id
    let suffix = gen_suffix(g);
    let net_n = network(&suffix, 1);
    let (enc, dec) = (AddressBech32Encoder::new(&net_n), AddressBech32Decoder::new(&net_n));
    let res = gen_resource(g);
    let resource = ResourceAddress::new_or_panic(res);
    let gid = NonFungibleGlobalId::new(resource, id.clone());
    let canon = match catch(|| gid.to_canonical_string(&enc)) {
        Ok(c) => c,
        Err(p) => return Outcome::fail("NonFungibleGlobalId::to_canonical_string panics", format!("{} {}: {}", hex::encode(res), text, p)),
    };
    let res_text = match catch(|| enc.encode(&res)) {
        Ok(Ok(t)) => t,
        other => return Outcome::fail("AddressBech32Encoder::encode fails for a valid entity address", format!("{}: {:?}", hex::encode(res), other)),
    };
    ensure!(canon == format!("{}:{}", res_text, expected_text), "NonFungibleGlobalId canonical string is not address:local_id", "{:?} vs {}:{}", canon, res_text, expected_text);
    match catch(|| NonFungibleGlobalId::try_from_canonical_string(&dec, &canon)) {
        Err(p) => return Outcome::fail("NonFungibleGlobalId::try_from_canonical_string panics", format!("input {:?}: {}", canon, p)),
        Ok(r) => ensure!(r.as_ref().ok() == Some(&gid), "NonFungibleGlobalId: parse(print(id)) != id", "{:?} -> {:?}", canon, r),
    }
    let (other, how) = gen_other_suffix(g, &suffix);
    g.label(how);
    g.nontrivial(); // cross-network decode attempted
    let dec_m = AddressBech32Decoder::new(&network(&other, 2));
    match catch(|| NonFungibleGlobalId::try_from_canonical_string(&dec_m, &canon).ok()) {
        Err(p) => return Outcome::fail("NonFungibleGlobalId::try_from_canonical_string panics", format!("input {:?}: {}", canon, p)),
        Ok(r) => ensure!(r.is_none(), "global id of network N is accepted by the decoder of network M", "{:?} (suffix {:?}) accepted on suffix {:?}", canon, suffix, other),
    }
    let r = catch(|| {
        let sb = scrypto_encode(&gid).map_err(|e| format!("{:?}", e))?;
        let back: NonFungibleGlobalId = scrypto_decode(&sb).map_err(|e| format!("scrypto decode {:?}", e))?;
        let mb = manifest_encode(&gid).map_err(|e| format!("{:?}", e))?;
        let back2: NonFungibleGlobalId = manifest_decode(&mb).map_err(|e| format!("manifest decode {:?}", e))?;
        Ok::<_, String>((back, back2))
    });
    match r {
        Err(p) => Outcome::fail("NonFungibleGlobalId SBOR codec panics", format!("{}: {}", canon, p)),
        Ok(Err(e)) => Outcome::fail("NonFungibleGlobalId does not round-trip through SBOR", format!("{}: {}", canon, e)),
        Ok(Ok((a, b))) => {
            ensure!(a == gid && b == gid, "NonFungibleGlobalId does not round-trip through SBOR", "{} -> {:?} / {:?}", canon, a, b);
            Outcome::Pass
        }
    }
}

// -------------------------------------------------------------------------------------------
// part id_strings
// -------------------------------------------------------------------------------------------

const ID_ODD: &[&str] = &["0", "1", "9", "a", "f", "g", "A", "F", "G", "_", "-", "+", " ", "#", "<", ">", "[", "]", "{", "}", ":", "\0", "é", "١", "😀", "x", "00"];
const NEAR_MISSES: &[&str] = &[
    "#007#", "#+1#", "#-1#", "#18446744073709551615#", "#18446744073709551616#", "#00#", "#0#", "##", "#", "# 1#", "#1 #", "#1_000#", "#0x10#", "#١#",
    "<>", "<", ">", "<a b>", "<a-b>", "<é>", "<a>>", "<<a>", "[]", "[0g]", "[0]", "[000]", "[AB]", "[aB]", "[ab", "ab]", "{}", "", "1", "abc", "#1#\n", " #1#",
    "{1111111111111111-2222222222222222-3333333333333333-4444444444444444}",
    "{11111111111111112222222222222222-3333333333333333-4444444444444444-}",
    "{111111111111111-12222222222222222-3333333333333333-4444444444444444}",
    "{1111111111111111-2222222222222222-3333333333333333-444444444444444}",
    "{1111111111111111-2222222222222222-3333333333333333-44444444444444-4}",
    "{1111111111111111-2222222222222222-3333333333333333-444444444444444g}",
    "{1111111111111111-2222222222222222-3333333333333333-444444444444444é}",
    "{AAAAAAAAAAAAAAAA-2222222222222222-3333333333333333-4444444444444444}",
];

fn gen_id_string(g: &mut Gen) -> (String, &'static str) {
    match g.weighted(&[2, 8, 3, 1, 1, 2, 2]) {
        0 => (ref_print(&gen_id(g)), "valid text"),
        5 => {
            // several edits in a row (single edits cannot reach texts that need two coordinated changes)
            let mut s = ref_print(&gen_id(g));
            let n = 2 + g.below(3);
            for _ in 0..n {
                s = mutate_text(g, &s, ID_ODD).0;
            }
            (s, "several edits")
        }
        6 => {
            // length-preserving substitutions inside a valid text: k characters of the body replaced by
            // separators / odd characters, so structural checks (positions, lengths) still pass
            let base = ref_print(&gen_id(g));
            let mut chars: Vec<char> = base.chars().collect();
            if chars.len() > 2 {
                let k = 1 + g.below(4) as usize;
                for _ in 0..k {
                    let pos = 1 + g.index(chars.len() - 2);
                    chars[pos] = *g.pick(&['-', '-', '-', '_', ':', '#', 'g', 'G', ' ', '0', 'f', 'é', '{', '}', '<', '[']);
                }
            }
            (chars.into_iter().collect(), "in-place substitutions")
        }
        1 => {
            let base = ref_print(&gen_id(g));
            let (s, how) = mutate_text(g, &base, ID_ODD);
            (s, how)
        }
        2 => ((*g.pick(NEAR_MISSES)).to_string(), "listed near-miss"),
        3 => {
            // over-long content
            let n = 65 + g.below(3) as usize;
            if g.bool() {
                (format!("<{}>", "a".repeat(n)), "over-long content")
            } else {
                (format!("[{}]", "ab".repeat(n)), "over-long content")
            }
        }
        _ => (String::from_utf8_lossy(&g.blob(24)).into_owned(), "raw bytes"),
    }
}

fn id_strings(g: &mut Gen) -> Outcome {
    let global = g.chance(1, 4);
    let (local_s, how) = gen_id_string(g);
    g.label(how);
    if how != "valid text" {
        g.nontrivial();
    }
    if !local_s.is_ascii() {
        g.label("non-ASCII");
    }
    let expect = ref_parse(&local_s);
    g.label(if expect.is_some() { "denotes a valid id" } else { "not a valid id" });
    if !global {
        g.label("local id string");
        g.sample(|| format!("NonFungibleLocalId::from_str({:?}) expected {:?}", local_s, expect));
        let got = {
            let s = local_s.clone();
            match catch(|| NonFungibleLocalId::from_str(&s).ok()) {
                Ok(r) => r,
                Err(p) => return Outcome::fail("NonFungibleLocalId::from_str panics", format!("input {:?}: {}", local_s, p)),
            }
        };
        return match (&expect, &got) {
            (None, None) => Outcome::Pass,
            (Some(m), Some(id)) => {
                ensure!(*id == to_real(m), "NonFungibleLocalId::from_str yields another id", "input {:?} denotes {:?}, parsed {:?}", local_s, m, id);
                Outcome::Pass
            }
            (None, Some(id)) => {
                let class = if local_s.starts_with('#') { "integer form" } else { "other form" };
                Outcome::fail(format!("NonFungibleLocalId::from_str accepts text that does not denote a valid id ({})", class), format!("input {:?} parsed to {:?}", local_s, id))
            }
            (Some(m), None) => Outcome::fail("NonFungibleLocalId::from_str rejects a valid id text", format!("input {:?} denotes {:?}", local_s, m)),
        };
    }
    // global id string: <resource address>:<local id>, with the address part intact, damaged
    // (one data character substituted: always detected by the checksum) or the colon count changed
    g.label("global id string");
    let suffix = gen_suffix(g);
    let net_n = network(&suffix, 1);
    let (enc, dec) = (AddressBech32Encoder::new(&net_n), AddressBech32Decoder::new(&net_n));
    let res = gen_resource(g);
    let Ok(Ok(res_text)) = catch(|| enc.encode(&res)) else { return Outcome::Discard };
    // `valid_left`: the only text that is a valid resource address of this network in this case
    let (s, valid_left): (String, Option<String>) = match g.weighted(&[6, 2, 1, 1, 1]) {
        0 => (format!("{}:{}", res_text, local_s), Some(res_text.clone())),
        1 => {
            let sep = res_text.rfind('1').unwrap();
            let mut b = res_text.clone().into_bytes();
            let i = sep + 1 + g.index(b.len() - sep - 1);
            let c = *g.pick(BECH32_CHARS);
            b[i] = if c == b[i] { if c == b'q' { b'p' } else { b'q' } } else { c };
            g.label("address part damaged");
            (format!("{}:{}", String::from_utf8(b).unwrap(), local_s), None)
        }
        2 => (format!("{}{}", res_text, local_s), Some(res_text.clone())),
        3 => (format!("{}::{}", res_text, local_s), Some(res_text.clone())),
        _ => {
            // an address of another entity class in the resource position
            let (byte, class, _) = *g.pick(&ENTITY_BYTES);
            let node = gen_node(g, byte);
            let Ok(Ok(t)) = catch(|| enc.encode(&node)) else { return Outcome::Discard };
            g.count("cross-type decodes attempted", 1);
            g.label("address of a random entity class in the resource position");
            (format!("{}:{}", t, local_s), if class == Class::Resource { Some(t) } else { None })
        }
    };
    // exactly two colon-separated parts: an intact resource address and a valid local id
    let parts: Vec<&str> = s.split(':').collect();
    let expect = if parts.len() == 2 && Some(parts[0]) == valid_left.as_deref() { ref_parse(parts[1]) } else { None };
    if parts.len() != 2 {
        g.label("colon count other than one");
    }
    let expect_ok = expect.is_some();
    g.sample(|| format!("NonFungibleGlobalId::try_from_canonical_string({:?}) expected ok={}", s, expect_ok));
    let got = {
        let t = s.clone();
        match catch(|| NonFungibleGlobalId::try_from_canonical_string(&dec, &t).ok()) {
            Ok(r) => r,
            Err(p) => return Outcome::fail("NonFungibleGlobalId::try_from_canonical_string panics", format!("input {:?}: {}", s, p)),
        }
    };
    match (expect_ok, got) {
        (false, None) => Outcome::Pass,
        (true, Some(gid)) => {
            let m = expect.unwrap();
            ensure!(*gid.local_id() == to_real(&m), "NonFungibleGlobalId::try_from_canonical_string yields another id", "input {:?} parsed {:?}", s, gid);
            Outcome::Pass
        }
        (false, Some(gid)) => Outcome::fail("NonFungibleGlobalId::try_from_canonical_string accepts text that does not denote a valid id", format!("input {:?} parsed to {:?}", s, gid)),
        (true, None) => Outcome::fail("NonFungibleGlobalId::try_from_canonical_string rejects a valid id text", format!("input {:?}", s)),
    }
}

pub fn check() -> vf_core::Check {
    vf_core::Check::new(
        "C28",
        "Addresses and identifiers have lossless, network-bound text forms",
        "part addresses: every documented entity-type byte x 29 bytes (zero / random / 0xff) on a network with a random or well-known hrp suffix ([a-z0-9_]{1,12}); encode, independent Bech32m reading, decode on the same network (raw and through all five typed wrappers: accepted exactly by the wrappers of the entity's class, display equals the encoder's text), decode on a second network whose suffix is unrelated / an extension / a prefix / one character off (both directions, raw and typed: must be rejected), and the same payload under another entity class's hrp with a valid checksum (must be rejected). part address_strings: valid text, one data character substituted, Bech32 (non-m) checksum, upper case, one letter upper-cased, one edit with odd characters (non-ASCII, NUL, '1'), other payload lengths, raw bytes; never a panic, and whatever is accepted must be the Bech32m text (up to whole-string case) of the returned payload. part ids: the four local-id kinds (lengths 1..=64, value edges) print exactly the documented form, parse back, round-trip through Scrypto and manifest SBOR; global ids likewise and are rejected on another network. part id_strings: valid forms with one edit, 44 listed near-misses (#007#, #+1#, 2^64, <>, [0g], misplaced hyphens, non-ASCII ...), over-long contents, raw bytes, alone or as the local part of a global id whose address part is intact / damaged / of another entity class / with a wrong colon count; an independent recogniser decides accept <=> valid and the value. Non-trivial = a cross-network or cross-type decode was attempted, or the string is not a plain valid text.",
    )
    .assume("'another network' means a NetworkDefinition with a different hrp suffix (the text form carries nothing else of the network); suffixes are drawn from [a-z0-9_]")
    .assume("hex digits of either case denote the same bytes / RUID id; only integer ids are required to be canonical")
    .part(Part::new("addresses", 1_500_000, 50_000_000, 128, addresses))
    .part(Part::new("address_strings", 3_000_000, 100_000_000, 128, address_strings))
    .part(Part::new("ids", 2_000_000, 50_000_000, 192, ids))
    .part(Part::new("id_strings", 8_000_000, 250_000_000, 160, id_strings))
    .min_nontrivial_pct(30.0)
}
