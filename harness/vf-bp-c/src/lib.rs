//! vf-bp-c: blueprint-level checks on the engine world (R6): the non-fungible resource manager
//! (C43) and the consensus manager's clock (C44).

pub mod c43;
pub mod c43e;
pub mod c44;

pub fn checks() -> Vec<vf_core::Check> {
    vec![c43::check(), c44::check()]
}
