//! Glue between wire trees (`wire::Node`) and the repository's `Value` types, and per-flavour
//! dispatch of encode / decode / traverse. Kind tables are written out by name (never through
//! `ValueKind::from_u8` / `as_u8`), so that a drift in the repository's kind tables shows up as a
//! disagreement instead of being copied.

use crate::wire::*;
use radix_common::data::manifest::model::*;
use radix_common::data::manifest::*;
use radix_common::data::scrypto::model::*;
use radix_common::data::scrypto::*;
use radix_common::math::{Decimal, PreciseDecimal, I192, I256};
use radix_common::types::NodeId;
use sbor::traversal::*;
use sbor::*;

pub trait Flav {
    type X: CustomValueKind;
    type Y: CustomValue<Self::X> + Clone + PartialEq + std::fmt::Debug;
    const FL: Flavour;
    fn custom_kind(k: u8) -> Option<Self::X>;
    fn custom_kind_u8(x: Self::X) -> u8;
    fn custom_to(kind: u8, body: &[u8]) -> Option<Self::Y>;
    fn custom_from(y: &Self::Y) -> (u8, Vec<u8>);
}

pub struct BasicF;
pub struct ScryptoF;
pub struct ManifestF;

impl Flav for BasicF {
    type X = NoCustomValueKind;
    type Y = NoCustomValue;
    const FL: Flavour = Flavour::Basic;
    fn custom_kind(_: u8) -> Option<Self::X> {
        None
    }
    fn custom_kind_u8(x: Self::X) -> u8 {
        match x {}
    }
    fn custom_to(_: u8, _: &[u8]) -> Option<Self::Y> {
        None
    }
    fn custom_from(y: &Self::Y) -> (u8, Vec<u8>) {
        match *y {}
    }
}

fn nf_from_body(body: &[u8]) -> Option<NonFungibleLocalId> {
    match *body.first()? {
        0 => {
            let n = *body.get(1)? as usize;
            let s = body.get(2..2 + n)?;
            NonFungibleLocalId::string(std::str::from_utf8(s).ok()?).ok()
        }
        1 => Some(NonFungibleLocalId::integer(u64::from_be_bytes(body.get(1..9)?.try_into().ok()?))),
        2 => {
            let n = *body.get(1)? as usize;
            NonFungibleLocalId::bytes(body.get(2..2 + n)?.to_vec()).ok()
        }
        3 => Some(NonFungibleLocalId::ruid(body.get(1..33)?.try_into().ok()?)),
        _ => None,
    }
}

fn nf_to_body(id: &NonFungibleLocalId) -> Vec<u8> {
    match id {
        NonFungibleLocalId::String(s) => nf_string_body(s.value().as_bytes()),
        NonFungibleLocalId::Integer(i) => nf_integer_body(i.value()),
        NonFungibleLocalId::Bytes(b) => nf_bytes_body(b.value()),
        NonFungibleLocalId::RUID(r) => nf_ruid_body(r.value()),
    }
}

impl Flav for ScryptoF {
    type X = ScryptoCustomValueKind;
    type Y = ScryptoCustomValue;
    const FL: Flavour = Flavour::Scrypto;
    fn custom_kind(k: u8) -> Option<Self::X> {
        Some(match k {
            SK_REFERENCE => ScryptoCustomValueKind::Reference,
            SK_OWN => ScryptoCustomValueKind::Own,
            SK_DECIMAL => ScryptoCustomValueKind::Decimal,
            SK_PRECISE_DECIMAL => ScryptoCustomValueKind::PreciseDecimal,
            SK_NF_LOCAL_ID => ScryptoCustomValueKind::NonFungibleLocalId,
            _ => return None,
        })
    }
    fn custom_kind_u8(x: Self::X) -> u8 {
        match x {
            ScryptoCustomValueKind::Reference => SK_REFERENCE,
            ScryptoCustomValueKind::Own => SK_OWN,
            ScryptoCustomValueKind::Decimal => SK_DECIMAL,
            ScryptoCustomValueKind::PreciseDecimal => SK_PRECISE_DECIMAL,
            ScryptoCustomValueKind::NonFungibleLocalId => SK_NF_LOCAL_ID,
        }
    }
    fn custom_to(kind: u8, body: &[u8]) -> Option<Self::Y> {
        Some(match kind {
            SK_REFERENCE => ScryptoCustomValue::Reference(Reference(NodeId(body.try_into().ok()?))),
            SK_OWN => ScryptoCustomValue::Own(Own(NodeId(body.try_into().ok()?))),
            SK_DECIMAL => {
                if body.len() != 24 {
                    return None;
                }
                ScryptoCustomValue::Decimal(Decimal::from_attos(I192::from_le_bytes(body)))
            }
            SK_PRECISE_DECIMAL => {
                if body.len() != 32 {
                    return None;
                }
                ScryptoCustomValue::PreciseDecimal(PreciseDecimal::from_precise_subunits(I256::from_le_bytes(body)))
            }
            SK_NF_LOCAL_ID => ScryptoCustomValue::NonFungibleLocalId(nf_from_body(body)?),
            _ => return None,
        })
    }
    fn custom_from(y: &Self::Y) -> (u8, Vec<u8>) {
        match y {
            ScryptoCustomValue::Reference(r) => (SK_REFERENCE, r.0 .0.to_vec()),
            ScryptoCustomValue::Own(r) => (SK_OWN, r.0 .0.to_vec()),
            ScryptoCustomValue::Decimal(d) => (SK_DECIMAL, d.attos().to_le_bytes().to_vec()),
            ScryptoCustomValue::PreciseDecimal(d) => (SK_PRECISE_DECIMAL, d.precise_subunits().to_le_bytes().to_vec()),
            ScryptoCustomValue::NonFungibleLocalId(id) => (SK_NF_LOCAL_ID, nf_to_body(id)),
        }
    }
}

impl Flav for ManifestF {
    type X = ManifestCustomValueKind;
    type Y = ManifestCustomValue;
    const FL: Flavour = Flavour::Manifest;
    fn custom_kind(k: u8) -> Option<Self::X> {
        Some(match k {
            MK_ADDRESS => ManifestCustomValueKind::Address,
            MK_BUCKET => ManifestCustomValueKind::Bucket,
            MK_PROOF => ManifestCustomValueKind::Proof,
            MK_EXPRESSION => ManifestCustomValueKind::Expression,
            MK_BLOB => ManifestCustomValueKind::Blob,
            MK_DECIMAL => ManifestCustomValueKind::Decimal,
            MK_PRECISE_DECIMAL => ManifestCustomValueKind::PreciseDecimal,
            MK_NF_LOCAL_ID => ManifestCustomValueKind::NonFungibleLocalId,
            MK_ADDRESS_RESERVATION => ManifestCustomValueKind::AddressReservation,
            _ => return None,
        })
    }
    fn custom_kind_u8(x: Self::X) -> u8 {
        match x {
            ManifestCustomValueKind::Address => MK_ADDRESS,
            ManifestCustomValueKind::Bucket => MK_BUCKET,
            ManifestCustomValueKind::Proof => MK_PROOF,
            ManifestCustomValueKind::Expression => MK_EXPRESSION,
            ManifestCustomValueKind::Blob => MK_BLOB,
            ManifestCustomValueKind::Decimal => MK_DECIMAL,
            ManifestCustomValueKind::PreciseDecimal => MK_PRECISE_DECIMAL,
            ManifestCustomValueKind::NonFungibleLocalId => MK_NF_LOCAL_ID,
            ManifestCustomValueKind::AddressReservation => MK_ADDRESS_RESERVATION,
        }
    }
    fn custom_to(kind: u8, body: &[u8]) -> Option<Self::Y> {
        let u32le = |b: &[u8]| -> Option<u32> { Some(u32::from_le_bytes(b.try_into().ok()?)) };
        Some(match kind {
            MK_ADDRESS => match *body.first()? {
                0 => ManifestCustomValue::Address(ManifestAddress::Static(NodeId(body.get(1..)?.try_into().ok()?))),
                1 => ManifestCustomValue::Address(ManifestAddress::Named(ManifestNamedAddress(u32le(body.get(1..)?)?))),
                _ => return None,
            },
            MK_BUCKET => ManifestCustomValue::Bucket(ManifestBucket(u32le(body)?)),
            MK_PROOF => ManifestCustomValue::Proof(ManifestProof(u32le(body)?)),
            MK_ADDRESS_RESERVATION => ManifestCustomValue::AddressReservation(ManifestAddressReservation(u32le(body)?)),
            MK_EXPRESSION => match body {
                [0] => ManifestCustomValue::Expression(ManifestExpression::EntireWorktop),
                [1] => ManifestCustomValue::Expression(ManifestExpression::EntireAuthZone),
                _ => return None,
            },
            MK_BLOB => ManifestCustomValue::Blob(ManifestBlobRef(body.try_into().ok()?)),
            MK_DECIMAL => ManifestCustomValue::Decimal(ManifestDecimal(body.try_into().ok()?)),
            MK_PRECISE_DECIMAL => ManifestCustomValue::PreciseDecimal(ManifestPreciseDecimal(body.try_into().ok()?)),
            MK_NF_LOCAL_ID => ManifestCustomValue::NonFungibleLocalId(match *body.first()? {
                0 => {
                    let n = *body.get(1)? as usize;
                    ManifestNonFungibleLocalId::string(String::from_utf8(body.get(2..2 + n)?.to_vec()).ok()?).ok()?
                }
                1 => ManifestNonFungibleLocalId::integer(u64::from_be_bytes(body.get(1..9)?.try_into().ok()?)).ok()?,
                2 => {
                    let n = *body.get(1)? as usize;
                    ManifestNonFungibleLocalId::bytes(body.get(2..2 + n)?.to_vec()).ok()?
                }
                3 => ManifestNonFungibleLocalId::ruid(body.get(1..33)?.try_into().ok()?),
                _ => return None,
            }),
            _ => return None,
        })
    }
    fn custom_from(y: &Self::Y) -> (u8, Vec<u8>) {
        match y {
            ManifestCustomValue::Address(ManifestAddress::Static(id)) => {
                let mut b = vec![0u8];
                b.extend_from_slice(&id.0);
                (MK_ADDRESS, b)
            }
            ManifestCustomValue::Address(ManifestAddress::Named(n)) => {
                let mut b = vec![1u8];
                b.extend_from_slice(&n.0.to_le_bytes());
                (MK_ADDRESS, b)
            }
            ManifestCustomValue::Bucket(b) => (MK_BUCKET, b.0.to_le_bytes().to_vec()),
            ManifestCustomValue::Proof(b) => (MK_PROOF, b.0.to_le_bytes().to_vec()),
            ManifestCustomValue::AddressReservation(b) => (MK_ADDRESS_RESERVATION, b.0.to_le_bytes().to_vec()),
            ManifestCustomValue::Expression(ManifestExpression::EntireWorktop) => (MK_EXPRESSION, vec![0]),
            ManifestCustomValue::Expression(ManifestExpression::EntireAuthZone) => (MK_EXPRESSION, vec![1]),
            ManifestCustomValue::Blob(b) => (MK_BLOB, b.0.to_vec()),
            ManifestCustomValue::Decimal(d) => (MK_DECIMAL, d.0.to_vec()),
            ManifestCustomValue::PreciseDecimal(d) => (MK_PRECISE_DECIMAL, d.0.to_vec()),
            ManifestCustomValue::NonFungibleLocalId(id) => (
                MK_NF_LOCAL_ID,
                match id {
                    ManifestNonFungibleLocalId::String(s) => nf_string_body(s.as_bytes()),
                    ManifestNonFungibleLocalId::Integer(i) => nf_integer_body(*i),
                    ManifestNonFungibleLocalId::Bytes(b) => nf_bytes_body(b),
                    ManifestNonFungibleLocalId::RUID(r) => nf_ruid_body(r),
                },
            ),
        }
    }
}

pub fn value_kind<F: Flav>(k: u8) -> Option<ValueKind<F::X>> {
    Some(match k {
        K_BOOL => ValueKind::Bool,
        K_I8 => ValueKind::I8,
        K_I16 => ValueKind::I16,
        K_I32 => ValueKind::I32,
        K_I64 => ValueKind::I64,
        K_I128 => ValueKind::I128,
        K_U8 => ValueKind::U8,
        K_U16 => ValueKind::U16,
        K_U32 => ValueKind::U32,
        K_U64 => ValueKind::U64,
        K_U128 => ValueKind::U128,
        K_STRING => ValueKind::String,
        K_ARRAY => ValueKind::Array,
        K_TUPLE => ValueKind::Tuple,
        K_ENUM => ValueKind::Enum,
        K_MAP => ValueKind::Map,
        k => ValueKind::Custom(F::custom_kind(k)?),
    })
}

pub fn value_kind_u8<F: Flav>(k: ValueKind<F::X>) -> u8 {
    match k {
        ValueKind::Bool => K_BOOL,
        ValueKind::I8 => K_I8,
        ValueKind::I16 => K_I16,
        ValueKind::I32 => K_I32,
        ValueKind::I64 => K_I64,
        ValueKind::I128 => K_I128,
        ValueKind::U8 => K_U8,
        ValueKind::U16 => K_U16,
        ValueKind::U32 => K_U32,
        ValueKind::U64 => K_U64,
        ValueKind::U128 => K_U128,
        ValueKind::String => K_STRING,
        ValueKind::Array => K_ARRAY,
        ValueKind::Tuple => K_TUPLE,
        ValueKind::Enum => K_ENUM,
        ValueKind::Map => K_MAP,
        ValueKind::Custom(x) => F::custom_kind_u8(x),
    }
}

/// Wire tree -> repository `Value`. `None` if the tree uses a kind the flavour does not have or a
/// custom body the typed constructors refuse.
pub fn to_value<F: Flav>(n: &Node) -> Option<Value<F::X, F::Y>> {
    Some(match n {
        Node::Bool(v) => Value::Bool { value: *v },
        Node::I8(v) => Value::I8 { value: *v },
        Node::I16(v) => Value::I16 { value: *v },
        Node::I32(v) => Value::I32 { value: *v },
        Node::I64(v) => Value::I64 { value: *v },
        Node::I128(v) => Value::I128 { value: *v },
        Node::U8(v) => Value::U8 { value: *v },
        Node::U16(v) => Value::U16 { value: *v },
        Node::U32(v) => Value::U32 { value: *v },
        Node::U64(v) => Value::U64 { value: *v },
        Node::U128(v) => Value::U128 { value: *v },
        Node::Str(s) => Value::String { value: s.clone() },
        Node::Enum { disc, fields } => Value::Enum { discriminator: *disc, fields: fields.iter().map(to_value::<F>).collect::<Option<Vec<_>>>()? },
        Node::Tuple(fields) => Value::Tuple { fields: fields.iter().map(to_value::<F>).collect::<Option<Vec<_>>>()? },
        Node::Array { ek, elems } => Value::Array {
            element_value_kind: value_kind::<F>(*ek)?,
            elements: elems.iter().map(to_value::<F>).collect::<Option<Vec<_>>>()?,
        },
        Node::Bytes(b) => Value::Array { element_value_kind: ValueKind::U8, elements: b.iter().map(|x| Value::U8 { value: *x }).collect() },
        Node::Map { kk, vk, entries } => Value::Map {
            key_value_kind: value_kind::<F>(*kk)?,
            value_value_kind: value_kind::<F>(*vk)?,
            entries: entries.iter().map(|(k, v)| Some((to_value::<F>(k)?, to_value::<F>(v)?))).collect::<Option<Vec<_>>>()?,
        },
        Node::Custom { kind, body } => Value::Custom { value: F::custom_to(*kind, body)? },
    })
}

/// Repository `Value` -> wire tree (byte arrays in compact form).
pub fn from_value<F: Flav>(v: &Value<F::X, F::Y>) -> Node {
    match v {
        Value::Bool { value } => Node::Bool(*value),
        Value::I8 { value } => Node::I8(*value),
        Value::I16 { value } => Node::I16(*value),
        Value::I32 { value } => Node::I32(*value),
        Value::I64 { value } => Node::I64(*value),
        Value::I128 { value } => Node::I128(*value),
        Value::U8 { value } => Node::U8(*value),
        Value::U16 { value } => Node::U16(*value),
        Value::U32 { value } => Node::U32(*value),
        Value::U64 { value } => Node::U64(*value),
        Value::U128 { value } => Node::U128(*value),
        Value::String { value } => Node::Str(value.clone()),
        Value::Enum { discriminator, fields } => Node::Enum { disc: *discriminator, fields: fields.iter().map(from_value::<F>).collect() },
        Value::Tuple { fields } => Node::Tuple(fields.iter().map(from_value::<F>).collect()),
        Value::Array { element_value_kind, elements } => {
            let ek = value_kind_u8::<F>(*element_value_kind);
            if ek == K_U8 && elements.iter().all(|e| matches!(e, Value::U8 { .. })) {
                Node::Bytes(elements.iter().map(|e| if let Value::U8 { value } = e { *value } else { 0 }).collect())
            } else {
                Node::Array { ek, elems: elements.iter().map(from_value::<F>).collect() }
            }
        }
        Value::Map { key_value_kind, value_value_kind, entries } => Node::Map {
            kk: value_kind_u8::<F>(*key_value_kind),
            vk: value_kind_u8::<F>(*value_value_kind),
            entries: entries.iter().map(|(k, v)| (from_value::<F>(k), from_value::<F>(v))).collect(),
        },
        Value::Custom { value } => {
            let (kind, body) = F::custom_from(value);
            Node::Custom { kind, body }
        }
    }
}

/// A decoded repository value of any flavour.
#[derive(Clone, Debug, PartialEq)]
pub enum AnyValue {
    Basic(BasicValue),
    Scrypto(ScryptoValue),
    Manifest(ManifestValue),
}

impl AnyValue {
    pub fn flavour(&self) -> Flavour {
        match self {
            AnyValue::Basic(_) => Flavour::Basic,
            AnyValue::Scrypto(_) => Flavour::Scrypto,
            AnyValue::Manifest(_) => Flavour::Manifest,
        }
    }
    pub fn to_node(&self) -> Node {
        match self {
            AnyValue::Basic(v) => from_value::<BasicF>(v),
            AnyValue::Scrypto(v) => from_value::<ScryptoF>(v),
            AnyValue::Manifest(v) => from_value::<ManifestF>(v),
        }
    }
}

pub fn node_to_any(fl: Flavour, n: &Node) -> Option<AnyValue> {
    Some(match fl {
        Flavour::Basic => AnyValue::Basic(to_value::<BasicF>(n)?),
        Flavour::Scrypto => AnyValue::Scrypto(to_value::<ScryptoF>(n)?),
        Flavour::Manifest => AnyValue::Manifest(to_value::<ManifestF>(n)?),
    })
}

pub fn encode_any(v: &AnyValue, limit: usize) -> Result<Vec<u8>, EncodeError> {
    match v {
        AnyValue::Basic(v) => basic_encode_with_depth_limit(v, limit),
        AnyValue::Scrypto(v) => scrypto_encode_with_depth_limit(v, limit),
        AnyValue::Manifest(v) => manifest_encode_with_depth_limit(v, limit),
    }
}

pub fn decode_any(fl: Flavour, bytes: &[u8], limit: usize) -> Result<AnyValue, DecodeError> {
    Ok(match fl {
        Flavour::Basic => AnyValue::Basic(basic_decode_with_depth_limit::<BasicValue>(bytes, limit)?),
        Flavour::Scrypto => AnyValue::Scrypto(scrypto_decode_with_depth_limit::<ScryptoValue>(bytes, limit)?),
        Flavour::Manifest => AnyValue::Manifest(manifest_decode_with_depth_limit::<ManifestValue>(bytes, limit)?),
    })
}

/// Outcome of running the untyped traverser over a payload until `End` or `DecodeError`.
pub struct Traversal {
    pub result: Result<(), DecodeError>,
    pub events: usize,
    /// Deepest value seen: ancestors + 1 for terminal events / container starts.
    pub max_depth: usize,
    pub end_offset: usize,
}

fn run_traverser<T: CustomTraversal>(mut t: VecTraverser<'_, T>) -> Traversal {
    let mut events = 0usize;
    let mut max_depth = 0usize;
    loop {
        let ev = t.next_event();
        events += 1;
        match ev.event {
            TraversalEvent::End => return Traversal { result: Ok(()), events, max_depth, end_offset: ev.location.end_offset },
            TraversalEvent::DecodeError(e) => return Traversal { result: Err(e), events, max_depth, end_offset: ev.location.end_offset },
            TraversalEvent::ContainerStart(_) => {
                max_depth = max_depth.max(ev.location.ancestor_path.len() + 1);
            }
            TraversalEvent::TerminalValue(_) | TraversalEvent::TerminalValueBatch(_) => {
                // for terminal values the ancestor path includes every ancestor
                max_depth = max_depth.max(ev.location.ancestor_path.len() + 1);
            }
            TraversalEvent::ContainerEnd(_) => {}
        }
    }
}

pub fn traverse_any(fl: Flavour, bytes: &[u8], limit: usize) -> Traversal {
    let cfg = VecTraverserConfig { max_depth: limit, check_exact_end: true };
    match fl {
        Flavour::Basic => run_traverser(VecTraverser::<NoCustomTraversal>::new(bytes, ExpectedStart::PayloadPrefix(BASIC_SBOR_V1_PAYLOAD_PREFIX), cfg)),
        Flavour::Scrypto => {
            run_traverser(VecTraverser::<ScryptoCustomTraversal>::new(bytes, ExpectedStart::PayloadPrefix(SCRYPTO_SBOR_V1_PAYLOAD_PREFIX), cfg))
        }
        Flavour::Manifest => {
            run_traverser(VecTraverser::<ManifestCustomTraversal>::new(bytes, ExpectedStart::PayloadPrefix(MANIFEST_SBOR_V1_PAYLOAD_PREFIX), cfg))
        }
    }
}

pub fn is_depth_decode_error(e: &DecodeError) -> bool {
    matches!(e, DecodeError::MaxDepthExceeded(_))
}
pub fn is_depth_encode_error(e: &EncodeError) -> bool {
    matches!(e, EncodeError::MaxDepthExceeded(_))
}
