fn main() {
    vf_core::main_with(vf_bp_b::checks());
}
