//! C05 The stored ledger is always well-formed.
//!
//! A case is a history of 3–9 transactions against the shared world. Most are puppet scripts that
//! build trees of `Puppet` / `PuppetInner` objects, key-value stores and native vaults on the heap,
//! move nodes into and out of heap key-value stores, globalize the tree or store it into fields /
//! KV-collection entries / stored key-value stores of components committed earlier in the history
//! (walking down through open substates and owned objects' methods), drop objects, and — in about
//! a third of the scripts — end in something the engine must refuse (dangling node, the same node
//! owned twice, a non-global reference written to the store, an owned node in a collection that
//! does not allow ownership, dropping an object that still owns children, taking an owned node out
//! of a stored substate, a panic). The rest are manifests over native blueprints (accounts,
//! identities, resources, pools, lockers, transfers that create vaults, metadata / role updates).
//!
//! Oracle: after every commit (success or failure) `scan::scan_ledger` over the raw database must
//! find nothing (see scan.rs for the clauses); the repository's kernel / system / role-assignment
//! checkers are run on the final state as a second opinion and must agree.

use crate::env::*;
use crate::pup::*;
use crate::scan::*;
use scrypto_test::prelude::*;
use std::collections::BTreeSet;
use vf_core::{Check, Gen, Outcome, Part};
use vf_world::*;

#[derive(Clone, Copy, PartialEq, Eq, Debug)]
enum Kind {
    Obj,
    Inner,
    Kv,
    Vault,
}

#[derive(Clone, Copy, PartialEq, Eq, Debug)]
enum Fault {
    None,
    Panic,
    Dangling,
    DoubleOwn,
    LocalRefStored,
    OwnInNoOwnership,
    DropWithChildren,
}

struct Cx {
    b: B,
    /// slot holding a reference to a fungible resource manager (for vaults)
    res_slot: Option<u8>,
    /// inner objects can be created (method of a global Puppet)
    can_inner: bool,
    created: u32,
    heap_moves: u32,
    budget: i32,
}

fn scalar(g: &mut Gen) -> V {
    match g.below(4) {
        0 => v_u32(g.below(1000) as u32),
        1 => v_str(["", "a", "hello", "with space"][g.index(4)]),
        2 => v_tuple(vec![v_u32(g.below(10) as u32), v_str("t")]),
        _ => Value::Array { element_value_kind: ValueKind::U8, elements: (0..g.below(6)).map(|i| Value::U8 { value: i as u8 }).collect() },
    }
}

fn with_own(g: &mut Gen, own: V) -> V {
    match g.below(3) {
        0 => own,
        1 => v_tuple(vec![own, scalar(g)]),
        _ => Value::Enum { discriminator: 1, fields: vec![scalar(g), own] },
    }
}

/// Create a node owned by the current frame; returns its slot and kind.
fn gen_node(g: &mut Gen, cx: &mut Cx, depth: u32) -> (u8, Kind) {
    cx.budget -= 1;
    let deep = depth < 2 && cx.budget > 0;
    let w = [5, if deep { 4 } else { 0 }, 3, if cx.res_slot.is_some() { 2 } else { 0 }, if cx.can_inner { 2 } else { 0 }];
    let (slot, kind) = match g.weighted(&w) {
        0 => {
            let fields = (0..3).map(|i| (i as u8, enc(&scalar(g)), g.chance(1, 6))).collect();
            let kv = if g.chance(1, 3) { vec![(PUPPET_COLL_KV, enc(&v_u32(g.below(4) as u32)), enc(&scalar(g)), g.chance(1, 4))] } else { vec![] };
            (cx.b.op(Op::NewObject { blueprint: PUPPET_BLUEPRINT.into(), fields, kv }, 1), Kind::Obj)
        }
        1 => {
            let n = 1 + g.below(2);
            let mut kids = Vec::new();
            for _ in 0..n {
                let (c, _) = gen_node(g, cx, depth + 1);
                let c = maybe_roundtrip(g, cx, c);
                kids.push(c);
            }
            let mut fields: Vec<(u8, Vec<u8>, bool)> = Vec::new();
            let mut kv = Vec::new();
            for i in 0..3u8 {
                if !kids.is_empty() && g.chance(1, 2) {
                    let c = kids.pop().unwrap();
                    fields.push((i, enc(&with_own(g, v_own(c))), g.chance(1, 8)));
                } else {
                    fields.push((i, enc(&scalar(g)), false));
                }
            }
            for (j, c) in kids.into_iter().enumerate() {
                kv.push((PUPPET_COLL_KV, enc(&v_u32(j as u32)), enc(&with_own(g, v_own(c))), g.chance(1, 8)));
            }
            (cx.b.op(Op::NewObject { blueprint: PUPPET_BLUEPRINT.into(), fields, kv }, 1), Kind::Obj)
        }
        2 => {
            let s = cx.b.op(Op::KvStoreNew { allow_ownership: true }, 1);
            let n = g.below(3);
            for k in 0..n {
                let val = if deep && g.chance(1, 2) {
                    let (c, _) = gen_node(g, cx, depth + 1);
                    with_own(g, v_own(c))
                } else {
                    scalar(g)
                };
                let h = cx.b.op(Op::KvOpen { store: N::Slot(s), key: enc(&v_u32(k as u32)), mutable: true }, 1);
                cx.b.op(Op::KvSet(h, enc(&val)), 1);
                if g.chance(1, 6) {
                    cx.b.op(Op::KvLock(h), 1);
                }
                cx.b.op(Op::KvClose(h), 1);
            }
            (s, Kind::Kv)
        }
        3 => {
            let s = cx.b.op(Op::CallMethod { receiver: N::Slot(cx.res_slot.unwrap()), method: "create_empty_vault".into(), args: enc(&v_unit()) }, 2);
            (s + 1, Kind::Vault)
        }
        _ => {
            let val = if deep && g.chance(1, 2) {
                let (c, _) = gen_node(g, cx, depth + 1);
                with_own(g, v_own(c))
            } else {
                scalar(g)
            };
            (cx.b.op(Op::NewObject { blueprint: PUPPET_INNER_BLUEPRINT.into(), fields: vec![(0, enc(&val), false)], kv: vec![] }, 1), Kind::Inner)
        }
    };
    cx.created += 1;
    (slot, kind)
}

/// Sometimes park the node in a heap key-value store and take it out again.
fn maybe_roundtrip(g: &mut Gen, cx: &mut Cx, node: u8) -> u8 {
    if !g.chance(1, 5) {
        return node;
    }
    let s = cx.b.op(Op::KvStoreNew { allow_ownership: true }, 1);
    let key = enc(&v_u32(7));
    let h = cx.b.op(Op::KvOpen { store: N::Slot(s), key: key.clone(), mutable: true }, 1);
    cx.b.op(Op::KvSet(h, enc(&v_own(node))), 1);
    cx.b.op(Op::KvClose(h), 1);
    cx.b.op(Op::KvStoreRemove { store: N::Slot(s), key }, 1);
    // the node is owned by the frame again; park it once more and hand the store on as the child
    let h2 = cx.b.op(Op::KvOpen { store: N::Slot(s), key: enc(&v_u32(8)), mutable: true }, 1);
    cx.b.op(Op::KvSet(h2, enc(&v_own(node))), 1);
    cx.b.op(Op::KvClose(h2), 1);
    cx.heap_moves += 1;
    s
}

fn owner_spec(g: &mut Gen, w: &World) -> OwnerSpec {
    match g.below(4) {
        0 => OwnerSpec::None,
        1 => OwnerSpec::Fixed(rule!(require(w.accounts[0].badge()))),
        2 => OwnerSpec::Updatable(rule!(require(w.badge))),
        _ => OwnerSpec::Updatable(rule!(allow_all)),
    }
}

#[derive(Clone, Debug)]
enum Hop {
    Field(u8),
    Coll(Vec<u8>),
    Store(Vec<u8>),
}

/// Ops (for the actor that is `from`'s owner-chain root) that walk down to `target` and run `at_target`
/// there. `chain` = [(node, hop leading from the previous node to it)], first entry below the root.
fn descend(chain: &[(NodeId, Hop, bool)], at_obj: &dyn Fn(&mut B), at_store: &dyn Fn(&mut B, NodeId)) -> Vec<Op> {
    // the current actor is an object; chain[0].1 is a Field/Coll hop of SELF
    let mut b = B::new();
    let mut i = 0;
    loop {
        let (node, hop, is_store) = &chain[i];
        match hop {
            Hop::Field(f) => {
                b.op(Op::ActorOpenField { state: 0, field: *f, flags: 0 }, 1);
            }
            Hop::Coll(k) => {
                b.op(Op::ActorOpenKv { state: 0, collection: PUPPET_COLL_KV, key: k.clone(), flags: 0 }, 1);
            }
            Hop::Store(_) => unreachable!(),
        }
        // now `node` is visible; walk through stores
        let mut cur = *node;
        let mut cur_is_store = *is_store;
        i += 1;
        while cur_is_store && i < chain.len() {
            let (n2, hop2, s2) = &chain[i];
            let Hop::Store(k) = hop2 else { unreachable!() };
            b.op(Op::KvOpen { store: N::Lit(cur), key: k.clone(), mutable: false }, 1);
            cur = *n2;
            cur_is_store = *s2;
            i += 1;
        }
        if i >= chain.len() {
            if cur_is_store {
                at_store(&mut b, cur);
            } else {
                let mut inner = B::new();
                at_obj(&mut inner);
                b.op(Op::CallMethod { receiver: N::Lit(cur), method: PUPPET_ACT.into(), args: script_args(&inner.script()) }, 1);
            }
            return b.ops;
        }
        // cur is an object with more to go: continue inside its method
        let rest = descend(&chain[i..], at_obj, at_store);
        b.op(Op::CallMethod { receiver: N::Lit(cur), method: PUPPET_ACT.into(), args: script_args(&Script(rest)) }, 1);
        return b.ops;
    }
}

/// Owner chain of an internal node up to its global root, top-down, for puppet nodes only.
fn chain_of(scan: &LedgerScan, w: &World, target: NodeId) -> Option<(NodeId, Vec<(NodeId, Hop, bool)>)> {
    let mut rev = Vec::new();
    let mut cur = target;
    let mut steps = 0;
    while !cur.is_global() {
        let (parent, part, key) = scan.owner.get(&cur)?;
        let is_store = scan.kv_stores.contains(&cur);
        if !is_store {
            let bp = scan.blueprint.get(&cur)?;
            if bp.blueprint_name != PUPPET_BLUEPRINT || (bp.package_address != w.puppet_p && bp.package_address != w.puppet_q) {
                return None;
            }
        }
        let db_key = DbSortKey(key.clone());
        let hop = if scan.kv_stores.contains(parent) {
            if *part != 64 {
                return None;
            }
            Hop::Store(SpreadPrefixKeyMapper::map_from_db_sort_key(&db_key))
        } else {
            match part {
                64 => Hop::Field(SpreadPrefixKeyMapper::field_from_db_sort_key(&db_key)),
                65 => Hop::Coll(SpreadPrefixKeyMapper::map_from_db_sort_key(&db_key)),
                _ => return None,
            }
        };
        rev.push((cur, hop, is_store));
        cur = *parent;
        steps += 1;
        if steps > 12 {
            return None;
        }
    }
    let bp = scan.blueprint.get(&cur)?;
    if bp.blueprint_name != PUPPET_BLUEPRINT || (bp.package_address != w.puppet_p && bp.package_address != w.puppet_q) {
        return None;
    }
    rev.reverse();
    Some((cur, rev))
}

struct Step {
    manifest: TransactionManifestV1,
    proofs: Vec<NonFungibleGlobalId>,
    text: String,
    class: &'static str,
    fault: Fault,
    created: u32,
    stores: u32,
    drops: u32,
    heap_moves: u32,
}

fn puppet_globals(scan: &LedgerScan, w: &World) -> Vec<NodeId> {
    scan.blueprint
        .iter()
        .filter(|(n, bp)| n.is_global() && bp.blueprint_name == PUPPET_BLUEPRINT && (bp.package_address == w.puppet_p || bp.package_address == w.puppet_q))
        .map(|(n, _)| *n)
        .collect()
}

fn pick_fault(g: &mut Gen) -> Fault {
    match g.weighted(&[16, 1, 2, 2, 2, 2, 1]) {
        0 => Fault::None,
        1 => Fault::Panic,
        2 => Fault::Dangling,
        3 => Fault::DoubleOwn,
        4 => Fault::LocalRefStored,
        5 => Fault::OwnInNoOwnership,
        _ => Fault::DropWithChildren,
    }
}

/// Ops storing the frame-owned node `root` into the state of SELF (a stored Puppet object).
fn store_into_self(g: &mut Gen, b: &mut B, root: u8, fault: Fault) {
    let own = if fault == Fault::DoubleOwn { v_tuple(vec![v_own(root), v_own(root)]) } else { with_own(g, v_own(root)) };
    if fault == Fault::OwnInNoOwnership {
        if g.bool() {
            b.op(Op::ActorIndexInsert { state: 0, collection: PUPPET_COLL_INDEX, key: enc(&v_u32(g.below(4) as u32)), value: enc(&own) }, 1);
        } else {
            b.op(Op::ActorSortedInsert { state: 0, collection: PUPPET_COLL_SORTED, sort: g.below(3) as u16, key: enc(&v_u32(1)), value: enc(&own) }, 1);
        }
        return;
    }
    if fault == Fault::LocalRefStored {
        // a reference to the node goes into one substate, the node itself into another
        let h = b.op(Op::ActorOpenField { state: 0, field: g.below(3) as u8, flags: 1 }, 1);
        b.op(Op::FieldWrite(h, enc(&v_tuple(vec![v_ref(root), v_u32(1)]))), 1);
        b.op(Op::FieldClose(h), 1);
        let h = b.op(Op::ActorOpenKv { state: 0, collection: PUPPET_COLL_KV, key: enc(&v_u32(100 + g.below(50) as u32)), flags: 1 }, 1);
        b.op(Op::KvSet(h, enc(&v_own(root))), 1);
        b.op(Op::KvClose(h), 1);
        return;
    }
    if g.chance(1, 3) {
        let h = b.op(Op::ActorOpenField { state: 0, field: g.below(3) as u8, flags: 1 }, 1);
        b.op(Op::FieldWrite(h, enc(&own)), 1);
        if g.chance(1, 8) {
            b.op(Op::FieldLock(h), 1);
        }
        b.op(Op::FieldClose(h), 1);
    } else {
        let h = b.op(Op::ActorOpenKv { state: 0, collection: PUPPET_COLL_KV, key: enc(&v_u32(g.below(40) as u32)), flags: 1 }, 1);
        b.op(Op::KvSet(h, enc(&own)), 1);
        if g.chance(1, 8) {
            b.op(Op::KvLock(h), 1);
        }
        b.op(Op::KvClose(h), 1);
    }
}

fn scalar_updates(g: &mut Gen, b: &mut B) {
    for _ in 0..g.below(3) {
        match g.below(5) {
            0 => {
                let h = b.op(Op::ActorOpenField { state: 0, field: g.below(3) as u8, flags: 1 }, 1);
                b.op(Op::FieldWrite(h, enc(&scalar(g))), 1);
                b.op(Op::FieldClose(h), 1);
            }
            1 => {
                b.op(Op::ActorIndexInsert { state: 0, collection: PUPPET_COLL_INDEX, key: enc(&v_u32(g.below(5) as u32)), value: enc(&scalar(g)) }, 1);
            }
            2 => {
                b.op(Op::ActorSortedInsert { state: 0, collection: PUPPET_COLL_SORTED, sort: g.below(4) as u16, key: enc(&v_u32(g.below(3) as u32)), value: enc(&scalar(g)) }, 1);
            }
            3 => {
                b.op(Op::ActorRemoveKv { state: 0, collection: PUPPET_COLL_KV, key: enc(&v_u32(g.below(40) as u32)) }, 1);
            }
            _ => {
                b.op(Op::ActorIndexRemove { state: 0, collection: PUPPET_COLL_INDEX, key: enc(&v_u32(g.below(5) as u32)) }, 1);
            }
        }
    }
}

fn gen_step(g: &mut Gen, w: &World, scan: &LedgerScan, step_no: usize) -> Step {
    let globals = puppet_globals(scan, w);
    let internal_targets: Vec<NodeId> = scan
        .internal_nodes
        .iter()
        .filter(|n| scan.kv_stores.contains(*n) || scan.blueprint.get(*n).map(|b| b.blueprint_name == PUPPET_BLUEPRINT).unwrap_or(false))
        .cloned()
        .collect();
    let res = w.fungibles[g.index(w.fungibles.len())].address;
    let all_proofs: Vec<NonFungibleGlobalId> = w.accounts.iter().map(|a| a.badge()).collect();
    let choice = g.weighted(&[6, if globals.is_empty() { 0 } else { 6 }, if internal_targets.is_empty() { 0 } else { 5 }, 4]);
    let fault = pick_fault(g);
    match choice {
        // ---- build a tree in a function and globalize it
        0 => {
            let pkg = if g.bool() { w.puppet_q } else { w.puppet_p };
            let mut cx = Cx { b: B::new(), res_slot: None, can_inner: false, created: 0, heap_moves: 0, budget: 6 };
            cx.res_slot = Some(cx.b.import_refs(&[res.into_node_id()]));
            let (mut root, kind) = gen_node(g, &mut cx, 0);
            let mut drops = 0;
            if kind != Kind::Obj || fault == Fault::DoubleOwn {
                let own = if fault == Fault::DoubleOwn { v_tuple(vec![v_own(root), v_own(root)]) } else { with_own(g, v_own(root)) };
                root = cx.b.op(
                    Op::NewObject { blueprint: PUPPET_BLUEPRINT.into(), fields: vec![(0, enc(&own), false), (1, enc(&scalar(g)), false), (2, enc(&scalar(g)), false)], kv: vec![] },
                    1,
                );
                cx.created += 1;
            }
            if g.chance(1, 4) {
                // an extra leaf that is dropped again
                let leaf = cx.b.op(
                    Op::NewObject { blueprint: PUPPET_BLUEPRINT.into(), fields: (0..3).map(|i| (i as u8, enc(&scalar(g)), false)).collect(), kv: vec![] },
                    1,
                );
                cx.b.op(Op::DropObject(N::Slot(leaf)), 1);
                cx.created += 1;
                drops += 1;
            }
            match fault {
                Fault::Dangling => {}
                Fault::DropWithChildren => {
                    cx.b.op(Op::DropObject(N::Slot(root)), 1);
                }
                Fault::LocalRefStored => {
                    // an object holding a reference to a frame-owned sibling is globalized
                    let sib = cx.b.op(
                        Op::NewObject { blueprint: PUPPET_BLUEPRINT.into(), fields: (0..3).map(|i| (i as u8, enc(&v_u32(i)), false)).collect(), kv: vec![] },
                        1,
                    );
                    let holder = cx.b.op(
                        Op::NewObject {
                            blueprint: PUPPET_BLUEPRINT.into(),
                            fields: vec![(0, enc(&v_ref(sib)), false), (1, enc(&v_own(root)), false), (2, enc(&v_u32(0)), false)],
                            kv: vec![],
                        },
                        1,
                    );
                    cx.b.op(Op::Globalize { object: N::Slot(holder), owner: OwnerSpec::None, reservation: None, with_royalty: false }, 1);
                    cx.b.op(Op::Globalize { object: N::Slot(sib), owner: OwnerSpec::None, reservation: None, with_royalty: false }, 1);
                }
                Fault::OwnInNoOwnership => {
                    let s = cx.b.op(Op::KvStoreNew { allow_ownership: false }, 1);
                    let h = cx.b.op(Op::KvOpen { store: N::Slot(s), key: enc(&v_u32(1)), mutable: true }, 1);
                    cx.b.op(Op::KvSet(h, enc(&v_own(root))), 1);
                    cx.b.op(Op::KvClose(h), 1);
                    let holder = cx.b.op(
                        Op::NewObject { blueprint: PUPPET_BLUEPRINT.into(), fields: vec![(0, enc(&v_own(s)), false), (1, enc(&v_u32(0)), false), (2, enc(&v_u32(0)), false)], kv: vec![] },
                        1,
                    );
                    cx.b.op(Op::Globalize { object: N::Slot(holder), owner: OwnerSpec::None, reservation: None, with_royalty: false }, 1);
                }
                _ => {
                    let gl = cx.b.op(Op::Globalize { object: N::Slot(root), owner: owner_spec(g, w), reservation: None, with_royalty: g.chance(1, 4) }, 1);
                    if g.chance(1, 2) {
                        // straight away add inner objects / more children through its own method
                        let mut icx = Cx { b: B::new(), res_slot: None, can_inner: true, created: 0, heap_moves: 0, budget: 3 };
                        let (r2, _) = gen_node(g, &mut icx, 1);
                        store_into_self(g, &mut icx.b, r2, Fault::None);
                        cx.created += icx.created;
                        cx.b.op(Op::CallMethod { receiver: N::Slot(gl), method: PUPPET_ACT.into(), args: script_args(&icx.b.script()) }, 1);
                    }
                    if fault == Fault::Panic {
                        cx.b.op(Op::Panic("stop".into()), 1);
                    }
                }
            }
            let script = cx.b.script();
            Step {
                manifest: puppet_call_manifest(pkg, &script),
                proofs: vec![],
                text: format!("tx{} run@{} fault={:?}\n{}", step_no, if pkg == w.puppet_p { "P" } else { "Q" }, fault, render_ops(&script.0)),
                class: "build tree + globalize",
                fault,
                created: cx.created,
                stores: 1,
                drops,
                heap_moves: cx.heap_moves,
            }
        }
        // ---- method of a committed global puppet: add subtree / update / try to take nodes out
        1 => {
            let target = globals[g.index(globals.len())];
            let mut cx = Cx { b: B::new(), res_slot: None, can_inner: true, created: 0, heap_moves: 0, budget: 5 };
            let mut stores = 0;
            let mut fault = fault;
            if g.chance(1, 5) {
                // try to take owned nodes out of stored substates: must fail whenever one is there
                fault = Fault::None;
                match g.below(3) {
                    0 => {
                        let h = cx.b.op(Op::ActorOpenField { state: 0, field: g.below(3) as u8, flags: 1 }, 1);
                        cx.b.op(Op::FieldWrite(h, enc(&scalar(g))), 1);
                        cx.b.op(Op::FieldClose(h), 1);
                    }
                    1 => {
                        cx.b.op(Op::ActorRemoveKv { state: 0, collection: PUPPET_COLL_KV, key: enc(&v_u32(g.below(6) as u32)) }, 1);
                    }
                    _ => {
                        let h = cx.b.op(Op::ActorOpenKv { state: 0, collection: PUPPET_COLL_KV, key: enc(&v_u32(g.below(6) as u32)), flags: 1 }, 1);
                        cx.b.op(Op::KvSet(h, enc(&scalar(g))), 1);
                        cx.b.op(Op::KvClose(h), 1);
                    }
                }
                scalar_updates(g, &mut cx.b);
            } else {
                scalar_updates(g, &mut cx.b);
                let (root, _) = gen_node(g, &mut cx, 0);
                match fault {
                    Fault::Dangling => {}
                    Fault::DropWithChildren => {
                        cx.b.op(Op::DropObject(N::Slot(root)), 1);
                    }
                    _ => {
                        store_into_self(g, &mut cx.b, root, fault);
                        stores = 1;
                    }
                }
                if fault == Fault::Panic {
                    cx.b.op(Op::Panic("stop".into()), 1);
                }
            }
            let script = cx.b.script();
            let ga = GlobalAddress::new_or_panic(target.0);
            Step {
                manifest: puppet_method_manifest(ga, PUPPET_ACT, &script),
                proofs: all_proofs,
                text: format!("tx{} act@{} fault={:?}\n{}", step_no, hexn(&target), fault, render_ops(&script.0)),
                class: "method of a stored component adds / replaces state",
                fault,
                created: cx.created,
                stores,
                drops: 0,
                heap_moves: cx.heap_moves,
            }
        }
        // ---- walk down to a stored internal node and add below it
        2 => {
            let target = internal_targets[g.index(internal_targets.len())];
            match chain_of(scan, w, target) {
                None => gen_native(g, w, scan, step_no),
                Some((root, chain)) => {
                    let seed = g.u64();
                    let target_is_store = scan.kv_stores.contains(&target);
                    let fault = match fault {
                        Fault::Dangling | Fault::DropWithChildren => Fault::None,
                        Fault::OwnInNoOwnership if target_is_store => Fault::None,
                        f => f,
                    };
                    let tape: Vec<u8> = seed.to_be_bytes().iter().cycle().take(64).cloned().collect();
                    let created = std::cell::Cell::new(0u32);
                    let at_obj = |b: &mut B| {
                        let mut g2 = Gen::new(&tape);
                        let mut cx = Cx { b: B::new(), res_slot: None, can_inner: false, created: 0, heap_moves: 0, budget: 3 };
                        let (r, _) = gen_node(&mut g2, &mut cx, 1);
                        store_into_self(&mut g2, &mut cx.b, r, fault);
                        created.set(cx.created);
                        *b = cx.b;
                    };
                    let at_store = |b: &mut B, store: NodeId| {
                        let mut g2 = Gen::new(&tape);
                        let base = b.n;
                        let mut cx = Cx { b: B { ops: vec![], n: base }, res_slot: None, can_inner: false, created: 0, heap_moves: 0, budget: 3 };
                        let (r, _) = gen_node(&mut g2, &mut cx, 1);
                        let val = match fault {
                            Fault::DoubleOwn => v_tuple(vec![v_own(r), v_own(r)]),
                            Fault::LocalRefStored => v_tuple(vec![v_own(r), v_ref(r)]),
                            _ => with_own(&mut g2, v_own(r)),
                        };
                        let key = enc(&v_u32(g2.below(30) as u32));
                        let h = cx.b.op(Op::KvOpen { store: N::Lit(store), key, mutable: true }, 1);
                        cx.b.op(Op::KvSet(h, enc(&val)), 1);
                        cx.b.op(Op::KvClose(h), 1);
                        created.set(cx.created);
                        b.ops.extend(cx.b.ops);
                        b.n = cx.b.n;
                    };
                    let mut ops = descend(&chain, &at_obj, &at_store);
                    if fault == Fault::Panic {
                        ops.push(Op::Panic("stop".into()));
                    }
                    let script = Script(ops);
                    let ga = GlobalAddress::new_or_panic(root.0);
                    Step {
                        manifest: puppet_method_manifest(ga, PUPPET_ACT, &script),
                        proofs: all_proofs,
                        text: format!("tx{} deep@{} → {} (depth {}) fault={:?}\n{}", step_no, hexn(&root), hexn(&target), chain.len(), fault, render_ops(&script.0)),
                        class: "walk down to a stored internal node and add below it",
                        fault,
                        created: created.get(),
                        stores: 1,
                        drops: 0,
                        heap_moves: 0,
                    }
                }
            }
        }
        _ => gen_native(g, w, scan, step_no),
    }
}

fn gen_native(g: &mut Gen, w: &World, scan: &LedgerScan, step_no: usize) -> Step {
    let all_proofs: Vec<NonFungibleGlobalId> = w.accounts.iter().map(|a| a.badge()).collect();
    let acct = |g: &mut Gen| w.accounts[g.index(w.accounts.len())].address;
    let owner = |g: &mut Gen| match g.below(3) {
        0 => OwnerRole::None,
        1 => OwnerRole::Fixed(rule!(require(w.badge))),
        _ => OwnerRole::Updatable(rule!(require(w.accounts[0].badge()))),
    };
    let mut b = ManifestBuilder::new().lock_fee_from_faucet();
    let what;
    match g.below(10) {
        0 => {
            what = "new account";
            b = b.new_account_advanced(owner(g), None);
        }
        1 => {
            what = "new identity";
            b = b.create_identity_advanced(owner(g));
        }
        2 => {
            what = "new fungible resource + deposit";
            let a = acct(g);
            let roles = FungibleResourceRoles {
                mint_roles: mint_roles! { minter => rule!(allow_all); minter_updater => rule!(require(w.badge)); },
                burn_roles: if g.bool() { burn_roles! { burner => rule!(require(w.badge)); burner_updater => rule!(deny_all); } } else { None },
                ..Default::default()
            };
            b = b
                .create_fungible_resource(owner(g), g.bool(), g.below(19) as u8, roles, metadata!(init { "name" => "x".to_string(), locked; "n" => 5u32, updatable; }), Some(dec!(77)))
                .try_deposit_entire_worktop_or_abort(a, None);
        }
        3 => {
            what = "new non-fungible resource + deposit";
            let a = acct(g);
            let mut entries = BTreeMap::new();
            for i in 0..g.below(3) {
                entries.insert(NonFungibleLocalId::integer(i + 1), NfData { a: i, b: "b".into(), c: 3 });
            }
            b = b
                .create_non_fungible_resource(owner(g), NonFungibleIdType::Integer, true, NonFungibleResourceRoles::default(), metadata!(), Some(entries))
                .try_deposit_entire_worktop_or_abort(a, None);
        }
        4 => {
            what = "transfer (may create vaults)";
            let from = g.index(w.accounts.len());
            let to = acct(g);
            let f = &w.fungibles[g.index(w.fungibles.len())];
            b = b.withdraw_from_account(w.accounts[from].address, f.address, dec!(1)).try_deposit_entire_worktop_or_abort(to, None);
        }
        5 => {
            what = "pool creation";
            let r1 = w.fungibles[0].address;
            let r2 = w.fungibles[1].address;
            let r3 = w.fungibles[3].address;
            b = match g.below(3) {
                0 => b.call_function(POOL_PACKAGE, "OneResourcePool", "instantiate", manifest_args!(owner(g), rule!(allow_all), r1, None::<ManifestAddressReservation>)),
                1 => b.call_function(POOL_PACKAGE, "TwoResourcePool", "instantiate", manifest_args!(owner(g), rule!(require(w.badge)), (r1, r2), None::<ManifestAddressReservation>)),
                _ => b.call_function(POOL_PACKAGE, "MultiResourcePool", "instantiate", manifest_args!(owner(g), rule!(allow_all), indexset![r1, r2, r3], None::<ManifestAddressReservation>)),
            };
        }
        6 => {
            what = "account locker creation";
            b = b.call_function(LOCKER_PACKAGE, "AccountLocker", "instantiate_simple", manifest_args!(g.bool()));
            b = b.try_deposit_entire_worktop_or_abort(acct(g), None);
        }
        7 => {
            what = "metadata set / lock on a world entity";
            let target: GlobalAddress = match g.below(3) {
                0 => acct(g).into(),
                1 => w.ext::<Ext>().gp.into(),
                _ => w.fungibles[g.index(w.fungibles.len())].address.into(),
            };
            let key = ["k1", "k2", "name"][g.index(3)];
            b = match g.below(3) {
                0 => b.set_metadata(target, key, MetadataValue::String("v".into())),
                1 => b.set_metadata(target, key, MetadataValue::U32Array(vec![1, 2, 3])),
                _ => b.lock_metadata(target, key),
            };
        }
        8 => {
            what = "role / owner update on the P puppet component";
            let gp = w.ext::<Ext>().gp;
            b = match g.below(4) {
                0 => b.set_owner_role(gp, rule!(require(w.badge))),
                1 => b.set_role(gp, ModuleId::Metadata, "metadata_setter", rule!(allow_all)),
                2 => b.set_role(gp, ModuleId::Main, "undeclared_role", rule!(allow_all)),
                _ => b.set_component_royalty(gp, PUPPET_ACT, RoyaltyAmount::Xrd(dec!(1))),
            };
        }
        _ => {
            what = "mint non-fungibles into an account";
            let nf = &w.non_fungibles[0];
            let a = acct(g);
            let id = 1000 + g.below(50);
            b = b
                .mint_non_fungible(nf.address, [(NonFungibleLocalId::integer(id), NfData { a: id, b: "m".into(), c: 1 })])
                .try_deposit_entire_worktop_or_abort(a, None);
        }
    }
    let _ = scan;
    Step {
        manifest: b.build(),
        proofs: all_proofs,
        text: format!("tx{} native: {}", step_no, what),
        class: "native blueprint manifest",
        fault: Fault::None,
        created: 0,
        stores: 0,
        drops: 0,
        heap_moves: 0,
    }
}

fn case(g: &mut Gen) -> Outcome {
    with_world(WORLD_KEY, no_genesis, build, |w| {
        let (base_facts, _) = base(w);
        let mut facts: Facts = (*base_facts).clone();
        let mut scan = assemble(&facts);
        if let Some(p) = scan.problems.first() {
            return Outcome::fail(format!("C05 scan of the freshly built world: {}", p.class), p.detail.clone());
        }
        let start_internal = scan.internal_nodes.len();
        let n_steps = 3 + g.below(7) as usize;
        let mut log: Vec<String> = Vec::new();
        let (mut failed, mut succeeded, mut stores_ok, mut drops_ok, mut heap_moves_ok) = (0u32, 0u32, 0u32, 0u32, 0u32);
        for i in 0..n_steps {
            let step = gen_step(g, w, &scan, i);
            g.label(step.class);
            let run = w.run(step.manifest.clone(), step.proofs.clone());
            log.push(format!("{}\n  => {}", step.text, run.outcome_string()));
            if let Some(p) = &run.panic {
                return Outcome::fail("C05 host panic while executing a generated transaction", format!("{}\npanic: {}", log.join("\n"), p));
            }
            if !run.is_commit() {
                return Outcome::fail("C05 generated transaction was rejected", log.join("\n"));
            }
            if run.is_success() {
                succeeded += 1;
                stores_ok += step.stores;
                drops_ok += step.drops;
                heap_moves_ok += step.heap_moves;
                g.count("nodes created by successful scripts", step.created as u64);
                match step.fault {
                    Fault::None | Fault::Panic => {}
                    f => {
                        // not necessarily wrong by itself (e.g. the script failed over to nothing), but these
                        // faults are built to be refused: a success must leave a broken ledger for the scan
                        g.label(match f {
                            Fault::Dangling => "fault script succeeded: dangling",
                            Fault::DoubleOwn => "fault script succeeded: double own",
                            Fault::LocalRefStored => "fault script succeeded: local ref",
                            Fault::OwnInNoOwnership => "fault script succeeded: own in no-ownership collection",
                            _ => "fault script succeeded: drop with children",
                        });
                    }
                }
            } else {
                failed += 1;
                match step.fault {
                    Fault::None => g.label("unplanned failure (auth, occupied slot, …)"),
                    Fault::Panic => g.label("refused: panic at end"),
                    Fault::Dangling => g.label("refused: dangling node"),
                    Fault::DoubleOwn => g.label("refused: node owned twice"),
                    Fault::LocalRefStored => g.label("refused: non-global reference stored"),
                    Fault::OwnInNoOwnership => g.label("refused: own in no-ownership collection"),
                    Fault::DropWithChildren => g.label("refused: drop with children"),
                }
            }
            // scan after every commit: nodes in the transaction's write-set (and new ones) are re-read,
            // the global clauses are re-evaluated over everything
            update_facts(w.db(), &mut facts, Some(&touched_nodes(&run)));
            scan = assemble(&facts);
            if let Some(p) = scan.problems.first() {
                let all: Vec<String> = scan.problems.iter().map(|p| format!("[{}] {}", p.class, p.detail)).collect();
                return Outcome::fail(format!("C05 stored ledger is ill-formed after a commit: {}", p.class), format!("{}\nproblems:\n{}", log.join("\n"), all.join("\n")));
            }
        }
        // the incremental bookkeeping must not hide anything: scan from scratch once
        let fresh = scan_ledger(w.db(), &ScanOptions { validate_only: None });
        if let Some(p) = fresh.problems.first() {
            return Outcome::fail(format!("C05 stored ledger is ill-formed after a commit: {}", p.class), format!("{}\n(found by the final from-scratch scan only)\n[{}] {}", log.join("\n"), p.class, p.detail));
        }
        if fresh.owner != scan.owner || fresh.internal_nodes != scan.internal_nodes {
            return Outcome::fail("C05 harness: incremental and from-scratch scans disagree", log.join("\n"));
        }
        // second opinion
        if let Err(e) = repo_checkers(w.db()) {
            return Outcome::fail(
                "C05 harness scan and the repository's database checkers disagree",
                format!("{}\nthe harness scan found nothing, the repository's checker says: {}", log.join("\n"), e),
            );
        }
        let new_internal = scan.internal_nodes.len().saturating_sub(start_internal);
        g.count("transactions", n_steps as u64);
        g.count("committed successes", succeeded as u64);
        g.count("committed failures", failed as u64);
        g.count("internal nodes added to the ledger", new_internal as u64);
        if failed > 0 {
            g.label("history with a failed commit");
        }
        if heap_moves_ok > 0 {
            g.label("node moved into and out of a heap key-value store");
        }
        if drops_ok > 0 {
            g.label("object dropped");
        }
        g.set_nontrivial(new_internal >= 3 && (stores_ok + drops_ok) >= 1);
        g.sample(|| log.join("\n"));
        Outcome::Pass
    })
}

pub fn check() -> Check {
    Check::new(
        "C05",
        "The stored ledger is always well-formed",
        "histories of 3-9 committed transactions (puppet scripts building / moving / dropping object trees, with engine-refused endings, and native-blueprint manifests); non-trivial = the history added >= 3 internal nodes to the ledger and moved (heap -> store) or dropped >= 1 node in a successful transaction",
    )
    .assume("schemas are resolved with the repository's SystemDatabaseReader (read path), payloads validated with validate_payload; the walk over partitions, ownership, references, entity types, field presence and role keys is the harness's own")
    .assume("'declared role' clause applies to blueprints with a static role table (all native ones); the puppet blueprints use MethodAuthTemplate::AllowAll")
    .min_nontrivial_pct(30.0)
    .part(Part::new("histories", 800, 30_000, 1200, case))
}

#[allow(dead_code)]
fn unused(_: BTreeSet<u8>) {}
