//! A sequence of generated transactions on one (reset) world: keeps the generator's ledger
//! knowledge in sync with the raw database between transactions.

use crate::judge::*;
use crate::mgen::*;
use scrypto_test::prelude::*;
use vf_core::{Failure, Gen};
use vf_world::*;

pub const WORLD_KEY: &str = "eng-b";

/// Extra setup of the standard world: accounts 1 and 2 get some of the gate badge, so that several
/// accounts can open `Gate::Badge` roles (account 3 keeps none and has no badge vault).
pub fn build(w: &mut World) {
    let a0 = w.accounts[0].address;
    for (i, n) in [(1usize, 3), (2usize, 2)] {
        let m = ManifestBuilder::new()
            .lock_fee_from_faucet()
            .withdraw_from_account(a0, w.badge, Decimal::from(n as u64))
            .try_deposit_entire_worktop_or_abort(w.accounts[i].address, None)
            .build();
        w.sim.execute_manifest(m, vec![w.accounts[0].badge()]).expect_commit_success();
    }
    let key = Secp256k1PrivateKey::from_u64(1u64).unwrap().public_key();
    let validator = w.sim.get_active_validator_with_key(&key);
    let info = w.sim.get_validator_info(validator);
    let (pool, pool_unit) = w.sim.create_one_resource_pool(w.fungibles[0].address, rule!(allow_all));
    // accounts 1 and 2 start with stake units and pool units, account 2 also with an unstake claim
    let f0 = w.fungibles[0].address;
    for i in [1usize, 2] {
        let a = w.accounts[i].address;
        let m = ManifestBuilder::new()
            .lock_fee_from_faucet()
            .withdraw_from_account(a, XRD, dec!(300))
            .take_all_from_worktop(XRD, "x")
            .stake_validator(validator, "x")
            .withdraw_from_account(a, f0, dec!("777.5"))
            .take_all_from_worktop(f0, "f")
            .call_method_with_name_lookup(pool, "contribute", |l| (l.bucket("f"),))
            .deposit_entire_worktop(a)
            .build();
        w.sim.execute_manifest(m, vec![w.accounts[i].badge()]).expect_commit_success();
    }
    {
        let a = w.accounts[2].address;
        let m = ManifestBuilder::new()
            .lock_fee_from_faucet()
            .withdraw_from_account(a, info.stake_unit_resource, dec!(40))
            .take_all_from_worktop(info.stake_unit_resource, "u")
            .unstake_validator(validator, "u")
            .deposit_entire_worktop(a)
            .build();
        w.sim.execute_manifest(m, vec![w.accounts[2].badge()]).expect_commit_success();
    }
    let mut base_replay = Replay::default();
    let events = w.sim.collected_events();
    for tx in events.iter() {
        for e in tx {
            base_replay.apply(e);
        }
    }
    let base_events = events.len();
    w.set_ext(Ext { validator, lsu: info.stake_unit_resource, claim_nft: info.claim_nft, pool, pool_unit, base_replay, base_events });
}

/// Per-world extras created once by `build` (addresses are stable across resets).
#[derive(Clone)]
pub struct Ext {
    pub validator: ComponentAddress,
    pub lsu: ResourceAddress,
    pub claim_nft: ResourceAddress,
    pub pool: ComponentAddress,
    pub pool_unit: ResourceAddress,
    /// event model of the frozen world (all events from genesis on)
    pub base_replay: Replay,
    pub base_events: usize,
}

/// Hand-built transactions over components the manifest model does not cover (validator, pool).
#[derive(Clone, Debug)]
pub enum Opaque {
    Stake { acct: usize, xrd: A },
    Unstake { acct: usize, part: u64 },
    Claim { acct: usize },
    Contribute { acct: usize, amount: A },
    Redeem { acct: usize, part: u64 },
    /// fee lock far too small: rejected
    FeeTooLow { acct: usize },
    /// no fee lock at all: rejected
    NoFee { acct: usize },
    /// pool manager call `protected_withdraw(amount, strategy)` on the world's one-resource pool
    /// (manager rule = allow_all), the bucket deposited into the account; strategy 0 = Exact,
    /// 1..=7 = Rounded(mode)
    ProtectedWithdraw { acct: usize, amount: A, strategy: u8 },
}

pub fn withdraw_strategy(k: u8) -> WithdrawStrategy {
    match k {
        0 => WithdrawStrategy::Exact,
        1 => WithdrawStrategy::Rounded(RoundingMode::ToZero),
        2 => WithdrawStrategy::Rounded(RoundingMode::ToPositiveInfinity),
        3 => WithdrawStrategy::Rounded(RoundingMode::ToNegativeInfinity),
        4 => WithdrawStrategy::Rounded(RoundingMode::AwayFromZero),
        5 => WithdrawStrategy::Rounded(RoundingMode::ToNearestMidpointTowardZero),
        6 => WithdrawStrategy::Rounded(RoundingMode::ToNearestMidpointAwayFromZero),
        _ => WithdrawStrategy::Rounded(RoundingMode::ToNearestMidpointToEven),
    }
}

/// What an opaque transaction must not do whatever the ledger state: a withdrawal of a negative
/// amount can never succeed.
pub fn opaque_expectation(op: &Opaque, obs: &Obs) -> Result<(), Failure> {
    if let Opaque::ProtectedWithdraw { amount, .. } = op {
        if *amount < 0 && obs.run.is_success() {
            return Err(fail("a withdrawal of a negative amount succeeded", format!("{:?} ; actual: {}", op, obs.run.outcome_string())));
        }
    }
    Ok(())
}

pub struct Session<'w> {
    pub w: &'w mut World,
    pub wd: Wd,
    pub led: Ledger,
    pub totals: Totals,
}

impl<'w> Session<'w> {
    pub fn new(w: &'w mut World) -> Session<'w> {
        let wd = Wd::of(w);
        let totals = Totals::scan(w.db());
        let mut led = Ledger::default();
        led.sync(w.db(), &wd, &totals);
        Session { w, wd, led, totals }
    }

    /// Generate one manifest against the current state and execute it.
    pub fn step(&mut self, g: &mut Gen, prof: &Profile) -> (Plan, Obs, Ledger) {
        let plan = generate(g, &self.wd, &self.led, prof);
        let manifest = plan.manifest(&self.wd, &self.led);
        let obs = execute(self.w, self.totals.clone(), manifest, plan.proofs(&self.wd));
        let led_before = self.led.clone();
        self.absorb(&obs, plan.next_id);
        (plan, obs, led_before)
    }

    /// Execute a hand-built manifest (not modelled).
    pub fn run_raw(&mut self, manifest: TransactionManifestV1, proofs: Vec<NonFungibleGlobalId>) -> Obs {
        let obs = execute(self.w, self.totals.clone(), manifest, proofs);
        let n = self.led.next_id;
        self.absorb(&obs, n);
        obs
    }

    /// Re-read the generator's knowledge after something changed the ledger.
    pub fn absorb(&mut self, obs: &Obs, next_id: u64) {
        self.totals = obs.after.clone();
        self.led.next_id = next_id;
        if let Some(c) = obs.run.commit() {
            for e in &c.application_events {
                if let Ok(Some(Ev::BurnN(r, ids))) = decode_event(e) {
                    if let Some(ri) = self.wd.res_index(&r) {
                        self.led.dead_ids.entry(ri).or_default().extend(ids);
                    }
                }
            }
        }
        self.led.sync(self.w.db(), &self.wd, &self.totals);
    }
    pub fn ext(&self) -> Ext {
        self.w.ext::<Ext>().clone()
    }

    fn held(&self, acct: usize, res: &ResourceAddress) -> A {
        match account_vault(self.w.db(), &self.wd.accounts[acct].0, res) {
            Some(v) => {
                if let Some(x) = self.totals.fungible_vaults.get(&v) {
                    atto(x.1)
                } else if let Some(x) = self.totals.non_fungible_vaults.get(&v) {
                    x.2.len() as A * ONE
                } else {
                    0
                }
            }
            None => 0,
        }
    }

    /// Decode and run one opaque transaction.
    pub fn opaque(&mut self, g: &mut Gen) -> (Opaque, Obs) {
        let ext = self.ext();
        let acct = g.index(self.wd.accounts.len());
        let a = self.wd.accounts[acct].0;
        let op = match g.weighted(&[4, 3, 2, 3, 3, 1, 1, 3]) {
            0 => Opaque::Stake { acct, xrd: (1 + g.below(200) as A) * ONE / 4 },
            1 => Opaque::Unstake { acct, part: 1 + g.below(4) },
            2 => Opaque::Claim { acct },
            3 => Opaque::Contribute { acct, amount: (1 + g.below(3000) as A) * ONE / 7 },
            4 => Opaque::Redeem { acct, part: 1 + g.below(4) },
            5 => Opaque::FeeTooLow { acct },
            6 => Opaque::NoFee { acct },
            _ => {
                let amount = match g.weighted(&[4, 3, 1, 1, 1, 1]) {
                    0 => (1 + g.below(400) as A) * ONE / 3,
                    1 => -((1 + g.below(50) as A) * ONE / 10),
                    2 => -1,
                    3 => 0,
                    4 => 1,
                    _ => 10_000_000 * ONE,
                };
                Opaque::ProtectedWithdraw { acct, amount, strategy: g.below(8) as u8 }
            }
        };
        let b = ManifestBuilder::new();
        let manifest = match &op {
            Opaque::Stake { xrd, .. } => b
                .lock_fee_from_faucet()
                .withdraw_from_account(a, XRD, dec(*xrd))
                .take_all_from_worktop(XRD, "b")
                .stake_validator(ext.validator, "b")
                .deposit_entire_worktop(a)
                .build(),
            Opaque::Unstake { part, .. } => {
                let have = self.held(acct, &ext.lsu);
                b.lock_fee_from_faucet()
                    .withdraw_from_account(a, ext.lsu, dec(have / *part as A))
                    .take_all_from_worktop(ext.lsu, "b")
                    .unstake_validator(ext.validator, "b")
                    .deposit_entire_worktop(a)
                    .build()
            }
            Opaque::Claim { .. } => {
                let have = self.held(acct, &ext.claim_nft);
                b.lock_fee_from_faucet()
                    .withdraw_from_account(a, ext.claim_nft, dec(have.min(ONE)))
                    .take_all_from_worktop(ext.claim_nft, "b")
                    .claim_xrd(ext.validator, "b")
                    .deposit_entire_worktop(a)
                    .build()
            }
            Opaque::Contribute { amount, .. } => b
                .lock_fee_from_faucet()
                .withdraw_from_account(a, self.wd.res[2].addr, dec(*amount))
                .take_all_from_worktop(self.wd.res[2].addr, "b")
                .call_method_with_name_lookup(ext.pool, "contribute", |l| (l.bucket("b"),))
                .deposit_entire_worktop(a)
                .build(),
            Opaque::Redeem { part, .. } => {
                let have = self.held(acct, &ext.pool_unit);
                b.lock_fee_from_faucet()
                    .withdraw_from_account(a, ext.pool_unit, dec(have / *part as A))
                    .take_all_from_worktop(ext.pool_unit, "b")
                    .call_method_with_name_lookup(ext.pool, "redeem", |l| (l.bucket("b"),))
                    .deposit_entire_worktop(a)
                    .build()
            }
            Opaque::FeeTooLow { .. } => b.lock_fee(a, dec(ONE / 1_000_000)).withdraw_from_account(a, XRD, dec(ONE)).deposit_entire_worktop(a).build(),
            Opaque::NoFee { .. } => b.withdraw_from_account(a, XRD, dec(ONE)).deposit_entire_worktop(a).build(),
            Opaque::ProtectedWithdraw { amount, strategy, .. } => b
                .lock_fee_from_faucet()
                .call_method(ext.pool, "protected_withdraw", (dec(*amount), withdraw_strategy(*strategy)))
                .deposit_entire_worktop(a)
                .build(),
        };
        let proofs = vec![self.wd.accounts[acct].1.clone()];
        let obs = self.run_raw(manifest, proofs);
        (op, obs)
    }

    /// One consensus round (with the default genesis every round ends the epoch: emissions).
    pub fn next_round(&mut self) -> Obs {
        let before = self.totals.clone();
        let sim = &mut self.w.sim;
        let r = vf_core::catch(move || {
            let cur = sim.get_consensus_manager_state().round.number();
            sim.advance_to_round(Round::of(cur + 1))
        });
        let run = match r {
            Ok(receipt) => Run { receipt: Some(receipt), panic: None },
            Err(p) => Run { receipt: None, panic: Some(p) },
        };
        let after = Totals::scan(self.w.db());
        let obs = Obs { before, after, run };
        let n = self.led.next_id;
        self.absorb(&obs, n);
        obs
    }

    pub fn rescan(&mut self) {
        self.totals = Totals::scan(self.w.db());
        self.led.sync(self.w.db(), &self.wd, &self.totals);
    }
}

pub fn label_plan(g: &mut Gen, plan: &Plan, outcome: Outcome3) {
    match (&plan.predicted, outcome) {
        (Ok(()), _) => g.label("predicted_success"),
        (Err((i, _)), Outcome3::Rejected) => {
            let _ = i;
            g.label("predicted_failure_rejected")
        }
        (Err((i, _)), _) => {
            if *i == plan.ins.len() {
                g.label("predicted_failure_at_end")
            } else {
                g.label("predicted_failure_in_body")
            }
        }
    }
    if let Err((_, why)) = &plan.predicted {
        g.label(why_label(why));
    }
    if plan.faults > 0 {
        g.label("fault_injected");
    }
}

fn why_label(why: Why) -> &'static str {
    match why {
        "auth" => "fail:auth",
        "novault" => "fail:novault",
        "frozen" => "fail:frozen",
        "invalid_amount" => "fail:invalid_amount",
        "insufficient" => "fail:insufficient",
        "wt_insufficient" => "fail:worktop_insufficient",
        "assertion" => "fail:assertion",
        "nobucket" => "fail:stale_bucket",
        "noproof" => "fail:stale_proof",
        "zone_empty" => "fail:zone_empty",
        "locked" => "fail:locked",
        "exists" => "fail:id_exists",
        "emptyproof" => "fail:empty_proof",
        "insufficient_proofs" => "fail:insufficient_proofs",
        "leftover_worktop" => "fail:leftover_worktop",
        "orphan" => "fail:leftover_bucket",
        "deposit" => "fail:deposit",
        "fee_touched" => "fail:fee_lock_on_touched_vault",
        _ => "fail:other",
    }
}

pub fn try_f<T>(r: Result<T, Failure>) -> Result<T, vf_core::Outcome> {
    r.map_err(vf_core::Outcome::Fail)
}
