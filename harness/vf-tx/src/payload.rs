//! Uniform view over every transaction payload kind: raw bytes, decode + re-encode through the
//! model, `prepare` + the named hashes, and the reference hashes where the scheme is documented.

use crate::refhash;
use crate::txgen::*;
use radix_common::prelude::*;
use radix_transactions::prelude::*;
use vf_core::{catch, Gen};

#[derive(Clone, Copy, Debug, PartialEq, Eq)]
pub enum Kind {
    NotarizedV1,
    NotarizedV2,
    UserV1,
    UserV2,
    SignedPartialV2,
    PartialV2,
    PreviewV2,
    SystemV1,
    RoundUpdateV1,
    FlashV1,
    Ledger,
    IntentV1,
    SignedIntentV1,
    SubintentV2,
    TransactionIntentV2,
    SignedTransactionIntentV2,
}

impl Kind {
    pub fn name(&self) -> &'static str {
        match self {
            Kind::NotarizedV1 => "notarized v1",
            Kind::NotarizedV2 => "notarized v2",
            Kind::UserV1 => "user (v1)",
            Kind::UserV2 => "user (v2)",
            Kind::SignedPartialV2 => "signed partial v2",
            Kind::PartialV2 => "partial v2",
            Kind::PreviewV2 => "preview v2",
            Kind::SystemV1 => "system v1",
            Kind::RoundUpdateV1 => "round update v1",
            Kind::FlashV1 => "flash v1",
            Kind::Ledger => "ledger",
            Kind::IntentV1 => "intent v1",
            Kind::SignedIntentV1 => "signed intent v1",
            Kind::SubintentV2 => "subintent v2",
            Kind::TransactionIntentV2 => "transaction intent v2",
            Kind::SignedTransactionIntentV2 => "signed transaction intent v2",
        }
    }
    /// The payload discriminator byte (raw[2]) of this kind.
    pub fn discriminator(&self) -> u8 {
        match self {
            Kind::IntentV1 => 1,
            Kind::SignedIntentV1 => 2,
            Kind::NotarizedV1 | Kind::UserV1 => 3,
            Kind::SystemV1 => 4,
            Kind::RoundUpdateV1 => 5,
            Kind::Ledger => 7,
            Kind::FlashV1 => 8,
            Kind::TransactionIntentV2 => 9,
            Kind::SignedTransactionIntentV2 => 10,
            Kind::SubintentV2 => 11,
            Kind::NotarizedV2 | Kind::UserV2 => 12,
            Kind::PartialV2 => 13,
            Kind::SignedPartialV2 => 14,
            Kind::PreviewV2 => 15,
        }
    }
}

pub struct Case {
    pub kind: Kind,
    pub raw: Vec<u8>,
    /// Reference hashes aligned with the vector `prepare_hashes` returns (None where the harness has
    /// no reference for that position).
    pub expected: Vec<Option<Hash>>,
    pub has_subintents: bool,
    pub render: String,
}

fn reenc<T: TransactionPayload>(raw: &[u8]) -> Result<Vec<u8>, String> {
    let r: T::Raw = raw.to_vec().into();
    let m = catch(|| T::from_raw(&r)).map_err(|p| format!("PANIC {}", p))?.map_err(|e| format!("{:?}", e))?;
    let out = catch(|| m.to_raw()).map_err(|p| format!("PANIC {}", p))?.map_err(|e| format!("encode {:?}", e))?;
    Ok(out.into())
}

/// Decodes `raw` into the model of `kind` and encodes it again. Err = not decodable (a panic is
/// reported with the prefix "PANIC").
pub fn decode_reencode(kind: Kind, raw: &[u8]) -> Result<Vec<u8>, String> {
    match kind {
        Kind::NotarizedV1 => reenc::<NotarizedTransactionV1>(raw),
        Kind::NotarizedV2 => reenc::<NotarizedTransactionV2>(raw),
        Kind::UserV1 | Kind::UserV2 => {
            let r = RawNotarizedTransaction::from_vec(raw.to_vec());
            let m = catch(|| UserTransaction::from_raw(&r)).map_err(|p| format!("PANIC {}", p))?.map_err(|e| format!("{:?}", e))?;
            let out = match m {
                UserTransaction::V1(t) => t.to_raw(),
                UserTransaction::V2(t) => t.to_raw(),
            };
            Ok(out.map_err(|e| format!("encode {:?}", e))?.to_vec())
        }
        Kind::SignedPartialV2 => reenc::<SignedPartialTransactionV2>(raw),
        Kind::PartialV2 => reenc::<PartialTransactionV2>(raw),
        Kind::PreviewV2 => reenc::<PreviewTransactionV2>(raw),
        Kind::SystemV1 => reenc::<SystemTransactionV1>(raw),
        Kind::RoundUpdateV1 => reenc::<RoundUpdateTransactionV1>(raw),
        Kind::FlashV1 => reenc::<FlashTransactionV1>(raw),
        Kind::Ledger => reenc::<LedgerTransaction>(raw),
        Kind::IntentV1 => reenc::<IntentV1>(raw),
        Kind::SignedIntentV1 => reenc::<SignedIntentV1>(raw),
        Kind::SubintentV2 => reenc::<SubintentV2>(raw),
        Kind::TransactionIntentV2 => reenc::<TransactionIntentV2>(raw),
        Kind::SignedTransactionIntentV2 => reenc::<SignedTransactionIntentV2>(raw),
    }
}

fn user_hashes(h: &UserTransactionHashes) -> Vec<Hash> {
    let mut v = vec![h.notarized_transaction_hash.0, h.signed_transaction_intent_hash.0, h.transaction_intent_hash.0];
    v.extend(h.non_root_subintent_hashes.iter().map(|s| s.0));
    v
}

/// `prepare` of the payload kind; returns the named hashes, the top-level identifier first.
/// Err(Ok(e)) = rejected with PrepareError e, Err(Err(p)) = panicked.
pub fn prepare_hashes(kind: Kind, raw: &[u8], s: &PreparationSettings) -> Result<Vec<Hash>, Result<PrepareError, String>> {
    let r = catch(|| -> Result<Vec<Hash>, PrepareError> {
        Ok(match kind {
            Kind::NotarizedV1 => user_hashes(&PreparedNotarizedTransactionV1::prepare(&raw.to_vec().into(), s)?.hashes()),
            Kind::NotarizedV2 => user_hashes(&PreparedNotarizedTransactionV2::prepare(&raw.to_vec().into(), s)?.hashes()),
            Kind::UserV1 | Kind::UserV2 => user_hashes(&RawNotarizedTransaction::from_vec(raw.to_vec()).prepare(s)?.hashes()),
            Kind::SignedPartialV2 => {
                let p = PreparedSignedPartialTransactionV2::prepare(&raw.to_vec().into(), s)?;
                let mut v = vec![p.get_summary().hash, p.subintent_hash().0];
                v.extend(p.non_root_subintent_hashes().map(|h| h.0));
                v
            }
            Kind::PartialV2 => {
                let p = PreparedPartialTransactionV2::prepare(&raw.to_vec().into(), s)?;
                let mut v = vec![p.get_summary().hash, p.subintent_hash().0];
                v.extend(p.non_root_subintent_hashes().map(|h| h.0));
                v
            }
            Kind::PreviewV2 => {
                let p = PreparedPreviewTransactionV2::prepare(&raw.to_vec().into(), s)?;
                let mut v = vec![p.get_summary().hash, p.transaction_intent.transaction_intent_hash().0];
                v.extend(p.transaction_intent.non_root_subintent_hashes().iter().map(|h| h.0));
                v
            }
            Kind::SystemV1 => vec![PreparedSystemTransactionV1::prepare(&raw.to_vec().into(), s)?.system_transaction_hash().0],
            Kind::RoundUpdateV1 => vec![PreparedRoundUpdateTransactionV1::prepare(&raw.to_vec().into(), s)?.round_update_transaction_hash().0],
            Kind::FlashV1 => vec![PreparedFlashTransactionV1::prepare(&raw.to_vec().into(), s)?.flash_transaction_hash().0],
            Kind::Ledger => {
                let p = PreparedLedgerTransaction::prepare(&raw.to_vec().into(), s)?;
                let hs = p.create_hashes();
                let mut v = vec![hs.ledger_transaction_hash.0];
                match &hs.kinded {
                    KindedTransactionHashes::Genesis { system_transaction_hash } => v.push(system_transaction_hash.0),
                    KindedTransactionHashes::User(u) => v.extend(user_hashes(u)),
                    KindedTransactionHashes::RoundUpdateV1 { round_update_hash } => v.push(round_update_hash.0),
                    KindedTransactionHashes::FlashV1 { flash_transaction_hash } => v.push(flash_transaction_hash.0),
                }
                v
            }
            Kind::IntentV1 => vec![PreparedIntentV1::prepare(&raw.to_vec().into(), s)?.transaction_intent_hash().0],
            Kind::SignedIntentV1 => {
                let p = PreparedSignedIntentV1::prepare(&raw.to_vec().into(), s)?;
                vec![p.signed_transaction_intent_hash().0, p.transaction_intent_hash().0]
            }
            Kind::SubintentV2 => vec![PreparedSubintentV2::prepare(&raw.to_vec().into(), s)?.subintent_hash().0],
            Kind::TransactionIntentV2 => {
                let p = PreparedTransactionIntentV2::prepare(&raw.to_vec().into(), s)?;
                let mut v = vec![p.transaction_intent_hash().0];
                v.extend(p.non_root_subintent_hashes().iter().map(|h| h.0));
                v
            }
            Kind::SignedTransactionIntentV2 => {
                let p = PreparedSignedTransactionIntentV2::prepare(&raw.to_vec().into(), s)?;
                let mut v = vec![p.signed_transaction_intent_hash().0, p.transaction_intent_hash().0];
                v.extend(p.non_root_subintent_hashes().iter().map(|h| h.0));
                v
            }
        })
    });
    match r {
        Ok(Ok(v)) => Ok(v),
        Ok(Err(e)) => Err(Ok(e)),
        Err(p) => Err(Err(p)),
    }
}

fn some(v: Vec<Hash>) -> Vec<Option<Hash>> {
    v.into_iter().map(Some).collect()
}

pub fn expected_v1(t: &NotarizedTransactionV1) -> Vec<Option<Hash>> {
    let h = refhash::v1(t);
    some(vec![h.notarized, h.signed, h.intent])
}

pub fn expected_v2(t: &NotarizedTransactionV2) -> Vec<Option<Hash>> {
    let h = refhash::v2(t);
    let mut v = vec![h.notarized, h.signed, h.intent];
    v.extend(h.subintents);
    some(v)
}

pub fn expected_partial(p: &PartialTransactionV2) -> Vec<Option<Hash>> {
    let (r, subs) = refhash::partial(p);
    let mut v = vec![None, Some(r)];
    v.extend(subs.into_iter().map(Some));
    v
}

fn raw_of<T: TransactionPayload>(m: &T) -> Vec<u8> {
    m.to_raw().expect("generated transaction is encodable").into()
}

pub fn case_v1(kind: Kind, b: &BuiltV1) -> Case {
    Case {
        kind,
        raw: raw_of(&b.tx),
        expected: expected_v1(&b.tx),
        has_subintents: false,
        render: format!(
            "V1 tx: {} instructions, {} blobs, message {}, signers [{}], notary {} signatory={}",
            b.tx.signed_intent.intent.instructions.0.len(),
            b.tx.signed_intent.intent.blobs.blobs.len(),
            message_kind_v1(&b.tx.signed_intent.intent.message),
            short_keys(&b.signers),
            b.notary.short(),
            b.tx.signed_intent.intent.header.notary_is_signatory
        ),
    }
}

pub fn message_kind_v1(m: &MessageV1) -> &'static str {
    match m {
        MessageV1::None => "none",
        MessageV1::Plaintext(_) => "plaintext",
        MessageV1::Encrypted(_) => "encrypted",
    }
}

pub fn message_kind_v2(m: &MessageV2) -> &'static str {
    match m {
        MessageV2::None => "none",
        MessageV2::Plaintext(_) => "plaintext",
        MessageV2::Encrypted(_) => "encrypted",
    }
}

pub fn render_v2(b: &BuiltV2) -> String {
    let ti = &b.tx.signed_transaction_intent.transaction_intent;
    format!(
        "V2 tx: {} subintents parents={:?} yields={:?}, root: {} instructions, {} blobs, message {}, root signers [{}], subintent signers [{}], notary {} signatory={}",
        b.plan.len(),
        b.plan.parent,
        b.plan.yields,
        ti.root_intent_core.instructions.0.len(),
        ti.root_intent_core.blobs.blobs.len(),
        message_kind_v2(&ti.root_intent_core.message),
        short_keys(&b.root_signers),
        b.sub_signers.iter().map(|s| short_keys(s)).collect::<Vec<_>>().join(" | "),
        b.notary.short(),
        ti.transaction_header.notary_is_signatory
    )
}

pub fn case_v2(kind: Kind, b: &BuiltV2) -> Case {
    Case { kind, raw: raw_of(&b.tx), expected: expected_v2(&b.tx), has_subintents: !b.plan.is_empty(), render: render_v2(b) }
}

pub fn render_partial(b: &BuiltPartial) -> String {
    format!(
        "signed partial tx: {} non-root subintents parents={:?} yields={:?}, root signers [{}], subintent signers [{}]",
        b.plan.len(),
        b.plan.parent,
        b.plan.yields,
        short_keys(&b.root_signers),
        b.sub_signers.iter().map(|s| short_keys(s)).collect::<Vec<_>>().join(" | ")
    )
}

/// A generated payload of a random kind.
pub fn gen_case(g: &mut Gen, o: &Opts) -> Case {
    match g.weighted(&[4, 6, 2, 2, 3, 1, 2, 1, 1, 1, 3, 1, 1, 1, 1, 1]) {
        0 => case_v1(Kind::NotarizedV1, &gen_v1(g, o)),
        1 => case_v2(Kind::NotarizedV2, &gen_v2(g, o)),
        2 => case_v1(Kind::UserV1, &gen_v1(g, o)),
        3 => case_v2(Kind::UserV2, &gen_v2(g, o)),
        4 => {
            let b = gen_partial(g, o);
            Case { kind: Kind::SignedPartialV2, raw: raw_of(&b.tx), expected: expected_partial(&b.tx.partial_transaction), has_subintents: true, render: render_partial(&b) }
        }
        5 => {
            let b = gen_partial(g, o);
            Case {
                kind: Kind::PartialV2,
                raw: raw_of(&b.tx.partial_transaction),
                expected: expected_partial(&b.tx.partial_transaction),
                has_subintents: true,
                render: format!("unsigned {}", render_partial(&b)),
            }
        }
        6 => {
            let p = gen_preview_v2(g, o);
            let (ih, subs) = refhash::v2_intent(&p.transaction_intent);
            let mut expected = vec![None, Some(ih)];
            expected.extend(subs.iter().map(|h| Some(*h)));
            Case {
                kind: Kind::PreviewV2,
                raw: raw_of(&p),
                expected,
                has_subintents: !subs.is_empty(),
                render: format!("preview v2: {} subintents, {} root signer keys", subs.len(), p.root_signer_public_keys.len()),
            }
        }
        7 => {
            let t = gen_system_v1(g, o);
            Case {
                kind: Kind::SystemV1,
                raw: raw_of(&t),
                expected: vec![None],
                has_subintents: false,
                render: format!("system v1: {} instructions, {} preallocated", t.instructions.0.len(), t.pre_allocated_addresses.len()),
            }
        }
        8 => {
            let t = gen_round_update(g);
            Case { kind: Kind::RoundUpdateV1, raw: raw_of(&t), expected: vec![None], has_subintents: false, render: format!("{:?}", t) }
        }
        9 => {
            let t = gen_flash(g);
            Case { kind: Kind::FlashV1, raw: raw_of(&t), expected: vec![None], has_subintents: false, render: format!("flash {:?}", t.name) }
        }
        10 => {
            let t = gen_ledger(g, o);
            let (expected, has_subintents, what) = match &t {
                LedgerTransaction::UserV1(u) => {
                    let mut e = vec![None];
                    e.extend(expected_v1(u));
                    (e, false, "user v1")
                }
                LedgerTransaction::UserV2(u) => {
                    let mut e = vec![None];
                    e.extend(expected_v2(u));
                    (e, !u.signed_transaction_intent.transaction_intent.non_root_subintents.0.is_empty(), "user v2")
                }
                LedgerTransaction::Genesis(_) => (vec![None, None], false, "genesis"),
                LedgerTransaction::RoundUpdateV1(_) => (vec![None, None], false, "round update"),
                LedgerTransaction::FlashV1(_) => (vec![None, None], false, "flash"),
            };
            Case { kind: Kind::Ledger, raw: raw_of(&t), expected, has_subintents, render: format!("ledger transaction ({})", what) }
        }
        11 => {
            let b = gen_v1(g, o);
            let i = b.tx.signed_intent.intent;
            Case { kind: Kind::IntentV1, raw: raw_of(&i), expected: vec![Some(refhash::v1_intent(&i))], has_subintents: false, render: "bare intent v1".into() }
        }
        12 => {
            let b = gen_v1(g, o);
            let s = b.tx.signed_intent;
            Case {
                kind: Kind::SignedIntentV1,
                raw: raw_of(&s),
                expected: vec![Some(refhash::v1_signed(&s)), Some(refhash::v1_intent(&s.intent))],
                has_subintents: false,
                render: "bare signed intent v1".into(),
            }
        }
        13 => {
            let b = gen_partial(g, o);
            let s = b.tx.partial_transaction.root_subintent;
            Case { kind: Kind::SubintentV2, raw: raw_of(&s), expected: vec![Some(refhash::subintent(&s))], has_subintents: true, render: "bare subintent v2".into() }
        }
        14 => {
            let b = gen_v2(g, o);
            let t = b.tx.signed_transaction_intent.transaction_intent;
            let (ih, subs) = refhash::v2_intent(&t);
            let mut expected = vec![Some(ih)];
            expected.extend(subs.iter().map(|h| Some(*h)));
            Case { kind: Kind::TransactionIntentV2, raw: raw_of(&t), expected, has_subintents: !subs.is_empty(), render: "bare transaction intent v2".into() }
        }
        _ => {
            let b = gen_v2(g, o);
            let t = b.tx.signed_transaction_intent;
            let (sh, ih, subs) = refhash::v2_signed(&t);
            let mut expected = vec![Some(sh), Some(ih)];
            expected.extend(subs.iter().map(|h| Some(*h)));
            Case { kind: Kind::SignedTransactionIntentV2, raw: raw_of(&t), expected, has_subintents: !subs.is_empty(), render: "bare signed transaction intent v2".into() }
        }
    }
}
