//! C06 part (a): fee reserve arithmetic.
//!
//! `SystemLoanFeeReserve` is driven directly, in the order the engine drives it (deferred costs,
//! then execution-phase consume_execution / lock_fee / consume_royalty, then — on success —
//! finalization and storage costs; the first error ends the run; `repay_all` as
//! `determine_result_type` calls it; `revert_royalty` on a failed commit; `finalize`), with
//! generated costing parameters, tips and amounts. The oracle is a bigint model that charges the
//! *ideal* price `units * price * (1 + tip)` (kept exact by scaling every amount by 10^4, the
//! denominator of a basis-point tip) and re-plays the payment loop of `finalize_fees_for_commit`.
//!
//! Where every product of the generated parameters is a whole number of attos ("exact" cases:
//! always so for the protocol prices) the real reserve has to agree with the model step by step
//! and field by field. Where it is not (only possible with non-protocol prices) just the
//! statement-level facts are required: limits respected, no panic, and whenever the reserve
//! reports the loan repaid the locked fees and free credit cover `total_cost()` and are split
//! exactly. Failures carry a suffix naming every non-protocol aspect of the configuration.

use num_bigint::BigInt;
use num_traits::{Signed, Zero};
use radix_common::prelude::*;
use radix_engine::system::system_modules::costing::{
    ExecutionFeeReserve, FeeReserveError, FeeReserveFinalizationSummary, FinalizingFeeReserve, PreExecutionFeeReserve, RoyaltyRecipient, StorageType, SystemLoanFeeReserve,
};
use radix_engine::transaction::CostingParameters;
use radix_engine_interface::blueprints::resource::LiquidFungibleResource;
use radix_transactions::model::{TipSpecifier, TransactionCostingParameters};
use radix_transactions::validation::TransactionValidationConfig;
use vf_core::{catch, ensure, Check, Gen, Outcome, Part};
use crate::dec::{big_to_dec, dec_fits, dec_to_big};

/// Denominator of a basis-point tip: amounts in the model are attos * SCALE.
const SCALE: u64 = 10_000;

fn big(v: u64) -> BigInt {
    BigInt::from(v)
}
fn xrd(whole: u64) -> BigInt {
    BigInt::from(whole) * BigInt::from(10u64).pow(18)
}
fn dec(attos: &BigInt) -> Decimal {
    assert!(dec_fits(attos));
    big_to_dec(attos)
}

// ------------------------------------------------------------------------------------------
// the model

#[derive(Clone, Debug, PartialEq, Eq)]
enum RErr {
    /// required / remaining in attos * SCALE
    Insufficient { required: BigInt, remaining: BigInt },
    /// cost unit limit (or the u32 counter) would be exceeded
    Limit,
    LoanNotRepaid { owed: BigInt },
    Abort,
    /// amount not representable
    Overflow,
}

#[derive(Clone, Debug)]
struct Params {
    pe: BigInt,
    pf: BigInt,
    usd: BigInt,
    p_state: BigInt,
    p_archive: BigInt,
    limit_e: u32,
    loan: u32,
    limit_f: u32,
    bp: u64,
    free_credit: BigInt,
    abort_when_repaid: bool,
}

#[derive(Clone, Debug)]
struct Model {
    p: Params,
    /// balance and outstanding loan, attos * SCALE
    b: BigInt,
    owed: BigInt,
    e: u32,
    f: u32,
    ed: u32,
    fd: u32,
    sdef: Vec<(StorageType, usize)>,
    /// storage and royalty cost, attos
    s: BigInt,
    r: BigInt,
    rb: Vec<(usize, BigInt)>,
    locks: Vec<(usize, BigInt, bool)>,
}

impl Model {
    fn new(p: Params) -> Model {
        let loan = &p.pe * big(SCALE + p.bp) * big(p.loan as u64);
        let b = &loan + &p.free_credit * big(SCALE);
        Model { p, b, owed: loan, e: 0, f: 0, ed: 0, fd: 0, sdef: vec![], s: BigInt::zero(), r: BigInt::zero(), rb: vec![], locks: vec![] }
    }
    fn charge(&mut self, amount_scaled: BigInt) -> Result<(), RErr> {
        if self.b < amount_scaled {
            return Err(RErr::Insufficient { required: amount_scaled, remaining: self.b.clone() });
        }
        self.b -= amount_scaled;
        Ok(())
    }
    fn exec_internal(&mut self, u: u32) -> Result<(), RErr> {
        match self.e.checked_add(u) {
            Some(t) if t <= self.p.limit_e => {}
            _ => return Err(RErr::Limit),
        }
        self.charge(&self.p.pe * big(SCALE + self.p.bp) * big(u as u64))?;
        self.e += u;
        Ok(())
    }
    fn fin_internal(&mut self, u: u32) -> Result<(), RErr> {
        match self.f.checked_add(u) {
            Some(t) if t <= self.p.limit_f => {}
            _ => return Err(RErr::Limit),
        }
        self.charge(&self.p.pf * big(SCALE + self.p.bp) * big(u as u64))?;
        self.f += u;
        Ok(())
    }
    fn storage(&mut self, t: StorageType, size: usize) -> Result<(), RErr> {
        let price = match t {
            StorageType::State => &self.p.p_state,
            StorageType::Archive => &self.p.p_archive,
        };
        let amount = price * big(size as u64);
        if !dec_fits(&amount) {
            return Err(RErr::Overflow);
        }
        self.charge(&amount * big(SCALE))?;
        self.s += amount;
        Ok(())
    }
    fn repay_all(&mut self) -> Result<(), RErr> {
        self.exec_internal(self.ed)?;
        self.ed = 0;
        self.fin_internal(self.fd)?;
        self.fd = 0;
        while let Some((t, size)) = self.sdef.first().cloned() {
            self.storage(t, size)?;
            self.sdef.remove(0);
        }
        let amount = self.b.clone().min(self.owed.clone());
        self.owed -= &amount;
        self.b -= &amount;
        if !self.owed.is_zero() {
            return Err(RErr::LoanNotRepaid { owed: self.owed.clone() });
        }
        if self.p.abort_when_repaid {
            return Err(RErr::Abort);
        }
        Ok(())
    }
    fn consume_execution(&mut self, u: u32) -> Result<(), RErr> {
        if u == 0 {
            return Ok(());
        }
        self.exec_internal(u)?;
        if !self.owed.is_zero() && self.e >= self.p.loan {
            self.repay_all()?;
        }
        Ok(())
    }
    fn consume_finalization(&mut self, u: u32) -> Result<(), RErr> {
        if u == 0 {
            return Ok(());
        }
        self.fin_internal(u)
    }
    fn defer_storage(&mut self, t: StorageType, size: usize) {
        if let Some(x) = self.sdef.iter_mut().find(|x| x.0 == t) {
            x.1 += size;
        } else {
            self.sdef.push((t, size));
        }
    }
    /// amount in attos (already converted from USD where applicable)
    fn royalty(&mut self, amount: BigInt, recipient: usize) -> Result<(), RErr> {
        if amount.is_zero() {
            return Ok(());
        }
        self.charge(&amount * big(SCALE))?;
        if let Some(x) = self.rb.iter_mut().find(|x| x.0 == recipient) {
            x.1 += &amount;
        } else {
            self.rb.push((recipient, amount.clone()));
        }
        self.r += amount;
        Ok(())
    }
    fn lock(&mut self, vault: usize, amount: BigInt, contingent: bool) {
        if !contingent {
            self.b += &amount * big(SCALE);
        }
        self.locks.push((vault, amount, contingent));
    }
    fn revert_royalty(&mut self) {
        self.b += &self.r * big(SCALE);
        self.r = BigInt::zero();
        self.rb.clear();
    }
    /// What still has to come in (attos, rounded up) for `repay_all` to succeed right now.
    fn deficit(&self) -> BigInt {
        let mut need = self.owed.clone();
        need += &self.p.pe * big(SCALE + self.p.bp) * big(self.ed as u64);
        need += &self.p.pf * big(SCALE + self.p.bp) * big(self.fd as u64);
        for (t, size) in &self.sdef {
            let price = match t {
                StorageType::State => &self.p.p_state,
                StorageType::Archive => &self.p.p_archive,
            };
            need += price * big(*size as u64) * big(SCALE);
        }
        let d: BigInt = need - &self.b;
        if d.is_negative() {
            return BigInt::zero();
        }
        (d + big(SCALE - 1)) / big(SCALE)
    }
}

fn map_err(e: &FeeReserveError) -> RErr {
    match e {
        FeeReserveError::InsufficientBalance { required, remaining } => {
            RErr::Insufficient { required: dec_to_big(*required) * big(SCALE), remaining: dec_to_big(*remaining) * big(SCALE) }
        }
        FeeReserveError::Overflow => RErr::Overflow,
        FeeReserveError::LimitExceeded { .. } => RErr::Limit,
        FeeReserveError::LoanRepaymentFailed { xrd_owed } => RErr::LoanNotRepaid { owed: dec_to_big(*xrd_owed) * big(SCALE) },
        FeeReserveError::Abort(_) => RErr::Abort,
    }
}

/// u32 overflow of the unit counter is reported as `Overflow` by the code and as `Limit` by the
/// model: both mean "the cost unit limit would be exceeded".
fn same(a: &Result<(), RErr>, b: &Result<(), RErr>) -> bool {
    let norm = |r: &Result<(), RErr>| match r {
        Err(RErr::Overflow) => Err(RErr::Limit),
        other => other.clone(),
    };
    norm(a) == norm(b)
}

// ------------------------------------------------------------------------------------------
// generators

fn vault(i: usize) -> NodeId {
    let mut b = [0u8; NodeId::LENGTH];
    b[0] = EntityType::InternalFungibleVault as u8;
    b[1] = i as u8 + 1;
    NodeId(b)
}

fn recipient(i: usize) -> RoyaltyRecipient {
    match i {
        0 => RoyaltyRecipient::Package(PACKAGE_PACKAGE, vault(10)),
        1 => RoyaltyRecipient::Component(component_address(EntityType::GlobalGenericComponent, 5), vault(11)),
        _ => RoyaltyRecipient::Component(component_address(EntityType::GlobalGenericComponent, 6), vault(12)),
    }
}

fn gen_price(g: &mut Gen, protocol: &BigInt, exact_only: bool) -> BigInt {
    let v = match g.weighted(&[3, 3, 3, 2, 2, 1]) {
        0 => big(1 + g.below(9)),                               // a few attos
        1 => protocol + BigInt::from(g.range(-3, 3) as i64),    // next to the protocol price
        2 => big(g.below(1_000_000_000_000)),                   // up to 10^-6 XRD, any digits
        3 => big(g.u64() >> g.below(40)),                       // random width
        4 => protocol * big(1 + g.below(20)),                   // multiples of the protocol price
        _ => BigInt::zero(),
    };
    let v = if v.is_negative() { BigInt::zero() } else { v };
    if exact_only {
        // multiples of 10^-14 XRD: every basis-point tip multiplies them exactly
        (&v / big(SCALE) + big(if v.is_zero() { 0 } else { 1 })) * big(SCALE)
    } else {
        v
    }
}

struct Config {
    costing: CostingParameters,
    tip: TipSpecifier,
    params: Params,
    suffix: String,
    exact: bool,
}

fn gen_config(g: &mut Gen) -> Config {
    let proto = CostingParameters::babylon_genesis();
    let mut costing = proto;
    let mut aspects: Vec<&'static str> = Vec::new();
    let class = g.weighted(&[5, 5, 3, 5]);
    match class {
        0 => g.label("params: protocol (babylon_genesis)"),
        1 => g.label("params: protocol prices, generated loan/limits"),
        2 => g.label("params: generated prices, multiples of 10^-14"),
        _ => g.label("params: arbitrary generated prices"),
    }
    if class >= 1 {
        // small loan / limits so that a handful of operations reaches them
        costing.execution_cost_unit_loan = match g.weighted(&[4, 2, 1]) {
            0 => g.below(2_000) as u32,
            1 => proto.execution_cost_unit_loan,
            _ => 0,
        };
        costing.execution_cost_unit_limit = match g.weighted(&[4, 2, 1]) {
            0 => costing.execution_cost_unit_loan.saturating_add(g.below(5_000) as u32),
            1 => proto.execution_cost_unit_limit,
            _ => g.below(3_000) as u32,
        };
        costing.finalization_cost_unit_limit = match g.weighted(&[4, 2]) {
            0 => g.below(5_000) as u32,
            _ => proto.finalization_cost_unit_limit,
        };
        aspects.push("generated loan/limits");
    }
    if class >= 2 {
        let exact_only = class == 2;
        costing.execution_cost_unit_price = dec(&gen_price(g, &dec_to_big(proto.execution_cost_unit_price), exact_only));
        costing.finalization_cost_unit_price = dec(&gen_price(g, &dec_to_big(proto.finalization_cost_unit_price), exact_only));
        costing.state_storage_price = dec(&gen_price(g, &dec_to_big(proto.state_storage_price), false));
        costing.archive_storage_price = dec(&gen_price(g, &dec_to_big(proto.archive_storage_price), false));
        if g.bool() {
            costing.usd_price = dec(&gen_price(g, &dec_to_big(proto.usd_price), false));
        }
        aspects.push("non-protocol prices");
    }

    let v = TransactionValidationConfig::latest();
    let tip = match g.weighted(&[3, 4, 5, 1]) {
        0 => TipSpecifier::None,
        1 => TipSpecifier::Percentage(match g.weighted(&[4, 2, 1]) {
            0 => *g.pick(&[0u16, 1, 2, 5, 10, 33, 50, 100]),
            1 => g.u16(),
            _ => u16::MAX,
        }),
        2 => TipSpecifier::BasisPoints(match g.weighted(&[4, 3, 1]) {
            0 => *g.pick(&[0u32, 1, 7, 99, 100, 101, 1500, 9_999, 10_000, 10_001]),
            1 => g.below(v.max_tip_basis_points as u64 + 1) as u32,
            _ => v.max_tip_basis_points,
        }),
        _ => TipSpecifier::BasisPoints(match g.below(3) {
            0 => v.max_tip_basis_points + 1,
            1 => u32::MAX,
            _ => v.max_tip_basis_points + 1 + g.below(1_000_000) as u32,
        }),
    };
    match tip {
        TipSpecifier::None => g.label("tip: none"),
        TipSpecifier::Percentage(p) => {
            g.label("tip: percentage");
            if p < v.min_tip_percentage || p > v.max_tip_percentage {
                aspects.push("tip beyond validation limit");
            }
        }
        TipSpecifier::BasisPoints(b) => {
            if b > v.max_tip_basis_points || b < v.min_tip_basis_points {
                g.label("tip: basis points beyond the validation limit");
                aspects.push("tip beyond validation limit");
            } else {
                g.label("tip: basis points");
            }
        }
    }
    // independent of TipSpecifier::basis_points()
    let bp: u64 = match tip {
        TipSpecifier::None => 0,
        TipSpecifier::Percentage(p) => p as u64 * 100,
        TipSpecifier::BasisPoints(b) => b as u64,
    };

    let free_credit = match g.weighted(&[14, 1, 1]) {
        0 => BigInt::zero(),
        1 => big(g.below(1_000_000)),
        _ => xrd(g.below(1_000)) + big(g.below(1_000_000_000)),
    };
    if !free_credit.is_zero() {
        g.label("free credit (preview)");
    }
    let abort_when_repaid = g.chance(1, 24);
    if abort_when_repaid {
        g.label("abort_when_loan_repaid");
    }

    let params = Params {
        pe: dec_to_big(costing.execution_cost_unit_price),
        pf: dec_to_big(costing.finalization_cost_unit_price),
        usd: dec_to_big(costing.usd_price),
        p_state: dec_to_big(costing.state_storage_price),
        p_archive: dec_to_big(costing.archive_storage_price),
        limit_e: costing.execution_cost_unit_limit,
        loan: costing.execution_cost_unit_loan,
        limit_f: costing.finalization_cost_unit_limit,
        bp,
        free_credit,
        abort_when_repaid,
    };
    let exact = (&params.pe * big(bp) % big(SCALE)).is_zero() && (&params.pf * big(bp) % big(SCALE)).is_zero();
    let suffix = if aspects.is_empty() { String::new() } else { format!(" [{}]", aspects.join(", ")) };
    Config { costing, tip, params, suffix, exact }
}

fn gen_units(g: &mut Gen, committed: u32, loan: u32, limit: u32) -> u32 {
    match g.weighted(&[9, 3, 3, 2, 1, 1]) {
        0 => 1 + g.below(2_000) as u32,
        1 => g.below(3_000_000) as u32,
        // exactly up to the loan threshold / the limit, and one off
        2 => (loan.saturating_sub(committed) as i64 + g.range(-1, 1) as i64).clamp(0, u32::MAX as i64) as u32,
        3 => (limit.saturating_sub(committed) as i64 + g.range(-1, 1) as i64).clamp(0, u32::MAX as i64) as u32,
        4 => 0,
        _ => u32::MAX - g.below(3) as u32,
    }
}

// ------------------------------------------------------------------------------------------
// the case

struct Run<'a> {
    real: SystemLoanFeeReserve,
    m: Model,
    cfg: &'a Config,
    log: Vec<String>,
    boundary_lock: bool,
    loan_repaid_midway: bool,
}

enum Step {
    Continue,
    /// the reserve returned an error: the transaction ends here
    Stop(RErr),
}

impl<'a> Run<'a> {
    fn sig(&self, what: &str) -> String {
        format!("SystemLoanFeeReserve{}: {}", self.cfg.suffix, what)
    }
    fn context(&self) -> String {
        format!("costing {:?}, tip {:?}, free credit {} attos, abort_when_loan_repaid {}; ops: {}", self.cfg.costing, self.cfg.tip, self.cfg.params.free_credit, self.cfg.params.abort_when_repaid, self.log.join(", "))
    }

    /// Compare one fallible operation.
    fn judge(&mut self, name: &str, real: Result<Result<(), FeeReserveError>, String>, model: Result<(), RErr>) -> Result<Step, Outcome> {
        let real = match real {
            Ok(r) => r,
            Err(p) => return Err(Outcome::fail(self.sig(&format!("{} panics", name)), format!("{}: {}", self.context(), p))),
        };
        let got = real.as_ref().map(|_| ()).map_err(map_err);
        self.log.push(format!("-> {}", match &real { Ok(()) => "ok".to_string(), Err(e) => format!("{:?}", e) }));
        if self.cfg.exact {
            if !same(&got, &model) {
                return Err(Outcome::fail(
                    self.sig(&format!("{} result differs from the exact bigint model", name)),
                    format!("{}: real {:?}, model {:?} (model amounts are attos*10^4)", self.context(), real, model),
                ));
            }
            self.balance()?;
        }
        Ok(match got {
            Ok(()) => Step::Continue,
            Err(e) => Step::Stop(e),
        })
    }

    fn balance(&self) -> Result<(), Outcome> {
        let got = dec_to_big(self.real.fee_balance()) * big(SCALE);
        if got != self.m.b {
            return Err(Outcome::fail(
                self.sig("running balance differs from locked + credit + loan - charges"),
                format!("{}: fee_balance() = {} attos, model {} / 10^4 attos", self.context(), dec_to_big(self.real.fee_balance()), self.m.b),
            ));
        }
        Ok(())
    }
}

fn case(g: &mut Gen) -> Outcome {
    let cfg = gen_config(g);
    if cfg.exact {
        g.label("exact (every price*tip product is a whole number of attos)");
    } else {
        g.label("inexact price*tip product");
    }
    let tcp = TransactionCostingParameters { tip: cfg.tip, free_credit_in_xrd: dec(&cfg.params.free_credit) };
    let costing = cfg.costing;
    let abort = cfg.params.abort_when_repaid;
    let real = match catch(move || SystemLoanFeeReserve::new(costing, tcp, abort)) {
        Ok(r) => r,
        Err(p) => return Outcome::fail(format!("SystemLoanFeeReserve{}: new panics", cfg.suffix), format!("costing {:?}, tip {:?}: {}", cfg.costing, cfg.tip, p)),
    };
    let mut run = Run { real, m: Model::new(cfg.params.clone()), cfg: &cfg, log: vec![], boundary_lock: false, loan_repaid_midway: false };
    if cfg.exact {
        if let Err(o) = run.balance() {
            return o;
        }
    }

    // ---- before execution: deferred costs ---------------------------------------------------
    for _ in 0..g.below(4) {
        match g.below(3) {
            0 => {
                let u = g.below(3_000) as u32;
                run.log.push(format!("defer_execution({})", u));
                if run.real.consume_deferred_execution(u).is_err() {
                    return Outcome::fail(run.sig("consume_deferred_execution fails"), run.context());
                }
                run.m.ed += u;
            }
            1 => {
                let u = g.below(2_000) as u32;
                run.log.push(format!("defer_finalization({})", u));
                if run.real.consume_deferred_finalization(u).is_err() {
                    return Outcome::fail(run.sig("consume_deferred_finalization fails"), run.context());
                }
                run.m.fd += u;
            }
            _ => {
                let t = if g.chance(1, 4) { StorageType::State } else { StorageType::Archive };
                let size = g.below(5_000) as usize;
                run.log.push(format!("defer_storage({:?},{})", t, size));
                if run.real.consume_deferred_storage(t, size).is_err() {
                    return Outcome::fail(run.sig("consume_deferred_storage fails"), run.context());
                }
                run.m.defer_storage(t, size);
            }
        }
    }

    // ---- execution phase --------------------------------------------------------------------
    let mut stopped: Option<RErr> = None;
    let mut app_failed = false;
    let n_exec = g.len(12);
    // most transactions lock an ample fee first
    let mut ample_first = g.chance(1, 2);
    'exec: for _ in 0..n_exec {
        let op = if ample_first { 1 } else { g.weighted(&[8, 6, 3, 1]) };
        match op {
            0 => {
                let u = gen_units(g, run.m.e, run.m.p.loan, run.m.p.limit_e);
                run.log.push(format!("consume_execution({})", u));
                let owed_before = run.m.owed.is_zero();
                let real = catch(|| run.real.consume_execution(u));
                let model = run.m.consume_execution(u);
                if !owed_before && run.m.owed.is_zero() {
                    run.loan_repaid_midway = true;
                }
                match run.judge("consume_execution", real, model) {
                    Err(o) => return o,
                    Ok(Step::Continue) => {}
                    Ok(Step::Stop(e)) => {
                        stopped = Some(e);
                        break 'exec;
                    }
                }
            }
            1 => {
                let contingent = !ample_first && g.chance(1, 4);
                let amount = match if ample_first { 1 } else { g.weighted(&[5, 3, 2, 1]) } {
                    0 => {
                        // exactly what is missing right now, +- a few attos
                        run.boundary_lock = true;
                        let d = run.m.deficit() + BigInt::from(g.range(-3, 3) as i64);
                        if d.is_negative() { BigInt::zero() } else { d }
                    }
                    1 => xrd(1 + g.below(1_000_000)),
                    2 => big(g.below(1_000_000_000_000)),
                    _ => BigInt::zero(),
                };
                ample_first = false;
                let v = g.index(3);
                run.log.push(format!("lock_fee(v{}, {} attos{})", v, amount, if contingent { ", contingent" } else { "" }));
                let fee = LiquidFungibleResource::new(dec(&amount));
                if let Err(p) = catch(|| run.real.lock_fee(vault(v), fee, contingent)) {
                    return Outcome::fail(run.sig("lock_fee panics"), format!("{}: {}", run.context(), p));
                }
                run.m.lock(v, amount, contingent);
                if cfg.exact {
                    if let Err(o) = run.balance() {
                        return o;
                    }
                }
            }
            2 => {
                let r = g.index(3);
                let (ra, attos) = match g.weighted(&[4, 3, 1]) {
                    0 => {
                        let a = if g.bool() { big(g.below(1_000_000_000)) } else { xrd(g.below(50)) + big(g.below(1_000_000_000_000_000_000)) };
                        (RoyaltyAmount::Xrd(dec(&a)), a)
                    }
                    1 => {
                        let a = if g.bool() { big(g.below(1_000_000_000)) } else { xrd(g.below(5)) + big(g.below(1_000_000_000_000_000_000)) };
                        // the documented conversion: usd * usd_price, truncated to 18 digits
                        let x = (&a * &run.m.p.usd) / BigInt::from(10u64).pow(18);
                        (RoyaltyAmount::Usd(dec(&a)), x)
                    }
                    _ => (RoyaltyAmount::Free, BigInt::zero()),
                };
                run.log.push(format!("consume_royalty({:?} = {} attos, r{})", ra, attos, r));
                let real = catch(|| run.real.consume_royalty(ra, recipient(r)));
                let model = run.m.royalty(attos, r);
                match run.judge("consume_royalty", real, model) {
                    Err(o) => return o,
                    Ok(Step::Continue) => {}
                    Ok(Step::Stop(e)) => {
                        stopped = Some(e);
                        break 'exec;
                    }
                }
            }
            _ => {
                run.log.push("application error".into());
                app_failed = true;
                break 'exec;
            }
        }
    }

    // ---- finalization phase (only when execution succeeded) -----------------------------------
    if stopped.is_none() && !app_failed {
        'fin: {
            for _ in 0..g.below(5) {
                let u = match g.weighted(&[5, 3, 2]) {
                    0 => 1 + g.below(2_000) as u32,
                    1 => g.below(200_000) as u32,
                    _ => (run.m.p.limit_f.saturating_sub(run.m.f) as i64 + g.range(-1, 1) as i64).clamp(0, u32::MAX as i64) as u32,
                };
                run.log.push(format!("consume_finalization({})", u));
                let real = catch(|| run.real.consume_finalization(u));
                let model = run.m.consume_finalization(u);
                match run.judge("consume_finalization", real, model) {
                    Err(o) => return o,
                    Ok(Step::Continue) => {}
                    Ok(Step::Stop(e)) => {
                        stopped = Some(e);
                        break 'fin;
                    }
                }
            }
            for _ in 0..g.below(4) {
                let t = if g.chance(1, 3) { StorageType::Archive } else { StorageType::State };
                let size = if g.chance(1, 8) { g.below(2_000_000) } else { g.below(3_000) } as usize;
                run.log.push(format!("consume_storage({:?},{})", t, size));
                let real = catch(|| run.real.consume_storage(t, size));
                let model = run.m.storage(t, size);
                match run.judge("consume_storage", real, model) {
                    Err(o) => return o,
                    Ok(Step::Continue) => {}
                    Ok(Step::Stop(e)) => {
                        stopped = Some(e);
                        break 'fin;
                    }
                }
            }
        }
    }
    match &stopped {
        Some(RErr::Insufficient { .. }) => g.label("stopped: insufficient balance"),
        Some(RErr::Limit) | Some(RErr::Overflow) => g.label("stopped: cost unit limit"),
        Some(RErr::LoanNotRepaid { .. }) => g.label("stopped: loan repayment failed at the threshold"),
        Some(RErr::Abort) => g.label("stopped: configured abort"),
        None => {}
    }
    if run.loan_repaid_midway {
        g.label("loan repaid during execution");
    }

    // ---- determine_result_type ----------------------------------------------------------------
    let is_success = stopped.is_none() && !app_failed;
    run.log.push("repay_all".into());
    let real_final = catch(|| run.real.repay_all());
    let model_final = run.m.repay_all();
    let final_step = match run.judge("repay_all", real_final, model_final) {
        Err(o) => return o,
        Ok(s) => s,
    };
    let fully_repaid = run.real.fully_repaid();
    #[derive(PartialEq, Debug)]
    enum Res {
        CommitSuccess,
        CommitFailure,
        Reject,
        Abort,
    }
    let aborted = matches!(stopped, Some(RErr::Abort)) || matches!(final_step, Step::Stop(RErr::Abort));
    let result = if is_success {
        match final_step {
            Step::Continue => Res::CommitSuccess,
            Step::Stop(RErr::Abort) => Res::Abort,
            Step::Stop(_) => Res::Reject,
        }
    } else if aborted {
        Res::Abort
    } else if fully_repaid {
        Res::CommitFailure
    } else {
        Res::Reject
    };
    if cfg.exact {
        ensure!(
            fully_repaid == run.m.owed.is_zero(),
            run.sig("fully_repaid() differs from the exact bigint model"),
            "{}: fully_repaid() = {}, model owes {} / 10^4 attos",
            run.context(),
            fully_repaid,
            run.m.owed
        );
    }
    if result == Res::CommitFailure {
        run.log.push("revert_royalty".into());
        if let Err(p) = catch(|| run.real.revert_royalty()) {
            return Outcome::fail(run.sig("revert_royalty panics"), format!("{}: {}", run.context(), p));
        }
        run.m.revert_royalty();
        if cfg.exact {
            if let Err(o) = run.balance() {
                return o;
            }
        }
    }
    g.label(match result {
        Res::CommitSuccess => "result: commit success",
        Res::CommitFailure => "result: commit failure",
        Res::Reject => "result: reject",
        Res::Abort => "result: abort",
    });

    // ---- finalize ----------------------------------------------------------------------------
    let context = run.context();
    let sig = |what: &str| format!("SystemLoanFeeReserve{}: {}", cfg.suffix, what);
    let m = run.m;
    let real = run.real;
    let (summary, _, _): (FeeReserveFinalizationSummary, _, _) = match catch(move || real.finalize()) {
        Ok(s) => s,
        Err(p) => return Outcome::fail(sig("finalize panics"), format!("{}: {}", context, p)),
    };
    g.sample(|| format!("{} => {:?}; summary {:?}", context, result, summary));

    let exec = dec_to_big(summary.total_execution_cost_in_xrd);
    let fin = dec_to_big(summary.total_finalization_cost_in_xrd);
    let tip = dec_to_big(summary.total_tipping_cost_in_xrd);
    let storage = dec_to_big(summary.total_storage_cost_in_xrd);
    let royalty = dec_to_big(summary.total_royalty_cost_in_xrd);
    let bad_debt = dec_to_big(summary.total_bad_debt_in_xrd);

    // limits are never exceeded
    ensure!(
        summary.total_execution_cost_units_consumed <= m.p.limit_e,
        sig("execution cost units consumed exceed the limit"),
        "{}: consumed {} > limit {}",
        context,
        summary.total_execution_cost_units_consumed,
        m.p.limit_e
    );
    ensure!(
        summary.total_finalization_cost_units_consumed <= m.p.limit_f,
        sig("finalization cost units consumed exceed the limit"),
        "{}: consumed {} > limit {}",
        context,
        summary.total_finalization_cost_units_consumed,
        m.p.limit_f
    );
    // cost of the units at the configured price (always a whole number of attos)
    ensure!(
        exec == &m.p.pe * big(summary.total_execution_cost_units_consumed as u64) && fin == &m.p.pf * big(summary.total_finalization_cost_units_consumed as u64),
        sig("finalize(): execution/finalization cost is not units * price"),
        "{}: execution {} attos for {} units, finalization {} attos for {} units",
        context,
        exec,
        summary.total_execution_cost_units_consumed,
        fin,
        summary.total_finalization_cost_units_consumed
    );
    ensure!(summary.loan_fully_repaid() == bad_debt.is_zero() && fully_repaid == bad_debt.is_zero(), sig("finalize(): loan_fully_repaid() is not equivalent to xrd_owed = 0"), "{}: bad debt {} attos, fully_repaid() {}", context, bad_debt, fully_repaid);
    ensure!(
        !exec.is_negative() && !fin.is_negative() && !tip.is_negative() && !storage.is_negative() && !royalty.is_negative() && !bad_debt.is_negative(),
        sig("finalize(): negative amount in the summary"),
        "{}: {:?}",
        context,
        summary
    );
    let total_cost = match catch(|| summary.total_cost()) {
        Ok(t) => dec_to_big(t),
        Err(p) => return Outcome::fail(sig("total_cost() panics"), format!("{}: {}", context, p)),
    };
    ensure!(total_cost == &exec + &fin + &tip + &storage + &royalty, sig("total_cost() is not execution + finalization + tip + storage + royalty"), "{}: total {} vs parts {:?}", context, total_cost, summary);

    if cfg.exact {
        // the summary equals the model field by field
        let want_tip = (&m.p.pe * big(m.e as u64) + &m.p.pf * big(m.f as u64)) * big(m.p.bp) / big(SCALE);
        ensure!(
            summary.total_execution_cost_units_consumed == m.e && summary.total_finalization_cost_units_consumed == m.f,
            sig("finalize(): cost units consumed differ from the exact bigint model"),
            "{}: summary ({}, {}), model ({}, {})",
            context,
            summary.total_execution_cost_units_consumed,
            summary.total_finalization_cost_units_consumed,
            m.e,
            m.f
        );
        ensure!(tip == want_tip, sig("finalize(): tip is not (execution + finalization cost) * tip proportion"), "{}: tip {} attos, exact {} attos", context, tip, want_tip);
        ensure!(storage == m.s, sig("finalize(): storage cost differs from the exact bigint model"), "{}: storage {} attos, model {}", context, storage, m.s);
        ensure!(royalty == m.r, sig("finalize(): royalty cost differs from the exact bigint model"), "{}: royalty {} attos, model {}", context, royalty, m.r);
        ensure!(&bad_debt * big(SCALE) == m.owed, sig("finalize(): bad debt differs from the exact bigint model"), "{}: bad debt {} attos, model {} / 10^4", context, bad_debt, m.owed);
    }
    // royalty breakdown sums to the royalty total; recipients as charged
    let breakdown_sum: BigInt = summary.royalty_cost_breakdown.values().map(|d| dec_to_big(*d)).sum();
    ensure!(breakdown_sum == royalty, sig("finalize(): royalty breakdown does not sum to the royalty total"), "{}: breakdown {:?}, total {}", context, summary.royalty_cost_breakdown, royalty);
    if cfg.exact {
        // (order is not part of the property; a USD royalty below one atto leaves a zero entry behind: not a charge)
        let want: std::collections::BTreeMap<RoyaltyRecipient, BigInt> = m.rb.iter().map(|(i, a)| (recipient(*i), a.clone())).collect();
        let got: std::collections::BTreeMap<RoyaltyRecipient, BigInt> = summary.royalty_cost_breakdown.iter().map(|(k, v)| (k.clone(), dec_to_big(*v))).filter(|x| !x.1.is_zero()).collect();
        ensure!(got == want, sig("finalize(): royalty breakdown differs from the royalties charged"), "{}: got {:?}, want {:?}", context, got, want);
    }
    if result == Res::CommitFailure {
        ensure!(royalty.is_zero() && summary.royalty_cost_breakdown.is_empty(), sig("royalties are kept on a failed commit"), "{}: royalty {} attos, {:?}", context, royalty, summary.royalty_cost_breakdown);
    }
    // locked fees are handed over unchanged
    let got_locks: Vec<(NodeId, BigInt, bool)> = summary.locked_fees.iter().map(|(n, l, c)| (*n, dec_to_big(l.amount()), *c)).collect();
    let want_locks: Vec<(NodeId, BigInt, bool)> = m.locks.iter().map(|(v, a, c)| (vault(*v), a.clone(), *c)).collect();
    ensure!(got_locks == want_locks, sig("finalize(): locked fees differ from what was locked"), "{}: got {:?}, want {:?}", context, got_locks, want_locks);

    // exact distribution of tip + network fees
    let shares = catch(|| (summary.to_proposer_amount(), summary.to_validator_set_amount(), summary.to_burn_amount()));
    let (to_proposer, to_validator_set, to_burn) = match shares {
        Ok((a, b, c)) => (dec_to_big(a), dec_to_big(b), dec_to_big(c)),
        Err(p) => return Outcome::fail(sig("fee distribution panics"), format!("{}: {}", context, p)),
    };
    let network = &exec + &fin + &storage;
    ensure!(
        &to_proposer + &to_validator_set + &to_burn == &tip + &network,
        sig("proposer + validator set + burn is not tip + network fees"),
        "{}: {} + {} + {} != {} + {}",
        context,
        to_proposer,
        to_validator_set,
        to_burn,
        tip,
        network
    );
    ensure!(!to_proposer.is_negative() && !to_validator_set.is_negative() && !to_burn.is_negative(), sig("negative share in the fee distribution"), "{}: proposer {}, validator set {}, burn {}", context, to_proposer, to_validator_set, to_burn);
    // protocol shares, each product truncated to a whole atto
    let pct = |x: &BigInt, p: u8| x * big(p as u64) / big(100);
    let want_proposer = pct(&tip, TIPS_PROPOSER_SHARE_PERCENTAGE) + pct(&network, NETWORK_FEES_PROPOSER_SHARE_PERCENTAGE);
    let want_validator_set = pct(&tip, TIPS_VALIDATOR_SET_SHARE_PERCENTAGE) + pct(&network, NETWORK_FEES_VALIDATOR_SET_SHARE_PERCENTAGE);
    ensure!(
        to_proposer == want_proposer && to_validator_set == want_validator_set,
        sig("proposer / validator set share is not the protocol percentage of tip and network fees"),
        "{}: proposer {} (want {}), validator set {} (want {}), tip {}, network {}",
        context,
        to_proposer,
        want_proposer,
        to_validator_set,
        want_validator_set,
        tip,
        network
    );

    // ---- the payment loop of finalize_fees_for_commit ------------------------------------------
    let committed = result == Res::CommitSuccess || result == Res::CommitFailure;
    if committed {
        ensure!(bad_debt.is_zero(), sig("commit with bad debt"), "{}: bad debt {} attos", context, bad_debt);
        let mut required = total_cost.clone();
        let mut collected = BigInt::zero();
        let mut paying = 0;
        for (_, locked, contingent) in got_locks.iter().rev() {
            let amount = if *contingent && result != Res::CommitSuccess { BigInt::zero() } else { locked.clone().min(required.clone()) };
            if amount.is_positive() {
                paying += 1;
            }
            required -= &amount;
            collected += amount;
        }
        let credit = m.p.free_credit.clone().min(required.clone());
        required -= &credit;
        collected += credit;
        ensure!(
            required.is_zero(),
            sig("commit although locked fees and free credit do not cover total_cost()"),
            "{}: total cost {} attos (execution {}, finalization {}, tip {}, storage {}, royalty {}), usable locked fees + free credit fall short by {} attos",
            context,
            total_cost,
            exec,
            fin,
            tip,
            storage,
            royalty,
            required
        );
        ensure!(
            &collected - &royalty == &to_proposer + &to_validator_set + &to_burn,
            sig("collected fees minus royalties differ from proposer + validator set + burn"),
            "{}: collected {}, royalty {}, distribution {} + {} + {}",
            context,
            collected,
            royalty,
            to_proposer,
            to_validator_set,
            to_burn
        );
        if m.p.bp > 0 && paying >= 2 {
            g.nontrivial();
            g.label("committed with tip > 0 and >= 2 paying vaults");
        }
        if m.p.bp > 0 && !tip.is_zero() {
            g.label("committed with a non-zero tip");
        }
        if got_locks.iter().any(|l| l.2) {
            g.label("committed with a contingent lock present");
        }
    }
    if run.boundary_lock {
        g.nontrivial();
        g.label("lock_fee of exactly the missing amount +-3 attos");
    }
    Outcome::Pass
}

pub fn c06_reserve_part() -> Part {
    Part::new("reserve", 3_000_000, 150_000_000, 420, case)
}

pub fn check() -> Check {
    Check::new(
        "C06",
        "Fees are fully paid and exactly distributed",
        "part reserve (unit level): SystemLoanFeeReserve with generated CostingParameters (babylon_genesis; protocol prices with small loan/limits; generated prices that are multiples of 10^-14 XRD; arbitrary prices down to 1 atto), tip None / Percentage 0..=65535 / BasisPoints 0..=max allowed and beyond, optional free credit and abort flag, driven in engine order: 0-3 deferred costs, 0-12 execution-phase operations (consume_execution with units at the loan threshold and the limit +-1, lock_fee contingent or not with amounts of exactly the missing sum +-3 attos, consume_royalty XRD/USD/free), on success 0-4 consume_finalization and 0-3 consume_storage, stop at the first error, repay_all, revert_royalty on a failed commit, finalize. Oracle: bigint model charging units*price*(1+tip) exactly, compared after every operation (result, fee_balance) and with every summary field when all products are whole attos; always: limits, summary identities, exact protocol split, and the finalize_fees_for_commit payment loop ends with nothing required. Non-trivial = committed with tip > 0 and >= 2 paying vaults, or a lock_fee of the missing amount +-3 attos. Distinct = distinct decoded choice sequences.",
    )
    .assume("non-protocol configurations (generated prices, loan/limits, tips beyond the validator's limit) are named in the failure signature suffix so that a divergence reachable only with them can be judged as configuration acceptance")
    .assume("the engine-level half of C06 (vault balances, events, receipts) is a separate part assembled elsewhere")
    .part(c06_reserve_part())
    .min_nontrivial_pct(10.0)
}
