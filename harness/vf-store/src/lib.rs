//! vf-store: checks that need the rocksdb-backed substate stores (C15, C19).

pub mod c15;
pub mod c19;
pub mod model;
pub mod scratch;
pub mod smt;

pub fn checks() -> Vec<vf_core::Check> {
    vec![c15::check(), c19::check()]
}
