//! vf-world: the engine-level world shared by every engine check (R6 of DESIGN.md).
//!
//! * `puppet`  — native test package interpreting SystemApi scripts (installed via NativeVmExtension)
//! * `world`   — `World`: simulator + accounts + resources + puppet packages, snapshot/restore per case
//! * `scan`    — the harness's own full-ledger scan (vaults, supplies) from raw substates
pub mod puppet;
pub mod scan;
pub mod world;

pub use puppet::*;
pub use scan::*;
pub use world::*;
