//! R3(b) schema-directed payload generation: given `(schema, type id)` produce random payloads
//! that are valid under it (by the documented meaning of type kinds and validations), and
//! near-valid ones carrying exactly one deliberate defect.
//!
//! The generator reads the schema through `SchemaView`, a plain-data rendering of type kinds and
//! validations; it does not call the repository's payload validator or typed traverser.

use crate::valgen::*;
use crate::wire::*;
use radix_common::data::scrypto::{OwnValidation, ReferenceValidation, ScryptoCustomSchema, ScryptoCustomTypeKind, ScryptoCustomTypeValidation};
use sbor::{CustomSchema, LocalTypeId, NoCustomSchema, SchemaV1, TypeKind, TypeValidation};
use std::collections::HashMap;
use vf_core::Gen;

#[derive(Clone, Copy, Debug, PartialEq, Eq)]
pub enum CustomTK {
    Reference,
    Own,
    Decimal,
    PreciseDecimal,
    NonFungibleLocalId,
}

#[derive(Clone, Debug, PartialEq, Eq)]
pub enum TK {
    Any,
    Bool,
    I8,
    I16,
    I32,
    I64,
    I128,
    U8,
    U16,
    U32,
    U64,
    U128,
    String,
    Array(LocalTypeId),
    Tuple(Vec<LocalTypeId>),
    Enum(Vec<(u8, Vec<LocalTypeId>)>),
    Map(LocalTypeId, LocalTypeId),
    Custom(CustomTK),
}

#[derive(Clone, Copy, Debug, PartialEq, Eq)]
pub enum RefV {
    IsGlobal,
    IsGlobalPackage,
    IsGlobalComponent,
    IsGlobalResourceManager,
    IsGlobalTyped,
    IsInternal,
    IsInternalTyped,
}

#[derive(Clone, Copy, Debug, PartialEq, Eq)]
pub enum OwnV {
    IsBucket,
    IsProof,
    IsVault,
    IsKeyValueStore,
    IsGlobalAddressReservation,
    IsTypedObject,
}

#[derive(Clone, Copy, Debug, PartialEq, Eq)]
pub enum TV {
    None,
    Signed { min: i128, max: i128 },
    Unsigned { min: u128, max: u128 },
    Len { min: usize, max: usize },
    Ref(RefV),
    Own(OwnV),
}

pub trait SchemaView {
    fn kind(&self, id: LocalTypeId) -> Option<TK>;
    fn validation(&self, id: LocalTypeId) -> Option<TV>;
}

pub trait CustomView: CustomSchema {
    fn custom_kind(k: &Self::CustomLocalTypeKind) -> CustomTK;
    fn custom_validation(v: &Self::CustomTypeValidation) -> TV;
}

impl CustomView for NoCustomSchema {
    fn custom_kind(k: &Self::CustomLocalTypeKind) -> CustomTK {
        match *k {}
    }
    fn custom_validation(v: &Self::CustomTypeValidation) -> TV {
        match *v {}
    }
}

impl CustomView for ScryptoCustomSchema {
    fn custom_kind(k: &Self::CustomLocalTypeKind) -> CustomTK {
        match k {
            ScryptoCustomTypeKind::Reference => CustomTK::Reference,
            ScryptoCustomTypeKind::Own => CustomTK::Own,
            ScryptoCustomTypeKind::Decimal => CustomTK::Decimal,
            ScryptoCustomTypeKind::PreciseDecimal => CustomTK::PreciseDecimal,
            ScryptoCustomTypeKind::NonFungibleLocalId => CustomTK::NonFungibleLocalId,
        }
    }
    fn custom_validation(v: &Self::CustomTypeValidation) -> TV {
        match v {
            ScryptoCustomTypeValidation::Reference(r) => TV::Ref(match r {
                ReferenceValidation::IsGlobal => RefV::IsGlobal,
                ReferenceValidation::IsGlobalPackage => RefV::IsGlobalPackage,
                ReferenceValidation::IsGlobalComponent => RefV::IsGlobalComponent,
                ReferenceValidation::IsGlobalResourceManager => RefV::IsGlobalResourceManager,
                ReferenceValidation::IsGlobalTyped(_, _) => RefV::IsGlobalTyped,
                ReferenceValidation::IsInternal => RefV::IsInternal,
                ReferenceValidation::IsInternalTyped(_, _) => RefV::IsInternalTyped,
            }),
            ScryptoCustomTypeValidation::Own(o) => TV::Own(match o {
                OwnValidation::IsBucket => OwnV::IsBucket,
                OwnValidation::IsProof => OwnV::IsProof,
                OwnValidation::IsVault => OwnV::IsVault,
                OwnValidation::IsKeyValueStore => OwnV::IsKeyValueStore,
                OwnValidation::IsGlobalAddressReservation => OwnV::IsGlobalAddressReservation,
                OwnValidation::IsTypedObject(_, _) => OwnV::IsTypedObject,
            }),
        }
    }
}

impl<S: CustomView> SchemaView for SchemaV1<S> {
    fn kind(&self, id: LocalTypeId) -> Option<TK> {
        Some(match self.resolve_type_kind(id)? {
            TypeKind::Any => TK::Any,
            TypeKind::Bool => TK::Bool,
            TypeKind::I8 => TK::I8,
            TypeKind::I16 => TK::I16,
            TypeKind::I32 => TK::I32,
            TypeKind::I64 => TK::I64,
            TypeKind::I128 => TK::I128,
            TypeKind::U8 => TK::U8,
            TypeKind::U16 => TK::U16,
            TypeKind::U32 => TK::U32,
            TypeKind::U64 => TK::U64,
            TypeKind::U128 => TK::U128,
            TypeKind::String => TK::String,
            TypeKind::Array { element_type } => TK::Array(*element_type),
            TypeKind::Tuple { field_types } => TK::Tuple(field_types.clone()),
            TypeKind::Enum { variants } => TK::Enum(variants.iter().map(|(d, f)| (*d, f.clone())).collect()),
            TypeKind::Map { key_type, value_type } => TK::Map(*key_type, *value_type),
            TypeKind::Custom(c) => TK::Custom(S::custom_kind(c)),
        })
    }
    fn validation(&self, id: LocalTypeId) -> Option<TV> {
        fn len(v: &sbor::LengthValidation) -> TV {
            TV::Len { min: v.min.unwrap_or(0) as usize, max: v.max.unwrap_or(u32::MAX) as usize }
        }
        macro_rules! signed {
            ($v:expr, $t:ty) => {
                TV::Signed { min: $v.min.unwrap_or(<$t>::MIN) as i128, max: $v.max.unwrap_or(<$t>::MAX) as i128 }
            };
        }
        macro_rules! unsigned {
            ($v:expr, $t:ty) => {
                TV::Unsigned { min: $v.min.unwrap_or(<$t>::MIN) as u128, max: $v.max.unwrap_or(<$t>::MAX) as u128 }
            };
        }
        Some(match self.resolve_type_validation(id)? {
            TypeValidation::None => TV::None,
            TypeValidation::I8(v) => signed!(v, i8),
            TypeValidation::I16(v) => signed!(v, i16),
            TypeValidation::I32(v) => signed!(v, i32),
            TypeValidation::I64(v) => signed!(v, i64),
            TypeValidation::I128(v) => signed!(v, i128),
            TypeValidation::U8(v) => unsigned!(v, u8),
            TypeValidation::U16(v) => unsigned!(v, u16),
            TypeValidation::U32(v) => unsigned!(v, u32),
            TypeValidation::U64(v) => unsigned!(v, u64),
            TypeValidation::U128(v) => unsigned!(v, u128),
            TypeValidation::String(v) | TypeValidation::Array(v) | TypeValidation::Map(v) => len(v),
            TypeValidation::Custom(c) => S::custom_validation(c),
        })
    }
}

// entity-type classes (from the entity type table)
const INTERNAL_ENTITIES: &[u8] = &[0b0101_1000, 0b1001_1000, 0b1111_1000, 0b1011_0000];
const VAULT_ENTITIES: &[u8] = &[0b0101_1000, 0b1001_1000];
const KV_STORE_ENTITIES: &[u8] = &[0b1011_0000];
const PACKAGE_ENTITIES: &[u8] = &[0b0000_1101];
const RESOURCE_MANAGER_ENTITIES: &[u8] = &[0b0101_1101, 0b1001_1010];

pub fn global_entities() -> Vec<u8> {
    ENTITY_TYPES.iter().copied().filter(|e| !INTERNAL_ENTITIES.contains(e)).collect()
}
pub fn global_component_entities() -> Vec<u8> {
    global_entities().into_iter().filter(|e| !PACKAGE_ENTITIES.contains(e) && !RESOURCE_MANAGER_ENTITIES.contains(e)).collect()
}

fn entities_for_ref(v: RefV) -> Vec<u8> {
    match v {
        RefV::IsGlobal => global_entities(),
        // typed references to a blueprint's objects are component addresses in every native type
        // (`Global<T>`), so component entity types come first (the minimal choice) and packages /
        // resource managers, which the validation also admits, last
        RefV::IsGlobalTyped => {
            let mut v = global_component_entities();
            v.extend(global_entities().into_iter().filter(|e| !global_component_entities().contains(e)));
            v
        }
        RefV::IsGlobalPackage => PACKAGE_ENTITIES.to_vec(),
        RefV::IsGlobalComponent => global_component_entities(),
        RefV::IsGlobalResourceManager => RESOURCE_MANAGER_ENTITIES.to_vec(),
        RefV::IsInternal | RefV::IsInternalTyped => INTERNAL_ENTITIES.to_vec(),
    }
}

/// Entity bytes acceptable for an owned node under the validation; `None` = any 30 bytes.
fn entities_for_own(v: OwnV) -> Option<Vec<u8>> {
    match v {
        OwnV::IsBucket | OwnV::IsProof => Some(INTERNAL_ENTITIES.to_vec()),
        OwnV::IsVault => Some(VAULT_ENTITIES.to_vec()),
        OwnV::IsKeyValueStore => Some(KV_STORE_ENTITIES.to_vec()),
        OwnV::IsGlobalAddressReservation | OwnV::IsTypedObject => None,
    }
}

const INF: usize = usize::MAX;

/// Uniform-ish value in `lo..=hi` over the whole i128 range (vf-core's `Gen::range` overflows when
/// the span does not fit an i128).
pub fn range_i128(g: &mut Gen, lo: i128, hi: i128) -> i128 {
    let span = hi.wrapping_sub(lo) as u128;
    if span == u128::MAX {
        return g.u128() as i128;
    }
    if span < u64::MAX as u128 {
        return lo.wrapping_add(g.below(span as u64 + 1) as i128);
    }
    lo.wrapping_add((g.u128() % (span + 1)) as i128)
}

pub struct TypedGen<'a, 'b, 's> {
    pub g: &'a mut Gen<'b>,
    pub view: &'s dyn SchemaView,
    pub fl: Flavour,
    /// Soft node budget.
    pub budget: usize,
    /// Maximal collection length chosen freely (validations may force more).
    pub max_len: usize,
    /// Index (in generation order) of the node to damage, if any.
    pub mutate_at: Option<usize>,
    /// Label of the defect that was planted (None = the payload is valid by construction).
    pub mutation: Option<&'static str>,
    /// Probability (num, den) of using an alternative wire kind where a type admits several
    /// (manifest blob for a byte array, expression for an array of owned nodes, bucket / proof /
    /// address reservation for an owned node).
    pub alt_kind_chance: (u64, u64),
    counter: usize,
    min_depth: HashMap<LocalTypeId, usize>,
}

impl<'a, 'b, 's> TypedGen<'a, 'b, 's> {
    pub fn new(g: &'a mut Gen<'b>, view: &'s dyn SchemaView, fl: Flavour) -> Self {
        TypedGen { g, view, fl, budget: 120, max_len: 3, mutate_at: None, mutation: None, alt_kind_chance: (1, 8), counter: 0, min_depth: HashMap::new() }
    }

    pub fn nodes_generated(&self) -> usize {
        self.counter
    }

    fn children(kind: &TK) -> Vec<LocalTypeId> {
        match kind {
            TK::Array(e) => vec![*e],
            TK::Tuple(f) => f.clone(),
            TK::Enum(v) => v.iter().flat_map(|(_, f)| f.iter().copied()).collect(),
            TK::Map(k, v) => vec![*k, *v],
            _ => vec![],
        }
    }

    fn min_len(&self, id: LocalTypeId) -> usize {
        match self.view.validation(id) {
            Some(TV::Len { min, .. }) => min,
            _ => 0,
        }
    }

    /// Least nesting depth of a value of each type reachable from `root` (INF = uninhabited).
    fn compute_min_depths(&mut self, root: LocalTypeId) {
        if self.min_depth.contains_key(&root) {
            return;
        }
        // reachable set, in discovery order
        let mut order: Vec<LocalTypeId> = vec![root];
        let mut seen: HashMap<LocalTypeId, ()> = HashMap::new();
        seen.insert(root, ());
        let mut i = 0;
        while i < order.len() {
            let id = order[i];
            i += 1;
            if let Some(k) = self.view.kind(id) {
                for c in Self::children(&k) {
                    if seen.insert(c, ()).is_none() {
                        order.push(c);
                    }
                }
            }
        }
        let mut md: HashMap<LocalTypeId, usize> = order.iter().map(|id| (*id, self.min_depth.get(id).copied().unwrap_or(INF))).collect();
        let get = |md: &HashMap<LocalTypeId, usize>, id: &LocalTypeId| md.get(id).copied().unwrap_or(INF);
        loop {
            let mut changed = false;
            for id in &order {
                let Some(k) = self.view.kind(*id) else { continue };
                let plus1 = |x: usize| if x == INF { INF } else { x + 1 };
                let v = match &k {
                    TK::Array(e) => {
                        if self.min_len(*id) == 0 {
                            1
                        } else {
                            plus1(get(&md, e))
                        }
                    }
                    TK::Tuple(f) => plus1(f.iter().map(|c| get(&md, c)).max().unwrap_or(0)),
                    TK::Enum(vs) => vs.iter().map(|(_, f)| plus1(f.iter().map(|c| get(&md, c)).max().unwrap_or(0))).min().unwrap_or(INF),
                    TK::Map(kt, vt) => {
                        if self.min_len(*id) == 0 {
                            1
                        } else {
                            plus1(get(&md, kt).max(get(&md, vt)))
                        }
                    }
                    _ => 1,
                };
                if v < get(&md, id) {
                    md.insert(*id, v);
                    changed = true;
                }
            }
            if !changed {
                break;
            }
        }
        for (k, v) in md {
            self.min_depth.insert(k, v);
        }
    }

    fn md(&self, id: LocalTypeId) -> usize {
        self.min_depth.get(&id).copied().unwrap_or(INF)
    }

    /// Wire kinds a value of type `id` may have in this flavour.
    fn wire_kinds(&self, id: LocalTypeId) -> Vec<u8> {
        let Some(k) = self.view.kind(id) else { return vec![] };
        match k {
            TK::Any => {
                let mut v = BASIC_KINDS.to_vec();
                v.extend_from_slice(self.fl.custom_kinds());
                v
            }
            TK::Bool => vec![K_BOOL],
            TK::I8 => vec![K_I8],
            TK::I16 => vec![K_I16],
            TK::I32 => vec![K_I32],
            TK::I64 => vec![K_I64],
            TK::I128 => vec![K_I128],
            TK::U8 => vec![K_U8],
            TK::U16 => vec![K_U16],
            TK::U32 => vec![K_U32],
            TK::U64 => vec![K_U64],
            TK::U128 => vec![K_U128],
            TK::String => vec![K_STRING],
            TK::Tuple(_) => vec![K_TUPLE],
            TK::Enum(_) => vec![K_ENUM],
            TK::Map(_, _) => vec![K_MAP],
            TK::Array(e) => {
                let mut v = vec![K_ARRAY];
                if self.fl == Flavour::Manifest {
                    match self.view.kind(e) {
                        Some(TK::U8) => v.push(MK_BLOB),
                        Some(TK::Custom(CustomTK::Own)) => match self.view.validation(e) {
                            // ENTIRE_WORKTOP is buckets, ENTIRE_AUTH_ZONE is proofs
                            Some(TV::None) | Some(TV::Own(OwnV::IsBucket)) | Some(TV::Own(OwnV::IsProof)) | Some(TV::Own(OwnV::IsTypedObject)) => {
                                v.push(MK_EXPRESSION)
                            }
                            _ => {}
                        },
                        _ => {}
                    }
                }
                v
            }
            TK::Custom(c) => match (self.fl, c) {
                (Flavour::Basic, _) => vec![],
                (Flavour::Scrypto, CustomTK::Reference) => vec![SK_REFERENCE],
                (Flavour::Scrypto, CustomTK::Own) => vec![SK_OWN],
                (Flavour::Scrypto, CustomTK::Decimal) => vec![SK_DECIMAL],
                (Flavour::Scrypto, CustomTK::PreciseDecimal) => vec![SK_PRECISE_DECIMAL],
                (Flavour::Scrypto, CustomTK::NonFungibleLocalId) => vec![SK_NF_LOCAL_ID],
                (Flavour::Manifest, CustomTK::Reference) => vec![MK_ADDRESS],
                (Flavour::Manifest, CustomTK::Own) => match self.view.validation(id) {
                    Some(TV::Own(OwnV::IsBucket)) => vec![MK_BUCKET],
                    Some(TV::Own(OwnV::IsProof)) => vec![MK_PROOF],
                    Some(TV::Own(OwnV::IsGlobalAddressReservation)) => vec![MK_ADDRESS_RESERVATION],
                    Some(TV::Own(OwnV::IsTypedObject)) => vec![MK_BUCKET, MK_PROOF],
                    Some(TV::Own(OwnV::IsVault)) | Some(TV::Own(OwnV::IsKeyValueStore)) => vec![],
                    _ => vec![MK_BUCKET, MK_PROOF, MK_ADDRESS_RESERVATION],
                },
                (Flavour::Manifest, CustomTK::Decimal) => vec![MK_DECIMAL],
                (Flavour::Manifest, CustomTK::PreciseDecimal) => vec![MK_PRECISE_DECIMAL],
                (Flavour::Manifest, CustomTK::NonFungibleLocalId) => vec![MK_NF_LOCAL_ID],
            },
        }
    }

    /// A payload tree for the type `root` of at most `depth_limit` levels; `None` if the type has
    /// no value within the limit (uninhabited, too deep, or not expressible in the flavour).
    pub fn payload(&mut self, root: LocalTypeId, depth_limit: usize) -> Option<Node> {
        self.compute_min_depths(root);
        if self.md(root) > depth_limit {
            return None;
        }
        self.gen(root, depth_limit, true)
    }

    /// First listed kind mostly, another one with probability `alt_kind_chance`.
    fn pick_alt(&mut self, kinds: &[u8]) -> u8 {
        let is_own_family = kinds[0] == MK_BUCKET;
        if kinds.len() > 1 && (is_own_family || self.g.chance(self.alt_kind_chance.0, self.alt_kind_chance.1)) {
            if is_own_family {
                kinds[self.g.index(kinds.len())]
            } else {
                kinds[1 + self.g.index(kinds.len() - 1)]
            }
        } else {
            kinds[0]
        }
    }

    fn pick_len(&mut self, id: LocalTypeId, child_possible: bool) -> Option<usize> {
        let (min, max) = match self.view.validation(id) {
            Some(TV::Len { min, max }) => (min, max),
            _ => (0, usize::MAX),
        };
        if !child_possible {
            return if min == 0 { Some(0) } else { None };
        }
        if min > 70_000 {
            return None;
        }
        let free_max = if self.budget == 0 { 0 } else { self.max_len };
        let hi = max.min(min.max(free_max));
        let n = match self.g.weighted(&[3, 2, 2]) {
            0 => min + self.g.index(hi - min + 1),
            1 => min,
            _ => hi,
        };
        Some(n)
    }

    fn gen(&mut self, id: LocalTypeId, depth_left: usize, explicit_kind: bool) -> Option<Node> {
        let kinds = self.wire_kinds(id);
        if kinds.is_empty() {
            return None;
        }
        // containers need depth for their children; leaf-like alternatives (blob / expression) do not
        let k = if kinds.len() == 1 {
            kinds[0]
        } else if matches!(self.view.kind(id), Some(TK::Any)) {
            let mut vg = ValGen::new(self.g, self.fl, 0);
            let v = vg.value(1);
            v.kind()
        } else {
            self.pick_alt(&kinds)
        };
        self.gen_with_kind(id, k, depth_left, explicit_kind)
    }

    fn leaf_int(&mut self, kind: &TK, val: TV) -> Node {
        // boundary-heavy choice inside [min, max]
        macro_rules! signed {
            ($t:ty, $ctor:path) => {{
                let (lo, hi) = match val {
                    TV::Signed { min, max } => (min, max),
                    _ => (<$t>::MIN as i128, <$t>::MAX as i128),
                };
                let v = match self.g.weighted(&[3, 2, 2, 2]) {
                    0 => range_i128(self.g, lo, hi),
                    1 => lo,
                    2 => hi,
                    _ => 0i128.clamp(lo, hi),
                };
                $ctor(v as $t)
            }};
        }
        macro_rules! unsigned {
            ($t:ty, $ctor:path) => {{
                let (lo, hi) = match val {
                    TV::Unsigned { min, max } => (min, max),
                    _ => (<$t>::MIN as u128, <$t>::MAX as u128),
                };
                let v = match self.g.weighted(&[3, 2, 2]) {
                    0 => {
                        let span = hi - lo;
                        if span == u128::MAX {
                            self.g.u128()
                        } else {
                            lo + self.g.u128() % (span + 1)
                        }
                    }
                    1 => lo,
                    _ => hi,
                };
                $ctor(v as $t)
            }};
        }
        match kind {
            TK::I8 => signed!(i8, Node::I8),
            TK::I16 => signed!(i16, Node::I16),
            TK::I32 => signed!(i32, Node::I32),
            TK::I64 => signed!(i64, Node::I64),
            TK::I128 => {
                let (lo, hi) = match val {
                    TV::Signed { min, max } => (min, max),
                    _ => (i128::MIN, i128::MAX),
                };
                Node::I128(match self.g.weighted(&[3, 2, 2]) {
                    0 => range_i128(self.g, lo, hi),
                    1 => lo,
                    _ => hi,
                })
            }
            TK::U8 => unsigned!(u8, Node::U8),
            TK::U16 => unsigned!(u16, Node::U16),
            TK::U32 => unsigned!(u32, Node::U32),
            TK::U64 => unsigned!(u64, Node::U64),
            TK::U128 => unsigned!(u128, Node::U128),
            _ => unreachable!(),
        }
    }

    fn out_of_range_int(&mut self, kind: &TK, val: TV) -> Option<Node> {
        macro_rules! signed {
            ($t:ty, $ctor:path) => {{
                let TV::Signed { min, max } = val else { return None };
                let below = min > <$t>::MIN as i128;
                let above = max < <$t>::MAX as i128;
                match (below, above) {
                    (false, false) => None,
                    (true, false) => Some($ctor((min - 1) as $t)),
                    (false, true) => Some($ctor((max + 1) as $t)),
                    (true, true) => Some($ctor(if self.g.bool() { (min - 1) as $t } else { (max + 1) as $t })),
                }
            }};
        }
        macro_rules! unsigned {
            ($t:ty, $ctor:path) => {{
                let TV::Unsigned { min, max } = val else { return None };
                let below = min > 0;
                let above = max < <$t>::MAX as u128;
                match (below, above) {
                    (false, false) => None,
                    (true, false) => Some($ctor((min - 1) as $t)),
                    (false, true) => Some($ctor((max + 1) as $t)),
                    (true, true) => Some($ctor(if self.g.bool() { (min - 1) as $t } else { (max + 1) as $t })),
                }
            }};
        }
        match kind {
            TK::I8 => signed!(i8, Node::I8),
            TK::I16 => signed!(i16, Node::I16),
            TK::I32 => signed!(i32, Node::I32),
            TK::I64 => signed!(i64, Node::I64),
            TK::I128 => signed!(i128, Node::I128),
            TK::U8 => unsigned!(u8, Node::U8),
            TK::U16 => unsigned!(u16, Node::U16),
            TK::U32 => unsigned!(u32, Node::U32),
            TK::U64 => unsigned!(u64, Node::U64),
            TK::U128 => unsigned!(u128, Node::U128),
            _ => None,
        }
    }

    fn node_id_with(&mut self, entities: Option<&[u8]>) -> Vec<u8> {
        let mut id = gen_node_id(self.g, true);
        if let Some(e) = entities {
            id[0] = *self.g.pick(e);
        }
        id
    }

    fn custom(&mut self, c: CustomTK, kind: u8, val: TV, wrong_entity: bool) -> Option<Node> {
        let body = match (self.fl, c) {
            (Flavour::Basic, _) => return None,
            (_, CustomTK::Decimal) => gen_decimal_bytes(self.g, 24),
            (_, CustomTK::PreciseDecimal) => gen_decimal_bytes(self.g, 32),
            (_, CustomTK::NonFungibleLocalId) => gen_nf_body(self.g),
            (Flavour::Scrypto, CustomTK::Reference) => {
                let ents = match val {
                    TV::Ref(r) => Some(entities_for_ref(r)),
                    _ => None,
                };
                if wrong_entity {
                    let ok = ents?;
                    let bad: Vec<u8> = ENTITY_TYPES.iter().copied().filter(|e| !ok.contains(e)).collect();
                    if bad.is_empty() {
                        return None;
                    }
                    self.node_id_with(Some(&bad))
                } else {
                    self.node_id_with(ents.as_deref())
                }
            }
            (Flavour::Scrypto, CustomTK::Own) => {
                let ents = match val {
                    TV::Own(o) => entities_for_own(o),
                    _ => None,
                };
                if wrong_entity {
                    let ok = ents?;
                    let bad: Vec<u8> = ENTITY_TYPES.iter().copied().filter(|e| !ok.contains(e)).collect();
                    self.node_id_with(Some(&bad))
                } else {
                    self.node_id_with(ents.as_deref())
                }
            }
            (Flavour::Manifest, CustomTK::Reference) => {
                let ents = match val {
                    TV::Ref(r) => Some(entities_for_ref(r)),
                    _ => None,
                };
                if wrong_entity {
                    let ok = ents?;
                    let bad: Vec<u8> = ENTITY_TYPES.iter().copied().filter(|e| !ok.contains(e)).collect();
                    if bad.is_empty() {
                        return None;
                    }
                    let mut b = vec![0u8];
                    b.extend(self.node_id_with(Some(&bad)));
                    b
                } else if self.g.chance(self.alt_kind_chance.0, self.alt_kind_chance.1) {
                    // a named address can stand for any reference
                    let mut b = vec![1u8];
                    b.extend_from_slice(&(interesting_u64(self.g) as u32).to_le_bytes());
                    b
                } else {
                    let mut b = vec![0u8];
                    b.extend(self.node_id_with(ents.as_deref()));
                    b
                }
            }
            (Flavour::Manifest, CustomTK::Own) => {
                if wrong_entity {
                    return None;
                }
                (interesting_u64(self.g) as u32).to_le_bytes().to_vec()
            }
        };
        Some(Node::Custom { kind, body })
    }

    /// Value of some kind that the type does not admit (for the "wrong kind" defect).
    fn wrong_kind_value(&mut self, id: LocalTypeId) -> Option<Node> {
        let ok = self.wire_kinds(id);
        let mut all = BASIC_KINDS.to_vec();
        all.extend_from_slice(self.fl.custom_kinds());
        let bad: Vec<u8> = all.into_iter().filter(|k| !ok.contains(k)).collect();
        if bad.is_empty() {
            return None;
        }
        let k = *self.g.pick(&bad);
        let mut vg = ValGen::new(self.g, self.fl, 4);
        Some(vg.value_of_kind(k, 2))
    }

    fn gen_with_kind(&mut self, id: LocalTypeId, k: u8, depth_left: usize, explicit_kind: bool) -> Option<Node> {
        if depth_left == 0 {
            return None;
        }
        let me = self.counter;
        self.counter += 1;
        self.budget = self.budget.saturating_sub(1);
        let mutate_here = self.mutate_at == Some(me) && self.mutation.is_none();
        let kind = self.view.kind(id)?;
        let val = self.view.validation(id).unwrap_or(TV::None);
        let child = depth_left - 1;

        if mutate_here && explicit_kind && !matches!(kind, TK::Any) && self.g.chance(1, 3) {
            if let Some(v) = self.wrong_kind_value(id) {
                self.mutation = Some("wrong kind");
                return Some(v);
            }
        }

        match &kind {
            TK::Any => {
                let mut vg = ValGen::new(self.g, self.fl, 6);
                Some(vg.value_of_kind(k, depth_left.min(3)))
            }
            TK::Bool => Some(Node::Bool(self.g.bool())),
            TK::I8 | TK::I16 | TK::I32 | TK::I64 | TK::I128 | TK::U8 | TK::U16 | TK::U32 | TK::U64 | TK::U128 => {
                if mutate_here {
                    if let Some(v) = self.out_of_range_int(&kind, val) {
                        self.mutation = Some("numeric out of range");
                        return Some(v);
                    }
                }
                Some(self.leaf_int(&kind, val))
            }
            TK::String => {
                let (min, max) = match val {
                    TV::Len { min, max } => (min, max),
                    _ => (0, usize::MAX),
                };
                if mutate_here {
                    if min > 0 && (max >= 70_000 || self.g.bool()) {
                        self.mutation = Some("length below minimum");
                        return Some(Node::Str(string_of_len(self.g, min - 1)));
                    }
                    if max < 70_000 {
                        self.mutation = Some("length above maximum");
                        return Some(Node::Str(string_of_len(self.g, max + 1)));
                    }
                }
                if min == 0 && max == usize::MAX {
                    return Some(Node::Str(gen_string(self.g, 6)));
                }
                if min > 70_000 {
                    return None;
                }
                let hi = max.min(min.max(12));
                let n = match self.g.weighted(&[2, 2, 2]) {
                    0 => min + self.g.index(hi - min + 1),
                    1 => min,
                    _ => hi,
                };
                Some(Node::Str(string_of_len(self.g, n)))
            }
            TK::Custom(c) => {
                if mutate_here {
                    if let Some(v) = self.custom(*c, k, val, true) {
                        self.mutation = Some("node id of the wrong entity class");
                        return Some(v);
                    }
                }
                self.custom(*c, k, val, false)
            }
            TK::Tuple(fields) => {
                let mut out = Vec::with_capacity(fields.len());
                for f in fields {
                    out.push(self.gen(*f, child, true)?);
                }
                if mutate_here {
                    if !out.is_empty() && self.g.bool() {
                        out.pop();
                        self.mutation = Some("missing field");
                    } else {
                        out.push(Node::U8(self.g.u8()));
                        self.mutation = Some("extra field");
                    }
                }
                Some(Node::Tuple(out))
            }
            TK::Enum(variants) => {
                if mutate_here && self.g.bool() {
                    let used: Vec<u8> = variants.iter().map(|(d, _)| *d).collect();
                    let free: Vec<u8> = (0..=255u8).filter(|d| !used.contains(d)).collect();
                    if !free.is_empty() {
                        // the nearest unused discriminators are the interesting ones
                        let d = free[self.g.index(free.len().min(3))];
                        self.mutation = Some("unknown variant");
                        return Some(Node::Enum { disc: d, fields: vec![] });
                    }
                }
                let feasible: Vec<usize> = variants
                    .iter()
                    .enumerate()
                    .filter(|(_, (_, f))| f.iter().all(|c| self.md(*c) <= child))
                    .map(|(i, _)| i)
                    .collect();
                if feasible.is_empty() {
                    return None;
                }
                let pick = if self.budget == 0 {
                    // cheapest variant
                    *feasible.iter().min_by_key(|i| variants[**i].1.iter().map(|c| self.md(*c)).max().unwrap_or(0)).unwrap()
                } else {
                    feasible[self.g.index(feasible.len())]
                };
                let (disc, fields) = &variants[pick];
                let mut out = Vec::with_capacity(fields.len());
                for f in fields {
                    out.push(self.gen(*f, child, true)?);
                }
                if mutate_here {
                    if !out.is_empty() && self.g.bool() {
                        out.pop();
                        self.mutation = Some("missing field");
                    } else {
                        out.push(Node::U8(self.g.u8()));
                        self.mutation = Some("extra field");
                    }
                }
                Some(Node::Enum { disc: *disc, fields: out })
            }
            TK::Array(e) => {
                if k == MK_BLOB {
                    return Some(Node::Custom { kind: MK_BLOB, body: self.g.array::<32>().to_vec() });
                }
                if k == MK_EXPRESSION {
                    let x = match self.view.validation(*e) {
                        Some(TV::Own(OwnV::IsBucket)) => 0u8,
                        Some(TV::Own(OwnV::IsProof)) => 1u8,
                        _ => self.g.below(2) as u8,
                    };
                    return Some(Node::Custom { kind: MK_EXPRESSION, body: vec![x] });
                }
                let e = *e;
                let child_ok = child >= 1 && self.md(e) <= child;
                let mut n = self.pick_len(id, child_ok)?;
                if mutate_here {
                    if let TV::Len { min, max } = val {
                        if min > 0 && (max >= 70_000 || self.g.bool()) {
                            n = min - 1;
                            self.mutation = Some("length below minimum");
                        } else if max < 70_000 && child_ok {
                            n = max + 1;
                            self.mutation = Some("length above maximum");
                        }
                    }
                }
                // all elements share one wire kind
                let ekinds = self.wire_kinds(e);
                if ekinds.is_empty() {
                    return if n == 0 && matches!(self.view.kind(e), Some(TK::Custom(_))) { None } else { None };
                }
                let ek = if ekinds.len() == 1 {
                    ekinds[0]
                } else if matches!(self.view.kind(e), Some(TK::Any)) {
                    let mut vg = ValGen::new(self.g, self.fl, 0);
                    vg.value(1).kind()
                } else {
                    self.pick_alt(&ekinds)
                };
                if ek == K_U8 {
                    let eval = self.view.validation(e).unwrap_or(TV::None);
                    let (lo, hi) = match eval {
                        TV::Unsigned { min, max } => (min as u8, max.min(255) as u8),
                        _ => (0, 255),
                    };
                    self.counter += n.min(1);
                    let raw = if n > 64 { bytes_of_len(self.g, n) } else { self.g.bytes(n) };
                    let span = (hi - lo) as u16 + 1;
                    return Some(Node::Bytes(raw.into_iter().map(|b| lo + (b as u16 % span) as u8).collect()));
                }
                let mut elems = Vec::with_capacity(n.min(1024));
                for _ in 0..n {
                    elems.push(self.gen_with_kind(e, ek, child, false)?);
                }
                if elems.len() > 1 && self.g.bool() {
                    let mut uniq: Vec<Node> = Vec::with_capacity(elems.len());
                    for x in elems.iter() {
                        if !uniq.contains(x) {
                            uniq.push(x.clone());
                        }
                    }
                    let min = self.min_len(id);
                    if uniq.len() >= min && self.mutation.is_none() {
                        elems = uniq;
                    }
                }
                Some(Node::Array { ek, elems })
            }
            TK::Map(kt, vt) => {
                let (kt, vt) = (*kt, *vt);
                let child_ok = child >= 1 && self.md(kt) <= child && self.md(vt) <= child;
                let mut n = self.pick_len(id, child_ok)?;
                if mutate_here {
                    if let TV::Len { min, max } = val {
                        if min > 0 && (max >= 70_000 || self.g.bool()) {
                            n = min - 1;
                            self.mutation = Some("length below minimum");
                        } else if max < 70_000 && child_ok {
                            n = max + 1;
                            self.mutation = Some("length above maximum");
                        }
                    }
                }
                let pick = |s: &mut Self, t: LocalTypeId| -> Option<u8> {
                    let ks = s.wire_kinds(t);
                    if ks.is_empty() {
                        return None;
                    }
                    Some(if ks.len() == 1 {
                        ks[0]
                    } else if matches!(s.view.kind(t), Some(TK::Any)) {
                        let mut vg = ValGen::new(s.g, s.fl, 0);
                        vg.value(1).kind()
                    } else {
                        s.pick_alt(&ks)
                    })
                };
                let kk = pick(self, kt)?;
                let vk = pick(self, vt)?;
                let mut entries: Vec<(Node, Node)> = Vec::with_capacity(n.min(1024));
                for _ in 0..n {
                    let key = self.gen_with_kind(kt, kk, child, false)?;
                    let value = self.gen_with_kind(vt, vk, child, false)?;
                    entries.push((key, value));
                }
                // distinct keys whenever the length validation still holds
                let mut uniq: Vec<(Node, Node)> = Vec::with_capacity(entries.len());
                for (k2, v2) in entries.iter() {
                    if !uniq.iter().any(|(k3, _)| k3 == k2) {
                        uniq.push((k2.clone(), v2.clone()));
                    }
                }
                if uniq.len() >= self.min_len(id) && self.mutation.is_none() {
                    entries = uniq;
                }
                Some(Node::Map { kk, vk, entries })
            }
        }
    }
}

/// C22's non-trivial rule on a payload tree: at least two levels of nesting and an enum variant
/// other than 0 or a non-empty collection somewhere.
pub fn tree_is_rich(n: &Node) -> bool {
    fn has(n: &Node) -> bool {
        match n {
            Node::Enum { disc, fields } => *disc != 0 || fields.iter().any(has),
            Node::Tuple(f) => f.iter().any(has),
            Node::Array { elems, .. } => !elems.is_empty(),
            Node::Bytes(b) => !b.is_empty(),
            Node::Map { entries, .. } => !entries.is_empty(),
            _ => false,
        }
    }
    n.depth() >= 3 && has(n)
}
