//! vf-manifest: manifest-level checks (C30 decompile/compile round trip, C31 compiler totality,
//! C36 static validation vs. the bucket/proof lifecycle, C37 resource assertions).

pub mod c30;
pub mod c31;
pub mod c36;
pub mod c37;
pub mod cgen;
pub mod lifecycle;
pub mod mgen;
pub mod vgen;

pub fn checks() -> Vec<vf_core::Check> {
    vec![c30::check(), c31::check(), c36::check(), c37::check()]
}
