fn main() {
    vf_core::main_with(vf_eng_b::checks());
}
