//! C45 WASM package validation is total and enforces the sandbox rules.
//!
//! `ScryptoV1WasmValidator::validate(bytes, blueprints)` is fed (a) R8 modules — ordinary ones, ones
//! breaking exactly one sandbox rule, ones sitting exactly on a limit — (b) byte mutants of valid
//! modules and of the repository's WAT assets, (c) raw bytes. It must never panic. Whenever it
//! accepts, the *output* is re-read with the harness's own parser (wasmparser 0.244) and must obey
//! every rule the property names; whenever the harness's reading of the *input* finds a broken rule
//! the verdict must be an error; modules valid by construction (at or under every limit) must be
//! accepted.

use crate::inspect::{self, Info};
use crate::watgen::{self, Opts, Toggle, LIM_FUNCTIONS, LIM_GLOBALS, LIM_LOCALS, LIM_MEMORY_PAGES, LIM_PARAMS, LIM_TABLE};
use radix_engine::vm::wasm::{PrepareError, ScryptoV1WasmValidator};
use radix_engine::vm::ScryptoVmVersion;
use radix_engine_interface::blueprints::package::PackageDefinition;
use std::sync::OnceLock;
use vf_core::{catch, Check, Gen, Outcome, Part};
use wasmparser::{BlockType, ExternalKind, Operator, ValType};

pub fn version_of(v: u8) -> ScryptoVmVersion {
    match v {
        0 => ScryptoVmVersion::V1_0,
        1 => ScryptoVmVersion::V1_1,
        _ => ScryptoVmVersion::V1_2,
    }
}

fn definition() -> &'static PackageDefinition {
    static D: OnceLock<PackageDefinition> = OnceLock::new();
    D.get_or_init(|| PackageDefinition::new_single_function_test_definition("Test", "f"))
}

pub fn run_validate(bytes: &[u8], version: u8) -> Result<Result<(Vec<u8>, Vec<String>), PrepareError>, String> {
    let def = definition();
    catch(|| ScryptoV1WasmValidator::new(version_of(version)).validate(bytes, def.blueprints.values()))
}

pub fn error_label(e: &PrepareError) -> &'static str {
    match e {
        PrepareError::DeserializationError => "err:DeserializationError",
        PrepareError::ValidationError(_) => "err:ValidationError",
        PrepareError::SerializationError => "err:SerializationError",
        PrepareError::StartFunctionNotAllowed => "err:StartFunctionNotAllowed",
        PrepareError::InvalidImport(_) => "err:InvalidImport",
        PrepareError::InvalidMemory(_) => "err:InvalidMemory",
        PrepareError::InvalidTable(_) => "err:InvalidTable",
        PrepareError::InvalidExportName(_) => "err:InvalidExportName",
        PrepareError::TooManyTargetsInBrTable => "err:TooManyTargetsInBrTable",
        PrepareError::TooManyFunctions => "err:TooManyFunctions",
        PrepareError::TooManyFunctionParams => "err:TooManyFunctionParams",
        PrepareError::TooManyFunctionLocals { .. } => "err:TooManyFunctionLocals",
        PrepareError::TooManyGlobals { .. } => "err:TooManyGlobals",
        PrepareError::NoExportSection => "err:NoExportSection",
        PrepareError::MissingExport { .. } => "err:MissingExport",
        PrepareError::NoScryptoAllocExport => "err:NoScryptoAllocExport",
        PrepareError::NoScryptoFreeExport => "err:NoScryptoFreeExport",
        PrepareError::RejectedByInstructionMetering { .. } => "err:RejectedByInstructionMetering",
        PrepareError::RejectedByStackMetering { .. } => "err:RejectedByStackMetering",
        PrepareError::NotInstantiatable { .. } => "err:NotInstantiatable",
        PrepareError::NotCompilable => "err:NotCompilable",
        PrepareError::ModuleInfoError(_) => "err:ModuleInfoError",
        PrepareError::WasmParserError(_) => "err:WasmParserError",
        PrepareError::Overflow => "err:Overflow",
    }
}

/// What the generator knows about the input.
#[derive(Clone, Copy, PartialEq, Eq, Debug)]
pub enum Expect {
    Unknown,
    /// exactly one sandbox rule was broken on purpose
    Reject(Toggle),
    /// valid by construction, at or under every limit
    Accept,
}

fn stack_limit() -> i32 {
    1024
}

/// `ops[at..]` starts with the stack limiter's preamble for cost `c` and global `gidx`; returns c.
fn preamble_at(ops: &[Operator], at: usize, gidx: u32) -> Option<i32> {
    if at + 10 > ops.len() {
        return None;
    }
    let c = match (&ops[at], &ops[at + 1], &ops[at + 2], &ops[at + 3]) {
        (Operator::GlobalGet { global_index: a }, Operator::I32Const { value }, Operator::I32Add, Operator::GlobalSet { global_index: b }) if *a == gidx && *b == gidx => *value,
        _ => return None,
    };
    match (&ops[at + 4], &ops[at + 5], &ops[at + 6], &ops[at + 7], &ops[at + 8], &ops[at + 9]) {
        (Operator::GlobalGet { global_index: a }, Operator::I32Const { value }, Operator::I32GtU, Operator::If { blockty: BlockType::Empty }, Operator::Unreachable, Operator::End)
            if *a == gidx && *value == stack_limit() => {}
        _ => return None,
    }
    if c > 0 {
        Some(c)
    } else {
        None
    }
}

fn postamble_at(ops: &[Operator], at: usize, gidx: u32, c: i32) -> bool {
    if at + 4 > ops.len() {
        return false;
    }
    matches!(
        (&ops[at], &ops[at + 1], &ops[at + 2], &ops[at + 3]),
        (Operator::GlobalGet { global_index: a }, Operator::I32Const { value }, Operator::I32Sub, Operator::GlobalSet { global_index: b })
            if *a == gidx && *b == gidx && *value == c
    )
}

type Bad = (String, String);
fn bad(sig: &str, msg: String) -> Bad {
    (sig.to_string(), msg)
}

/// Every rule of the property on an accepted module's output (`inp` = the harness's reading of the
/// input, when it could be read).
pub fn check_output(inp: Option<&Info>, out: &[u8], version: u8) -> Result<(), Bad> {
    const P: &str = "ScryptoV1WasmValidator::validate accepts a module whose output ";
    inspect::validates(out, false).map_err(|e| bad(&format!("{}is not a valid float-free module", P), e))?;
    let o = inspect::parse(out).map_err(|e| bad(&format!("{}cannot be parsed", P), e))?;
    if let Some(f) = o.float_use() {
        return Err(bad(&format!("{}contains floating point", P), f));
    }
    if o.start.is_some() {
        return Err(bad(&format!("{}has a start function", P), format!("start = {:?}", o.start)));
    }
    if o.memories.len() != 1 || o.imported_memories != 0 {
        return Err(bad(&format!("{}does not have exactly one own memory", P), format!("memories {:?}, imported {}", o.memories, o.imported_memories)));
    }
    let (initial, max) = o.memories[0];
    match max {
        Some(m) if m <= LIM_MEMORY_PAGES as u64 && initial <= LIM_MEMORY_PAGES as u64 => {}
        _ => return Err(bad(&format!("{}has a memory not bounded by the limit", P), format!("memory {} .. {:?} pages, limit {}", initial, max, LIM_MEMORY_PAGES))),
    }
    if !o.exports.iter().any(|(n, k, i)| n == "memory" && *k == ExternalKind::Memory && *i == 0) {
        return Err(bad(&format!("{}does not export its memory as \"memory\"", P), format!("exports {:?}", o.exports)));
    }
    if o.tables.len() > 1 || o.tables.first().map(|t| t.0 > LIM_TABLE as u64).unwrap_or(false) {
        return Err(bad(&format!("{}has an unbounded table", P), format!("tables {:?}", o.tables)));
    }
    if let Some(b) = o.bad_import(version, true) {
        return Err(bad(&format!("{}has a forbidden import", P), b));
    }
    let gas_pos = o.imports.iter().filter(|(_, _, k)| matches!(k, inspect::ImportKind::Func(_))).position(|(_, n, _)| n == "gas");
    let gas_idx = match gas_pos {
        Some(p) => p as u32,
        None => return Err(bad(&format!("{}has no metering import", P), format!("imports {:?}", o.imports.iter().map(|i| &i.1).collect::<Vec<_>>()))),
    };
    if o.max_br_table() > watgen::LIM_BR_TABLE {
        return Err(bad(&format!("{}has an oversize br_table", P), format!("{} targets", o.max_br_table())));
    }

    // ---- relative to the input ------------------------------------------------------------------
    let i = match inp {
        Some(i) => i,
        None => return Ok(()),
    };
    let n = i.func_types.len();
    if n > LIM_FUNCTIONS as usize {
        return Err(bad("ScryptoV1WasmValidator::validate accepts a module with too many functions", format!("{} functions", n)));
    }
    if o.func_types.len() < n || o.imported_funcs != i.imported_funcs + 1 {
        return Err(bad(&format!("{}lost functions", P), format!("input {}+{} functions, output {}+{}", i.imported_funcs, n, o.imported_funcs, o.func_types.len())));
    }
    let exported_funcs = i.exports.iter().filter(|e| e.1 == ExternalKind::Func).count();
    let elem_funcs: usize = i.elems.iter().map(|e| e.len()).sum();
    if o.func_types.len() - n > exported_funcs + elem_funcs {
        return Err(bad(&format!("{}has more added functions than exports and table entries", P), format!("input {} functions, output {}", n, o.func_types.len())));
    }
    for k in 0..n {
        let (ti, to) = (i.type_of_local_func(k), o.type_of_local_func(k));
        if ti != to {
            return Err(bad(&format!("{}changed a function's type", P), format!("function {}: {:?} became {:?}", k, ti, to)));
        }
        if let Some(t) = ti {
            if t.params.len() > LIM_PARAMS as usize {
                return Err(bad("ScryptoV1WasmValidator::validate accepts a function with too many parameters", format!("local function {} of {} (after {} imports) has {} parameters", k, n, i.imported_funcs, t.params.len())));
            }
        }
        if i.bodies[k].locals != o.bodies[k].locals || o.bodies[k].locals > LIM_LOCALS as u64 {
            return Err(bad(&format!("{}has unbounded or changed locals", P), format!("function {}: {} locals in, {} out", k, i.bodies[k].locals, o.bodies[k].locals)));
        }
    }
    let gl_in = i.globals.len();
    if gl_in as u64 - i.imported_globals as u64 > LIM_GLOBALS as u64 {
        return Err(bad("ScryptoV1WasmValidator::validate accepts a module with too many globals", format!("{} globals", gl_in)));
    }
    if o.globals.len() != gl_in + 1 || o.globals[gl_in] != (ValType::I32, true) {
        return Err(bad(&format!("{}has no injected stack-height global", P), format!("{} globals in, {} out, last {:?}", gl_in, o.globals.len(), o.globals.last())));
    }
    let gidx = gl_in as u32;

    // metering: every original function starts by charging gas unless it starts with a free instruction
    for k in 0..n {
        let ops = &o.bodies[k].ops;
        let charged = matches!((ops.first(), ops.get(1)), (Some(Operator::I64Const { value }), Some(Operator::Call { function_index })) if *value > 0 && *function_index == gas_idx);
        let free_start = matches!(i.bodies[k].ops.first(), Some(Operator::Return) | Some(Operator::End) | Some(Operator::Unreachable) | None);
        if !charged && !free_start {
            return Err(bad(
                &format!("{}has a function that does not start with a gas charge", P),
                format!("function {} starts with {:?} (input started with {:?}); gas function index {}", k, &ops[..ops.len().min(3)], i.bodies[k].ops.first(), gas_idx),
            ));
        }
    }

    // stack limiting: calls to functions with a frame are bracketed; exports and table entries of
    // such functions go through a thunk
    let has_frame = |local: usize| i.type_of_local_func(local).map(|t| t.params.len()).unwrap_or(0) as u64 + i.bodies[local].locals >= 1;
    let first_local_out = o.imported_funcs;
    for k in 0..n {
        let ops = &o.bodies[k].ops;
        for (pos, op) in ops.iter().enumerate() {
            if let Operator::Call { function_index } = op {
                if *function_index < first_local_out || (*function_index - first_local_out) as usize >= n {
                    continue;
                }
                let callee = (*function_index - first_local_out) as usize;
                if !has_frame(callee) {
                    continue;
                }
                let ok = pos >= 10 && preamble_at(ops, pos - 10, gidx).map(|c| postamble_at(ops, pos + 1, gidx, c)).unwrap_or(false);
                if !ok {
                    return Err(bad(
                        &format!("{}has a call that is not bracketed by the stack-height updates", P),
                        format!("function {}, instruction {}: call of local function {}; context {:?}", k, pos, callee, &ops[pos.saturating_sub(10)..(pos + 5).min(ops.len())]),
                    ));
                }
            }
        }
    }
    let check_thunk = |what: String, orig_idx_in: u32, idx_out: u32| -> Result<(), Bad> {
        if orig_idx_in < i.imported_funcs {
            return Ok(());
        }
        let local = (orig_idx_in - i.imported_funcs) as usize;
        if local >= n || !has_frame(local) {
            return Ok(());
        }
        let sig = format!("{}exposes a function without a stack-limiting thunk", P);
        if idx_out < first_local_out + n as u32 {
            return Err(bad(&sig, format!("{} refers to function {} of the output, which is not an added function", what, idx_out)));
        }
        let t = match o.bodies.get((idx_out - first_local_out) as usize) {
            Some(t) => t,
            None => return Err(bad(&sig, format!("{} refers to a missing function {}", what, idx_out))),
        };
        let p = i.type_of_local_func(local).map(|t| t.params.len()).unwrap_or(0);
        let ops = &t.ops;
        let mut ok = ops.len() == p + 10 + 1 + 4 + 1;
        if ok {
            for (a, op) in ops[..p].iter().enumerate() {
                ok &= matches!(op, Operator::LocalGet { local_index } if *local_index as usize == a);
            }
            ok &= match preamble_at(ops, p, gidx) {
                Some(c) => matches!(&ops[p + 10], Operator::Call { function_index } if *function_index == first_local_out + local as u32) && postamble_at(ops, p + 11, gidx, c),
                None => false,
            };
        }
        if !ok {
            return Err(bad(&sig, format!("{} refers to function {} whose body is not a thunk around local function {}: {:?}", what, idx_out, local, ops)));
        }
        Ok(())
    };
    for (name, kind, idx) in &i.exports {
        if *kind != ExternalKind::Func {
            continue;
        }
        match o.exports.iter().find(|e| &e.0 == name && e.1 == ExternalKind::Func) {
            Some(e) => check_thunk(format!("export {:?}", name), *idx, e.2)?,
            None => return Err(bad(&format!("{}lost an export", P), format!("export {:?}", name))),
        }
    }
    for (s, seg) in i.elems.iter().enumerate() {
        let oseg = o.elems.get(s).cloned().unwrap_or_default();
        if oseg.len() != seg.len() {
            return Err(bad(&format!("{}changed an element segment", P), format!("segment {}: {:?} became {:?}", s, seg, oseg)));
        }
        for (j, f) in seg.iter().enumerate() {
            check_thunk(format!("element {} of segment {}", j, s), *f, oseg[j])?;
        }
    }
    Ok(())
}

pub fn expected_error(t: Toggle, e: &PrepareError) -> bool {
    use PrepareError as E;
    match t {
        Toggle::Start => matches!(e, E::StartFunctionNotAllowed),
        Toggle::SecondMemory => matches!(e, E::ValidationError(_) | E::InvalidMemory(_)),
        Toggle::MemInitialTooBig | Toggle::MemMaxTooBig | Toggle::NoMemory | Toggle::MemoryNotExported | Toggle::MemoryExportRenamed => matches!(e, E::InvalidMemory(_)),
        Toggle::TooManyFunctions => matches!(e, E::TooManyFunctions),
        Toggle::TooManyParams => matches!(e, E::TooManyFunctionParams),
        Toggle::TooManyLocals => matches!(e, E::TooManyFunctionLocals { .. }),
        Toggle::TooManyGlobals => matches!(e, E::TooManyGlobals { .. }),
        Toggle::BigBrTable => matches!(e, E::TooManyTargetsInBrTable),
        Toggle::BigTable => matches!(e, E::InvalidTable(_)),
        Toggle::ForeignImportModule | Toggle::UnknownEnvImport | Toggle::GasImport | Toggle::NonFuncEnvImport | Toggle::WrongImportSig | Toggle::FutureImport => matches!(e, E::InvalidImport(_)),
        Toggle::FloatParam | Toggle::FloatResult | Toggle::FloatLocal | Toggle::FloatGlobal | Toggle::FloatConst | Toggle::FloatOp | Toggle::FloatMem | Toggle::FloatConv | Toggle::FloatImportSig => {
            matches!(e, E::ValidationError(_))
        }
        _ => true,
    }
}

/// Judge one input. `g` receives the labels.
pub fn judge(g: &mut Gen, bytes: &[u8], version: u8, expect: Expect, describe: &dyn Fn() -> String) -> Outcome {
    let verdict = match run_validate(bytes, version) {
        Ok(v) => v,
        Err(p) => {
            return Outcome::fail("ScryptoV1WasmValidator::validate panics", format!("panic: {}\nVM version {}\ninput: {}", p, version, describe()));
        }
    };
    // the harness's own reading of the input
    let structurally_valid = inspect::validates(bytes, true).is_ok();
    let info = if structurally_valid { inspect::parse(bytes).ok() } else { None };
    let violation = info.as_ref().and_then(|i| i.violation(version));
    if structurally_valid {
        g.label("input:valid_wasm");
    }
    match verdict {
        Ok((out, _exports)) => {
            g.label("verdict:accepted");
            if let Some((class, detail)) = &violation {
                return Outcome::fail(
                    format!("ScryptoV1WasmValidator::validate accepts a module breaking a sandbox rule: {}", class),
                    format!("{}\nVM version {}\ninput: {}", detail, version, describe()),
                );
            }
            if let Expect::Reject(t) = expect {
                return Outcome::fail(
                    format!("ScryptoV1WasmValidator::validate accepts a module breaking a sandbox rule: {}", t.label()),
                    format!("toggle {:?}\nVM version {}\ninput: {}", t, version, describe()),
                );
            }
            let parsed_in = if info.is_some() { info } else { inspect::parse(bytes).ok() };
            if parsed_in.is_none() {
                g.label("accepted:input_unreadable_by_harness");
            }
            if let Err((sig, msg)) = check_output(parsed_in.as_ref(), &out, version) {
                return Outcome::fail(sig, format!("{}\nVM version {}\ninput: {}", msg, version, describe()));
            }
        }
        Err(e) => {
            g.label("verdict:rejected");
            g.label(error_label(&e));
            match expect {
                Expect::Accept => {
                    return Outcome::fail(
                        format!("ScryptoV1WasmValidator::validate rejects a module that is within every limit: {}", error_label(&e)),
                        format!("error {:?}\nVM version {}\ninput: {}", e, version, describe()),
                    );
                }
                Expect::Reject(t) => {
                    // (which stage rejects is not part of the property: counted, not judged)
                    if !expected_error(t, &e) {
                        g.label("toggled_module_rejected_by_a_later_stage");
                    }
                    if structurally_valid && violation.is_none() {
                        return Outcome::fail(
                            format!("harness: own rule scan misses toggle {}", t.label()),
                            format!("error {:?}\ninput: {}", e, describe()),
                        );
                    }
                }
                Expect::Unknown => {}
            }
        }
    }
    Outcome::Pass
}

// ------------------------------------------------------------------------------------------------
// part (a): generated modules
// ------------------------------------------------------------------------------------------------

fn modules_case(g: &mut Gen) -> Outcome {
    let kind = g.weighted(&[45, 45, 10]);
    let mut opts = Opts { max_funcs: 6, ..Default::default() };
    opts.vm_version = match g.weighted(&[6, 2, 2]) {
        0 => 2,
        1 => 1,
        _ => 0,
    };
    opts.recursion = true;
    opts.export_all = g.chance(1, 4);
    let toggle = match kind {
        0 => Toggle::None,
        1 => {
            // the two huge-module toggles are expensive: 1 in 40 each
            let list = watgen::BAD_TOGGLES;
            let t = list[g.index(list.len() - 1)];
            if g.chance(1, 40) {
                Toggle::TooManyFunctions
            } else {
                t
            }
        }
        _ => {
            let list = watgen::EDGE_TOGGLES;
            let t = list[g.index(list.len() - 1)];
            // validating 8192 functions takes ~10 s (quadratic stack-cost computation): rare
            if g.chance(1, 150) {
                Toggle::EdgeFunctions
            } else {
                t
            }
        }
    };
    if toggle == Toggle::FutureImport {
        opts.vm_version = g.index(2) as u8;
    }
    opts.toggle = toggle;
    let m = watgen::generate(g, &opts);
    g.label(toggle.label());
    g.sample(|| format!("VM version {}; toggle {:?}; {:?}\n{}", opts.vm_version, toggle, m.stats, m.wat));
    let bytes = match wat::parse_str(&m.wat) {
        Ok(b) => b,
        Err(e) => return Outcome::fail("harness: generated WAT does not assemble", format!("{}\n{}", e, m.wat)),
    };
    let s = &m.stats;
    let control = s.loops + s.ifs + s.br_tables > 0;
    g.set_nontrivial(toggle != Toggle::None || (s.funcs >= 3 && control));
    if s.loops > 0 {
        g.label("has:loop");
    }
    if s.indirect_calls > 0 {
        g.label("has:call_indirect");
    }
    if !m.imports.is_empty() {
        g.label("has:host_imports");
    }
    if s.br_tables > 0 {
        g.label("has:br_table");
    }
    let expect = if toggle.is_violation() { Expect::Reject(toggle) } else { Expect::Accept };
    let wat_text = m.wat.clone();
    judge(g, &bytes, opts.vm_version, expect, &|| wat_text.clone())
}

// ------------------------------------------------------------------------------------------------
// part (b): byte mutants
// ------------------------------------------------------------------------------------------------

fn read_leb(b: &[u8], pos: &mut usize) -> Option<u32> {
    let mut v: u64 = 0;
    let mut shift = 0;
    loop {
        let x = *b.get(*pos)?;
        *pos += 1;
        v |= ((x & 0x7f) as u64) << shift;
        if x & 0x80 == 0 {
            break;
        }
        shift += 7;
        if shift > 35 {
            return None;
        }
    }
    u32::try_from(v).ok()
}

fn write_leb(mut v: u32, pad_to: usize, out: &mut Vec<u8>) {
    let mut n = 0;
    loop {
        let mut b = (v & 0x7f) as u8;
        v >>= 7;
        n += 1;
        if v != 0 || n < pad_to {
            b |= 0x80;
        }
        out.push(b);
        if v == 0 && n >= pad_to {
            break;
        }
    }
}

/// (id, payload) list of a well-formed binary.
pub fn split_sections(b: &[u8]) -> Option<Vec<(u8, Vec<u8>)>> {
    if b.len() < 8 {
        return None;
    }
    let mut pos = 8;
    let mut v = vec![];
    while pos < b.len() {
        let id = b[pos];
        pos += 1;
        let len = read_leb(b, &mut pos)? as usize;
        let end = pos.checked_add(len)?;
        if end > b.len() {
            return None;
        }
        v.push((id, b[pos..end].to_vec()));
        pos = end;
    }
    Some(v)
}

pub fn join_sections(secs: &[(u8, Vec<u8>)], pad: usize) -> Vec<u8> {
    let mut out = b"\0asm\x01\0\0\0".to_vec();
    for (id, p) in secs {
        out.push(*id);
        write_leb(p.len() as u32, pad, &mut out);
        out.extend_from_slice(p);
    }
    out
}

fn assets() -> &'static Vec<(String, Vec<u8>)> {
    static A: OnceLock<Vec<(String, Vec<u8>)>> = OnceLock::new();
    A.get_or_init(|| {
        let mut v = vec![];
        let dir = "/repo/radix-engine-tests/assets/wasm";
        let mut names: Vec<String> = std::fs::read_dir(dir).map(|d| d.filter_map(|e| e.ok()).map(|e| e.file_name().to_string_lossy().to_string()).collect()).unwrap_or_default();
        names.sort();
        for n in names {
            if !n.ends_with(".wat") {
                continue;
            }
            if let Ok(text) = std::fs::read_to_string(format!("{}/{}", dir, n)) {
                let text = text.replace("${n}", "10").replace("${bytes}", "1000").replace("${depth}", "10").replace("${buffer_size}", "100");
                if let Ok(b) = wat::parse_str(&text) {
                    v.push((n, b));
                }
            }
        }
        v
    })
}

fn mutate(g: &mut Gen, seed: &[u8], log: &mut Vec<String>) -> Vec<u8> {
    let mut b = seed.to_vec();
    let n = 1 + g.index(3);
    for _ in 0..n {
        let secs = split_sections(&b);
        let choice = g.weighted(&[6, 3, 3, 3, 3, 3, 3, 4, 2, 2, 2]);
        match (choice, secs) {
            (0, _) if !b.is_empty() => {
                let p = g.index(b.len());
                let x = if g.bool() { 1u8 << g.index(8) } else { g.u8() | 1 };
                b[p] ^= x;
                log.push(format!("xor byte {} with {:#x}", p, x));
            }
            (1, _) if !b.is_empty() => {
                let p = g.index(b.len() + 1);
                b.truncate(p);
                log.push(format!("truncate to {}", p));
            }
            (2, Some(mut s)) if !s.is_empty() => {
                let k = g.index(s.len());
                let sec = s.remove(k);
                log.push(format!("delete section #{} (id {})", k, sec.0));
                b = join_sections(&s, 0);
            }
            (3, Some(mut s)) if !s.is_empty() => {
                let k = g.index(s.len());
                let to = g.index(s.len() + 1);
                let sec = s[k].clone();
                log.push(format!("duplicate section #{} (id {}) at {}", k, sec.0, to));
                s.insert(to, sec);
                b = join_sections(&s, 0);
            }
            (4, Some(mut s)) if s.len() >= 2 => {
                let k = g.index(s.len());
                let j = g.index(s.len());
                s.swap(k, j);
                log.push(format!("swap sections #{} and #{}", k, j));
                b = join_sections(&s, 0);
            }
            (5, Some(s)) => {
                let pad = 2 + g.index(5);
                log.push(format!("section sizes as {}-byte LEB128", pad));
                b = join_sections(&s, pad);
            }
            (6, Some(mut s)) if !s.is_empty() => {
                // replace the leading count of a section
                let k = g.index(s.len());
                let mut pos = 0;
                if let Some(old) = read_leb(&s[k].1, &mut pos) {
                    let new = match g.index(5) {
                        0 => old.wrapping_add(1),
                        1 => old.wrapping_sub(1),
                        2 => u32::MAX,
                        3 => 0x7fff_ffff,
                        _ => g.u32(),
                    };
                    let mut p = vec![];
                    write_leb(new, if g.bool() { 5 } else { 0 }, &mut p);
                    p.extend_from_slice(&s[k].1[pos..]);
                    log.push(format!("count of section #{} (id {}): {} -> {}", k, s[k].0, old, new));
                    s[k].1 = p;
                    b = join_sections(&s, 0);
                }
            }
            (7, _) => {
                let p = g.index(b.len() + 1);
                let ins = g.blob(12);
                log.push(format!("insert {} bytes at {}", ins.len(), p));
                let tail = b.split_off(p);
                b.extend_from_slice(&ins);
                b.extend_from_slice(&tail);
            }
            (8, Some(mut s)) => {
                let id = *g.pick(&[0u8, 12, 13, 14, 63, 255, 5, 8]);
                let payload = match id {
                    0 => {
                        let mut p = vec![4u8];
                        p.extend_from_slice(b"name");
                        p.extend(g.blob(16));
                        p
                    }
                    12 => vec![g.u8() & 0x7f],
                    8 => vec![0],
                    _ => g.blob(8),
                };
                let to = g.index(s.len() + 1);
                log.push(format!("insert section id {} ({} bytes) at {}", id, payload.len(), to));
                s.insert(to, (id, payload));
                b = join_sections(&s, 0);
            }
            (9, _) if b.len() >= 8 => {
                let v = *g.pick(&[0u8, 2, 13, 0x0d]);
                b[4] = v;
                if g.bool() {
                    b[6] = 1;
                }
                log.push(format!("version byte {}", v));
            }
            (10, Some(mut s)) if !s.is_empty() => {
                // overwrite a few bytes inside one section
                let k = g.index(s.len());
                if !s[k].1.is_empty() {
                    let n = 1 + g.index(4);
                    for _ in 0..n {
                        let p = g.index(s[k].1.len());
                        s[k].1[p] = g.u8();
                    }
                    log.push(format!("overwrite {} bytes in section #{} (id {})", n, k, s[k].0));
                    b = join_sections(&s, 0);
                }
            }
            _ => {}
        }
    }
    b
}

fn hex_short(b: &[u8]) -> String {
    if b.len() <= 600 {
        hex::encode(b)
    } else {
        format!("{}… ({} bytes)", hex::encode(&b[..600]), b.len())
    }
}

fn mutants_case(g: &mut Gen) -> Outcome {
    let (seed_name, seed): (String, Vec<u8>) = if g.chance(1, 4) && !assets().is_empty() {
        let a = &assets()[g.index(assets().len())];
        g.label("seed:repo_asset");
        (a.0.clone(), a.1.clone())
    } else {
        let opts = Opts { max_funcs: 3, recursion: true, ..Default::default() };
        let m = watgen::generate(g, &opts);
        g.label("seed:generated");
        match wat::parse_str(&m.wat) {
            Ok(b) => ("generated".to_string(), b),
            Err(e) => return Outcome::fail("harness: generated WAT does not assemble", format!("{}\n{}", e, m.wat)),
        }
    };
    let mut log = vec![];
    let bytes = mutate(g, &seed, &mut log);
    let version = 2 - g.weighted(&[8, 1, 1]) as u8;
    g.sample(|| format!("seed {} ({} bytes); {}; mutant {}", seed_name, seed.len(), log.join("; "), hex_short(&bytes)));
    let desc = format!("seed {}; mutations: {}; bytes {}", seed_name, log.join("; "), hex::encode(&bytes));
    let out = judge(g, &bytes, version, Expect::Unknown, &|| desc.clone());
    // non-trivial: the mutant got past deserialisation + validation in the harness's reading
    if inspect::validates(&bytes, true).is_ok() && bytes != seed {
        g.nontrivial();
        g.label("mutant:still_valid_wasm");
    }
    out
}

/// Total on arbitrary bytes: the data is the module (libFuzzer entry).
pub fn c45_bytes_case(data: &[u8]) -> Outcome {
    let mut g = Gen::new(&[]);
    let d = data.to_vec();
    judge(&mut g, data, 2, Expect::Unknown, &|| hex::encode(&d))
}

fn raw_case(g: &mut Gen) -> Outcome {
    let header = g.weighted(&[3, 1]);
    let version = 2 - g.weighted(&[8, 1, 1]) as u8;
    let mut bytes = if header == 0 { b"\0asm\x01\0\0\0".to_vec() } else { vec![] };
    // half of the cases: a sequence of sections with plausible ids and small random payloads
    if g.bool() {
        let n = g.index(6);
        for _ in 0..n {
            let id = g.below(13) as u8;
            let payload = g.blob(24);
            bytes.push(id);
            write_leb(payload.len() as u32, 0, &mut bytes);
            bytes.extend_from_slice(&payload);
        }
        g.label("raw:sections");
    } else {
        bytes.extend(g.rest());
        g.label("raw:bytes");
    }
    g.sample(|| hex_short(&bytes));
    let d = bytes.clone();
    let out = judge(g, &bytes, version, Expect::Unknown, &|| hex::encode(&d));
    if bytes.len() > 8 {
        g.nontrivial();
    }
    out
}

pub fn check() -> Check {
    Check::new(
        "C45",
        "WASM package validation is total and enforces the sandbox rules",
        "ScryptoV1WasmValidator::validate (VM versions V1_0/V1_1/V1_2, blueprint Test::f) on: part modules — R8 modules (1-6 functions over i32/i64 with locals, globals, loads/stores, block/loop/if/br/br_if/br_table, direct and indirect calls, host imports, data segments, tables): 45% ordinary, 45% breaking exactly one sandbox rule (start function; second / oversize / missing / unexported / renamed memory; 8193 functions, 33 parameters, 257 locals, 513 globals, br_table of 257, table of 1025; import from another module, unknown name, `gas`, non-function, wrong signature, newer than the VM version; floating point in a parameter, result, local, global, constant, operator, load/store, conversion or unused type), 10% exactly on a limit; part mutants — 1-3 byte/section-level mutations (bit flips, truncation, section delete/duplicate/swap/insert, padded LEB128 sizes, rewritten counts, version byte) of generated modules and of the repository's WAT assets; part raw — raw bytes and random section sequences. Oracle: never panics; on Ok the output re-read with wasmparser 0.244 validates without floats, has no start, exactly one own memory exported as `memory` with max <= 64, table <= 1024, br_table <= 256, imports = permitted host functions of that VM version with the signatures of scrypto's wasm_api.rs plus one `gas(i64)`, the input's functions unchanged in type and locals (<= 32 / <= 256), one added (mut i32) global, every original function starting with `i64.const c; call gas` unless it starts with a free instruction, every call of a function with a frame bracketed by the stack-height preamble/postamble, exported and table functions with a frame routed through thunks; whenever the harness's own reading of the input finds a broken rule, or exactly one rule was toggled, the verdict is Err; modules valid by construction are accepted. Non-trivial = a toggled module, or an ordinary one with >= 3 functions and control flow; a mutant that is still valid WASM; raw input longer than the header. Distinct = distinct decoded choice sequences.",
    )
    .assume("wasmparser 0.244 and wat 1.244 are trusted for reading and assembling modules; the host interface table is transcribed from scrypto/src/engine/wasm_api.rs and the crypto-utils version split from the protocol updates (anemone, cuttlefish)")
    .assume("the shape of the metering / stack-limiter code (gas charge = i64.const + call, 10+4 instruction bracket, thunks) is taken from radix-wasm-instrument 1.0.0's documentation; functions without parameters and locals are exempt from the bracket/thunk rule because their stack cost may be zero")
    .part(Part::new("modules", 10_000, 500_000, 1500, modules_case))
    .part(Part::new("mutants", 60_000, 3_000_000, 700, mutants_case))
    .part(Part::new("raw", 100_000, 5_000_000, 300, raw_case))
    .min_nontrivial_pct(20.0)
}
