//! C41 Liquidity pools stay solvent and fair.
//!
//! One-, two- and multi-resource pools (pool package v1.1, latest protocol) are created once per
//! world over resources of divisibility 18 / 0 / 2 / 6 / 17 / 18; a case is a history of 1-30 pool
//! operations by three users and the pool manager on one of them. Every observation is read from
//! raw substates (pool vaults, account vaults, pool-unit total supply); the oracle works on exact
//! integers of attos.
//!
//! What the code documents (read from the blueprints, asserted only where the property speaks):
//!  * redemption pays `floor_div(trunc(trunc36(u / S) * R))` per resource, i.e. never more than
//!    `floor_div(R * u / S)`;
//!  * with no pool units in circulation every contribution is accepted in full (no ratio exists;
//!    leftover reserves are "dust" the first contributor gets) — clause (2) therefore allows
//!    `contributed + reserves backed by no units`, clause (4) asserts no ratio in that state;
//!  * with units in circulation, resources whose reserve is empty are returned in full as change,
//!    the others are accepted in one common ratio `k` (computed to 36 decimals), each rounded down
//!    to its divisibility.

use crate::num::*;
use num_bigint::BigInt;
use num_traits::{One, Signed, Zero};
use scrypto_test::prelude::*;
use vf_core::{Check, Failure, Gen, Outcome, Part};
use vf_world::*;

const KEY: &str = "c41";
/// account 0 = pool manager (holds the world badge), accounts 1..=3 = users
const NACC: usize = 4;
const DIVS: [u8; 6] = [18, 0, 2, 6, 17, 18];

#[derive(Clone, Copy, PartialEq, Eq, Debug)]
enum Kind {
    One,
    Two,
    Multi,
}

#[derive(Clone, Debug)]
struct PoolInfo {
    kind: Kind,
    component: ComponentAddress,
    unit: ResourceAddress,
    /// indices into `Ext::res`
    res: Vec<usize>,
    /// reserve vault per pool resource
    vaults: Vec<NodeId>,
    /// pool-unit vault of each account
    unit_vaults: Vec<NodeId>,
}

#[derive(Clone, Debug)]
struct Ext {
    res: Vec<(ResourceAddress, u8)>,
    /// [account][resource] vault
    acct_vaults: Vec<Vec<NodeId>>,
    pools: Vec<PoolInfo>,
}

fn build(w: &mut World) {
    let a0 = w.accounts[0].address;
    let per_account = dec!("1000000000000000000000"); // 10^21 each
    let mut res = Vec::new();
    for d in DIVS {
        let r = w.sim.create_fungible_resource(per_account * dec!(4), d, a0);
        res.push((r, d));
    }
    for i in 1..NACC {
        let mut b = ManifestBuilder::new().lock_fee_from_faucet();
        for (r, _) in &res {
            b = b.withdraw_from_account(a0, *r, per_account);
        }
        let m = b.try_deposit_entire_worktop_or_abort(w.accounts[i].address, None).build();
        w.sim.execute_manifest(m, vec![w.accounts[0].badge()]).expect_commit_success();
    }
    let rule = rule!(require(w.badge));
    let layouts: Vec<(Kind, Vec<usize>)> = vec![
        (Kind::One, vec![0]),
        (Kind::One, vec![1]),
        (Kind::One, vec![2]),
        (Kind::One, vec![3]),
        (Kind::Two, vec![0, 5]),
        (Kind::Two, vec![0, 1]),
        (Kind::Two, vec![1, 2]),
        (Kind::Two, vec![3, 4]),
        (Kind::Two, vec![2, 5]),
        (Kind::Multi, vec![0, 1]),
        (Kind::Multi, vec![0, 3, 1]),
        (Kind::Multi, vec![5, 2, 0]),
        (Kind::Multi, vec![0, 1, 2, 3]),
        (Kind::Multi, vec![0, 1, 2, 3, 4]),
    ];
    let mut pools = Vec::new();
    for (kind, idx) in layouts {
        let b = ManifestBuilder::new().lock_fee_from_faucet();
        let b = match kind {
            Kind::One => b.call_function(
                POOL_PACKAGE,
                ONE_RESOURCE_POOL_BLUEPRINT,
                ONE_RESOURCE_POOL_INSTANTIATE_IDENT,
                OneResourcePoolInstantiateManifestInput {
                    owner_role: OwnerRole::None.into(),
                    pool_manager_rule: rule.clone().into(),
                    resource_address: res[idx[0]].0.into(),
                    address_reservation: None,
                },
            ),
            Kind::Two => b.call_function(
                POOL_PACKAGE,
                TWO_RESOURCE_POOL_BLUEPRINT,
                TWO_RESOURCE_POOL_INSTANTIATE_IDENT,
                TwoResourcePoolInstantiateManifestInput {
                    owner_role: OwnerRole::None.into(),
                    pool_manager_rule: rule.clone().into(),
                    resource_addresses: (res[idx[0]].0.into(), res[idx[1]].0.into()),
                    address_reservation: None,
                },
            ),
            Kind::Multi => b.call_function(
                POOL_PACKAGE,
                MULTI_RESOURCE_POOL_BLUEPRINT,
                MULTI_RESOURCE_POOL_INSTANTIATE_IDENT,
                MultiResourcePoolInstantiateManifestInput {
                    owner_role: OwnerRole::None.into(),
                    pool_manager_rule: rule.clone().into(),
                    resource_addresses: idx.iter().map(|i| res[*i].0.into()).collect(),
                    address_reservation: None,
                },
            ),
        };
        let receipt = w.sim.execute_manifest(b.build(), vec![]);
        let c = receipt.expect_commit_success();
        let component = c.new_component_addresses()[0];
        let unit = c.new_resource_addresses()[0];
        let mut info = PoolInfo { kind, component, unit, res: idx.clone(), vaults: vec![], unit_vaults: vec![] };
        // every account contributes once and redeems everything: creates the accounts' pool-unit
        // vaults and leaves the pool pristine (the only holder of units redeems all of them)
        for a in 0..NACC {
            let acct = w.accounts[a].address;
            let signers = vec![w.accounts[0].badge(), w.accounts[a].badge()];
            let amounts: Vec<BigInt> = idx.iter().map(|i| unit_of(res[*i].1) * 5).collect();
            let m = contribute_manifest(&res, &info, acct, &[amounts], false, Some((a0, w.badge)));
            w.sim.execute_manifest(m, signers.clone()).expect_commit_success();
            let v = w.sim.get_component_vaults(acct, unit);
            assert_eq!(v.len(), 1);
            info.unit_vaults.push(v[0]);
            let held = fungible_vault_balance(w.db(), &v[0]).unwrap();
            let b = ManifestBuilder::new().lock_fee_from_faucet().withdraw_from_account(acct, unit, held).take_all_from_worktop(unit, "units");
            let m = redeem_call(b, &info, "units").try_deposit_entire_worktop_or_abort(acct, None).build();
            w.sim.execute_manifest(m, signers).expect_commit_success();
            if a == 0 {
                for i in &idx {
                    let v = w.sim.get_component_vaults(component, res[*i].0);
                    assert_eq!(v.len(), 1);
                    info.vaults.push(v[0]);
                }
            }
        }
        pools.push(info);
    }
    let mut acct_vaults = Vec::new();
    for a in 0..NACC {
        let mut row = Vec::new();
        for (r, _) in &res {
            let v = w.sim.get_component_vaults(w.accounts[a].address, *r);
            assert_eq!(v.len(), 1);
            row.push(v[0]);
        }
        acct_vaults.push(row);
    }
    w.set_ext(Ext { res, acct_vaults, pools });
}

fn unit_of(d: u8) -> BigInt {
    unit(d)
}

fn d(b: &BigInt) -> Decimal {
    dec(b).expect("amount fits a Decimal")
}

/// withdraw + one bucket per entry of `buckets` (a list of per-resource amount rows; rows after the
/// first give a second bucket of the same resource) + contribute (+ redeem everything received).
fn contribute_manifest(
    res: &[(ResourceAddress, u8)],
    p: &PoolInfo,
    account: ComponentAddress,
    rows: &[Vec<BigInt>],
    then_redeem_all: bool,
    manager_proof: Option<(ComponentAddress, ResourceAddress)>,
) -> TransactionManifestV1 {
    let mut b = ManifestBuilder::new().lock_fee_from_faucet();
    // `contribute` is restricted to the pool manager role: the manager co-signs and shows its badge
    if let Some((manager, badge)) = manager_proof {
        b = b.create_proof_from_account_of_amount(manager, badge, dec!(1));
    }
    let mut names: Vec<String> = Vec::new();
    for (k, i) in p.res.iter().enumerate() {
        let total: BigInt = rows.iter().map(|r| r[k].clone()).sum();
        if total.is_positive() {
            b = b.withdraw_from_account(account, res[*i].0, d(&total));
        }
    }
    for (ri, row) in rows.iter().enumerate() {
        for (k, i) in p.res.iter().enumerate() {
            if ri > 0 && row[k].is_zero() {
                continue;
            }
            let name = format!("b{}_{}", ri, k);
            b = b.take_from_worktop(res[*i].0, d(&row[k]), &name);
            names.push(name);
        }
    }
    let (component, kind) = (p.component, p.kind);
    b = b.with_name_lookup(|b, l| match kind {
        Kind::One => b.call_method(
            component,
            ONE_RESOURCE_POOL_CONTRIBUTE_IDENT,
            OneResourcePoolContributeManifestInput { bucket: l.bucket(&names[0]) },
        ),
        Kind::Two => b.call_method(
            component,
            TWO_RESOURCE_POOL_CONTRIBUTE_IDENT,
            TwoResourcePoolContributeManifestInput { buckets: (l.bucket(&names[0]), l.bucket(&names[1])) },
        ),
        Kind::Multi => b.call_method(
            component,
            MULTI_RESOURCE_POOL_CONTRIBUTE_IDENT,
            MultiResourcePoolContributeManifestInput { buckets: ManifestBucketBatch::from_buckets(names.iter().map(|n| l.bucket(n))) },
        ),
    });
    if then_redeem_all {
        b = b.take_all_from_worktop(p.unit, "units");
        b = redeem_call(b, p, "units");
    }
    b.try_deposit_entire_worktop_or_abort(account, None).build()
}

fn redeem_call(b: ManifestBuilder, p: &PoolInfo, bucket: &str) -> ManifestBuilder {
    let (component, kind) = (p.component, p.kind);
    b.with_name_lookup(|b, l| match kind {
        Kind::One => b.call_method(component, ONE_RESOURCE_POOL_REDEEM_IDENT, OneResourcePoolRedeemManifestInput { bucket: l.bucket(bucket) }),
        Kind::Two => b.call_method(component, TWO_RESOURCE_POOL_REDEEM_IDENT, TwoResourcePoolRedeemManifestInput { bucket: l.bucket(bucket) }),
        Kind::Multi => b.call_method(component, MULTI_RESOURCE_POOL_REDEEM_IDENT, MultiResourcePoolRedeemManifestInput { bucket: l.bucket(bucket) }),
    })
}

#[derive(Clone, Debug, PartialEq, Eq)]
struct State {
    reserves: Vec<BigInt>,
    supply: BigInt,
    /// [account][pool resource]
    bal: Vec<Vec<BigInt>>,
    units: Vec<BigInt>,
}

impl State {
    fn render(&self) -> String {
        let r: Vec<String> = self.reserves.iter().map(show).collect();
        let u: Vec<String> = self.units.iter().map(show).collect();
        format!("reserves [{}] supply {} units [{}]", r.join(", "), show(&self.supply), u.join(", "))
    }
}

fn raw_supply(w: &World, res: ResourceAddress) -> Option<Decimal> {
    w.db()
        .get_substate::<FungibleResourceManagerTotalSupplyFieldSubstate>(
            res.as_node_id(),
            MAIN_BASE_PARTITION,
            FungibleResourceManagerField::TotalSupply,
        )
        .map(|s| s.into_payload().fully_update_and_into_latest_version())
}

fn observe(w: &World, ext: &Ext, p: &PoolInfo) -> Result<State, Failure> {
    let read = |v: &NodeId, what: &str| -> Result<BigInt, Failure> {
        let b = fungible_vault_balance(w.db(), v).ok_or_else(|| fail("harness: vault substate missing", format!("{} {:?}", what, v)))?;
        if b.is_negative() {
            return Err(fail("a vault balance is negative", format!("{} {:?} holds {}", what, v, b)));
        }
        Ok(big(b))
    };
    let mut reserves = Vec::new();
    for v in &p.vaults {
        reserves.push(read(v, "pool reserve vault")?);
    }
    let supply = raw_supply(w, p.unit).ok_or_else(|| fail("harness: pool unit supply missing", String::new()))?;
    let mut bal = Vec::new();
    let mut units = Vec::new();
    for a in 0..NACC {
        let mut row = Vec::new();
        for i in &p.res {
            row.push(read(&ext.acct_vaults[a][*i], "account vault")?);
        }
        bal.push(row);
        units.push(read(&p.unit_vaults[a], "account pool-unit vault")?);
    }
    Ok(State { reserves, supply: big(supply), bal, units })
}

fn fail(sig: &str, msg: String) -> Failure {
    Failure { signature: sig.to_string(), message: msg }
}

#[derive(Debug, PartialEq, Eq)]
enum ErrClass {
    Pool,
    Auth,
    Vault,
    Account,
    MintLimit,
    Other,
}

struct Tx {
    ok: bool,
    class: Option<ErrClass>,
    err: String,
    outputs: Vec<Option<Vec<u8>>>,
}

fn exec(w: &mut World, m: TransactionManifestV1, signer: usize, ctx: &str) -> Result<Tx, Failure> {
    // account 0 (the manager) co-signs everything; whether its badge is shown is up to the manifest
    let mut proofs = vec![w.accounts[0].badge()];
    if signer != 0 {
        proofs.push(w.accounts[signer].badge());
    }
    let run = w.run(m, proofs);
    if let Some(p) = &run.panic {
        return Err(fail("host panic while executing a pool transaction", format!("{}: {}", ctx, p)));
    }
    let Some(c) = run.commit() else {
        return Err(fail("harness: pool transaction was rejected", format!("{}: {}", ctx, run.outcome_string())));
    };
    match &c.outcome {
        TransactionOutcome::Success(outs) => Ok(Tx {
            ok: true,
            class: None,
            err: String::new(),
            outputs: outs
                .iter()
                .map(|o| match o {
                    InstructionOutput::CallReturn(v) => Some(v.clone()),
                    InstructionOutput::None => None,
                })
                .collect(),
        }),
        TransactionOutcome::Failure(e) => {
            let class = match e {
                RuntimeError::ApplicationError(ApplicationError::OneResourcePoolError(_))
                | RuntimeError::ApplicationError(ApplicationError::TwoResourcePoolError(_))
                | RuntimeError::ApplicationError(ApplicationError::MultiResourcePoolError(_)) => ErrClass::Pool,
                RuntimeError::SystemModuleError(SystemModuleError::AuthError(_)) => ErrClass::Auth,
                RuntimeError::ApplicationError(ApplicationError::VaultError(_))
                | RuntimeError::ApplicationError(ApplicationError::BucketError(_)) => ErrClass::Vault,
                RuntimeError::ApplicationError(ApplicationError::AccountError(_)) => ErrClass::Account,
                RuntimeError::ApplicationError(ApplicationError::FungibleResourceManagerError(FungibleResourceManagerError::MaxMintAmountExceeded)) => {
                    ErrClass::MintLimit
                }
                _ => ErrClass::Other,
            };
            let mut s = format!("{:?}", e);
            s.truncate(300);
            Ok(Tx { ok: false, class: Some(class), err: s, outputs: vec![] })
        }
    }
}

fn pool_error_label(err: &str) -> &'static str {
    for (needle, label) in [
        ("DecimalOverflowError", "pool error: DecimalOverflowError"),
        ("ZeroPoolUnitsMinted", "pool error: ZeroPoolUnitsMinted"),
        ("LargerContributionRequiredToMeetRatio", "pool error: LargerContributionRequiredToMeetRatio"),
        ("NonZeroPoolUnitSupplyButZeroReserves", "pool error: NonZeroPoolUnitSupplyButZeroReserves"),
        ("RedeemedZeroTokens", "pool error: RedeemedZeroTokens"),
        ("ContributionOfEmptyBucketError", "pool error: ContributionOfEmptyBucketError"),
        ("NoMinimumRatio", "pool error: NoMinimumRatio"),
        ("MaxMintAmountExceeded", "resource error: MaxMintAmountExceeded"),
        ("InvalidGetRedemptionAmount", "pool error: InvalidGetRedemptionAmount"),
    ] {
        if err.contains(needle) {
            return label;
        }
    }
    "pool error: other"
}

/// Redemption value as returned by `get_redemption_value`, per pool resource.
fn decode_value(ext: &Ext, p: &PoolInfo, bytes: &[u8]) -> Option<Vec<BigInt>> {
    match p.kind {
        Kind::One => scrypto_decode::<Decimal>(bytes).ok().map(|v| vec![big(v)]),
        _ => {
            let m: IndexMap<ResourceAddress, Decimal> = scrypto_decode(bytes).ok()?;
            if m.len() != p.res.len() {
                return None;
            }
            p.res.iter().map(|i| m.get(&ext.res[*i].0).map(|v| big(*v))).collect()
        }
    }
}

fn grv_manifest(p: &PoolInfo, amount: &BigInt) -> TransactionManifestV1 {
    let b = ManifestBuilder::new().lock_fee_from_faucet();
    let a = d(amount);
    match p.kind {
        Kind::One => b.call_method(p.component, ONE_RESOURCE_POOL_GET_REDEMPTION_VALUE_IDENT, OneResourcePoolGetRedemptionValueManifestInput { amount_of_pool_units: a }),
        Kind::Two => b.call_method(p.component, TWO_RESOURCE_POOL_GET_REDEMPTION_VALUE_IDENT, TwoResourcePoolGetRedemptionValueManifestInput { amount_of_pool_units: a }),
        Kind::Multi => b.call_method(p.component, MULTI_RESOURCE_POOL_GET_REDEMPTION_VALUE_IDENT, MultiResourcePoolGetRedemptionValueManifestInput { amount_of_pool_units: a }),
    }
    .build()
}

// ---- generators ------------------------------------------------------------------------------

fn rand_below(g: &mut Gen, cap: &BigInt) -> BigInt {
    // uniform-ish value of a random bit width not above cap's
    if !cap.is_positive() {
        return BigInt::zero();
    }
    let bits = cap.bits();
    let width = 1 + g.below(bits) as u64;
    let nbytes = ((width + 7) / 8) as usize;
    let bytes = g.bytes(nbytes);
    let mut v = BigInt::from_bytes_be(num_bigint::Sign::Plus, &bytes);
    v &= (BigInt::one() << width) - 1;
    if &v > cap {
        v = cap.clone();
    }
    v
}

/// An on-grid amount in 0..=cap (rarely cap + 1 unit: an amount the holder does not have).
fn gen_amount(g: &mut Gen, div: u8, cap: &BigInt, hint: &BigInt) -> BigInt {
    let u = unit(div);
    let v = match g.weighted(&[10, 3, 3, 4, 3, 3, 2, 1]) {
        0 => {
            let m = BigInt::from(1 + g.below(9999));
            let k = g.range_u64((18 - div) as u64, 24) as u32;
            m * pow10(k)
        }
        1 => u.clone(),
        2 => BigInt::from(1 + g.below(1000)) * &u,
        3 => {
            if hint.is_positive() {
                let num = BigInt::from(1 + g.below(20));
                let den = BigInt::from(*g.pick(&[1u64, 2, 3, 7, 10, 100, 1000, 1_000_000, 1_000_000_000]));
                floor_to(&mul_div_floor(hint, &num, &den), div)
            } else {
                BigInt::from(1 + g.below(100)) * pow10(18)
            }
        }
        4 => floor_to(&(cap / BigInt::from(*g.pick(&[2u64, 3, 10, 1000, 1_000_000]))), div),
        5 => floor_to(&rand_below(g, cap), div),
        6 => {
            if g.bool() {
                cap.clone()
            } else {
                cap - &u
            }
        }
        _ => return cap + &u,
    };
    if &v > cap {
        floor_to(cap, div)
    } else if v.is_negative() {
        BigInt::zero()
    } else {
        v
    }
}

fn divs(ext: &Ext, p: &PoolInfo) -> Vec<u8> {
    p.res.iter().map(|i| ext.res[*i].1).collect()
}

pub fn run(g: &mut Gen) -> Outcome {
    with_world(KEY, no_genesis, build, |w| match case(g, w) {
        Ok(()) => Outcome::Pass,
        Err(f) => Outcome::Fail(f),
    })
}

fn case(g: &mut Gen, w: &mut World) -> Result<(), Failure> {
    let ext: Ext = w.ext::<Ext>().clone();
    let pi = match g.weighted(&[3, 4, 5]) {
        0 => g.index(4),
        1 => 4 + g.index(5),
        _ => 9 + g.index(5),
    };
    let p = ext.pools[pi].clone();
    g.label(match (p.kind, p.res.len()) {
        (Kind::One, _) => "pool: one-resource",
        (Kind::Two, _) => "pool: two-resource",
        (Kind::Multi, 2) => "pool: multi-resource (2)",
        (Kind::Multi, 3) => "pool: multi-resource (3)",
        (Kind::Multi, 4) => "pool: multi-resource (4)",
        _ => "pool: multi-resource (5)",
    });
    let dv = divs(&ext, &p);
    let n = p.res.len();
    let mut m = observe(w, &ext, &p)?;
    if !m.supply.is_zero() || m.reserves.iter().any(|r| !r.is_zero()) {
        return Err(fail("harness: pool not pristine at start", m.render()));
    }
    let steps = 1 + g.below(30) as usize;
    let mut log: Vec<String> = vec![format!("pool {:?} over divisibilities {:?}", p.kind, dv)];
    let mut contributors: Vec<usize> = Vec::new();
    let mut skewed = false;
    let mut redeemed_after_skew = false;
    let e36 = pow10(36);

    for _step in 0..steps {
        let holders: Vec<usize> = (1..NACC).filter(|a| m.units[*a].is_positive()).collect();
        let empty = m.supply.is_zero() && m.reserves.iter().all(|r| r.is_zero());
        let weights: [u32; 7] = if empty {
            [40, 0, 6, 6, 0, 2, 1]
        } else {
            [26, if holders.is_empty() { 0 } else { 24 }, 8, 9, 10, 4, 2]
        };
        let op = g.weighted(&weights);
        let before = m.clone();
        match op {
            // ---- contribute / contribute-then-redeem-all --------------------------------------
            0 | 2 => {
                let roundtrip = op == 2;
                let user = 1 + g.index(3);
                let mode = if n == 1 { 0 } else { g.weighted(&[4, 8, 2]) };
                let mut amounts: Vec<BigInt> = Vec::new();
                match mode {
                    1 if m.reserves.iter().any(|r| r.is_positive()) => {
                        // near the pool's ratio: k * reserve, perturbed by a unit or by a surplus
                        let num = BigInt::from(1 + g.below(20));
                        let den = BigInt::from(*g.pick(&[1u64, 2, 3, 7, 10, 100, 1000, 1_000_000, 1_000_000_000]));
                        for k in 0..n {
                            let base = floor_to(&mul_div_floor(&m.reserves[k], &num, &den), dv[k]);
                            let u = unit(dv[k]);
                            let v = match g.weighted(&[6, 2, 2, 2, 1]) {
                                0 => base,
                                1 => base + &u,
                                2 => base - &u,
                                3 => base + gen_amount(g, dv[k], &m.bal[user][k], &m.reserves[k]),
                                _ => BigInt::zero(),
                            };
                            let v = if v.is_negative() { BigInt::zero() } else { v };
                            amounts.push(if v > m.bal[user][k] { floor_to(&m.bal[user][k], dv[k]) } else { v });
                        }
                    }
                    _ => {
                        for k in 0..n {
                            if mode == 2 && g.chance(1, 2) {
                                amounts.push(BigInt::zero());
                            } else {
                                amounts.push(gen_amount(g, dv[k], &m.bal[user][k], &m.reserves[k]));
                            }
                        }
                    }
                }
                // multi pool: sometimes split one resource over two buckets
                let mut rows = vec![amounts.clone()];
                if p.kind == Kind::Multi && g.chance(1, 8) {
                    let k = g.index(n);
                    let part = floor_to(&(&amounts[k] / 3), dv[k]);
                    let mut second = vec![BigInt::zero(); n];
                    second[k] = part.clone();
                    rows[0][k] -= part;
                    rows.push(second);
                }
                let insufficient = (0..n).any(|k| amounts[k] > m.bal[user][k]);
                let desc = format!(
                    "user{} {} [{}]",
                    user,
                    if roundtrip { "contribute+redeem-all" } else { "contribute" },
                    amounts.iter().map(show).collect::<Vec<_>>().join(", ")
                );
                log.push(desc.clone());
                let ctx = format!("{}\nstate before: {}", log.join("\n"), before.render());
                let manifest = contribute_manifest(&ext.res, &p, w.accounts[user].address, &rows, roundtrip, Some((w.accounts[0].address, w.badge)));
                let tx = exec(w, manifest, user, &ctx)?;
                let obs = observe(w, &ext, &p)?;
                if !tx.ok {
                    if obs != m {
                        return Err(fail("a failed pool transaction changed balances", format!("{}\nerror {}\nafter: {}", ctx, tx.err, obs.render())));
                    }
                    let allowed = insufficient || matches!(tx.class, Some(ErrClass::Pool) | Some(ErrClass::MintLimit));
                    if !allowed {
                        return Err(fail(
                            if roundtrip { "contribute+redeem fails outside the pool's documented errors" } else { "contribute fails outside the pool's documented errors" },
                            format!("{}\nerror {}", ctx, tx.err),
                        ));
                    }
                    g.label(if insufficient { "contribute: account balance insufficient (predicted failure)" } else { "contribute: rejected by the pool" });
                    if !insufficient {
                        g.label(pool_error_label(&tx.err));
                        g.count("contribute_rejected", 1);
                    }
                    log.push(format!("  -> failed: {}", tx.err));
                    continue;
                }
                if insufficient {
                    return Err(fail("contribution of more than the account holds succeeded", ctx));
                }
                // nobody else moved
                for a in 0..NACC {
                    if a != user && (obs.bal[a] != m.bal[a] || obs.units[a] != m.units[a]) {
                        return Err(fail("a pool operation changed a bystander's balances", format!("{}\naccount {}", ctx, a)));
                    }
                }
                let dust_state = m.supply.is_zero();
                if roundtrip {
                    // (2) directly: net gain per resource <= reserves backed by no units
                    for k in 0..n {
                        let gain = &obs.bal[user][k] - &m.bal[user][k];
                        let allowance = if dust_state { m.reserves[k].clone() } else { BigInt::zero() };
                        if gain > allowance {
                            return Err(fail(
                                "contributing and immediately redeeming returned more than was contributed",
                                format!("{}\nresource #{} (divisibility {}): net gain {} (unbacked reserves before: {})", ctx, k, dv[k], show(&gain), show(&allowance)),
                            ));
                        }
                        if &m.reserves[k] - &gain != obs.reserves[k] {
                            return Err(fail(
                                "pool reserves and account balances do not add up after contribute+redeem",
                                format!("{}\nresource #{}: reserve {} -> {}, user gain {}", ctx, k, show(&m.reserves[k]), show(&obs.reserves[k]), show(&gain)),
                            ));
                        }
                    }
                    if obs.units[user] != m.units[user] || obs.supply != m.supply {
                        return Err(fail("pool unit supply changed over contribute+redeem-all", format!("{}\nafter: {}", ctx, obs.render())));
                    }
                    g.label("round trip in one transaction");
                    g.count("roundtrip_ok", 1);
                    if dust_state && m.reserves.iter().any(|r| r.is_positive()) {
                        g.label("round trip in the dust state (supply 0, reserves > 0)");
                    }
                    log.push(format!("  -> ok, {}", obs.render()));
                    m = obs;
                    continue;
                }
                let minted = &obs.units[user] - &m.units[user];
                if !minted.is_positive() {
                    return Err(fail("successful contribution minted no pool units", format!("{}\nafter: {}", ctx, obs.render())));
                }
                // (5) supply = sum minted - burned
                if obs.supply != &m.supply + &minted {
                    return Err(fail(
                        "pool unit supply differs from units minted minus units burned",
                        format!("{}\nsupply {} -> {}, contributor received {}", ctx, show(&m.supply), show(&obs.supply), show(&minted)),
                    ));
                }
                let mut accepted = Vec::new();
                for k in 0..n {
                    let a = &m.bal[user][k] - &obs.bal[user][k];
                    // (4) provided = taken + change: what left the account is what entered the reserve
                    if a.is_negative() || a > amounts[k] {
                        return Err(fail(
                            "contribution took an amount outside 0..=provided",
                            format!("{}\nresource #{}: provided {}, account decreased by {}", ctx, k, show(&amounts[k]), show(&a)),
                        ));
                    }
                    if &m.reserves[k] + &a != obs.reserves[k] {
                        return Err(fail(
                            "contribution: provided != taken + change (reserve increase differs from what left the account)",
                            format!("{}\nresource #{}: provided {}, account decreased by {}, reserve {} -> {}", ctx, k, show(&amounts[k]), show(&a), show(&m.reserves[k]), show(&obs.reserves[k])),
                        ));
                    }
                    if !on_grid(&a, dv[k]) {
                        return Err(fail("contribution took an amount off the resource's divisibility", format!("{}\nresource #{} took {}", ctx, k, show(&a))));
                    }
                    accepted.push(a);
                }
                if accepted.iter().zip(&amounts).any(|(a, p)| a < p) {
                    g.label("contribution with change returned");
                }
                // (4) ratio, only when units are in circulation (otherwise the pool documents that
                // everything is accepted)
                if !dust_state && n > 1 {
                    let nz: Vec<usize> = (0..n).filter(|k| m.reserves[*k].is_positive()).collect();
                    for k in 0..n {
                        if m.reserves[k].is_zero() && !accepted[k].is_zero() {
                            return Err(fail(
                                "contribution accepted a resource whose reserve is empty while units are in circulation",
                                format!("{}\nresource #{} accepted {}", ctx, k, show(&accepted[k])),
                            ));
                        }
                    }
                    if nz.len() < n {
                        g.label("contribution with an empty reserve (one-sided)");
                    }
                    for &i in &nz {
                        for &j in &nz {
                            if i == j {
                                continue;
                            }
                            // a_i / r_i <= (a_j + unit_j) / r_j + 2e-36
                            let lhs = &accepted[i] * &m.reserves[j] * &e36;
                            let rhs = (&accepted[j] + unit(dv[j])) * &m.reserves[i] * &e36 + BigInt::from(2) * &m.reserves[i] * &m.reserves[j];
                            if lhs > rhs {
                                return Err(fail(
                                    "contribution accepted resources out of the pool's reserve ratio by more than one unit of divisibility",
                                    format!(
                                        "{}\naccepted [{}] against reserves [{}]: resource #{} vs #{}",
                                        ctx,
                                        accepted.iter().map(show).collect::<Vec<_>>().join(", "),
                                        m.reserves.iter().map(show).collect::<Vec<_>>().join(", "),
                                        i,
                                        j
                                    ),
                                ));
                            }
                        }
                    }
                    g.label("contribution in ratio checked");
                } else if dust_state && m.reserves.iter().any(|r| r.is_positive()) {
                    g.label("contribution in the dust state (supply 0, reserves > 0)");
                }
                if !contributors.contains(&user) {
                    contributors.push(user);
                }
                g.count("contribute_ok", 1);
                log.push(format!("  -> ok, minted {}, {}", show(&minted), obs.render()));
                m = obs;
                // (2) through get_redemption_value of exactly the units received
                let ctx2 = format!("{}\nthen get_redemption_value({})", log.join("\n"), show(&minted));
                let tx = exec(w, grv_manifest(&p, &minted), user, &ctx2)?;
                let again = observe(w, &ext, &p)?;
                if again != m {
                    return Err(fail("get_redemption_value changed balances", ctx2));
                }
                if tx.ok {
                    let Some(value) = tx.outputs.get(1).and_then(|o| o.as_ref()).and_then(|b| decode_value(&ext, &p, b)) else {
                        return Err(fail("harness: cannot decode get_redemption_value output", ctx2));
                    };
                    for k in 0..n {
                        let allowance = &accepted[k] + if dust_state { before.reserves[k].clone() } else { BigInt::zero() };
                        if value[k] > allowance {
                            return Err(fail(
                                "the units received for a contribution are immediately worth more than was contributed",
                                format!("{}\nresource #{} (divisibility {}): contributed {}, unbacked before {}, redemption value {}", ctx2, k, dv[k], show(&accepted[k]), if dust_state { show(&before.reserves[k]) } else { "0".into() }, show(&value[k])),
                            ));
                        }
                    }
                    g.count("roundtrip_value_checks", 1);
                } else if tx.class != Some(ErrClass::Pool) {
                    return Err(fail("get_redemption_value fails outside the pool's documented errors", format!("{}\nerror {}", ctx2, tx.err)));
                }
            }
            // ---- redeem ---------------------------------------------------------------------
            1 => {
                let user = *g.pick(&holders);
                let have = m.units[user].clone();
                let u = match g.weighted(&[5, 4, 3, 3, 2, 1]) {
                    0 => have.clone(),
                    1 => &have / 2,
                    2 => BigInt::one(),
                    3 => rand_below(g, &have),
                    4 => &have / 3,
                    _ => &have + 1,
                };
                let u = if u.is_zero() { BigInt::one() } else { u };
                let insufficient = u > have;
                log.push(format!("user{} redeem {}", user, show(&u)));
                let ctx = format!("{}\nstate before: {}", log.join("\n"), before.render());
                // (5) ask first
                let mut quoted: Option<Vec<BigInt>> = None;
                if u <= m.supply {
                    let tx = exec(w, grv_manifest(&p, &u), user, &ctx)?;
                    if tx.ok {
                        quoted = tx.outputs.get(1).and_then(|o| o.as_ref()).and_then(|b| decode_value(&ext, &p, b));
                        if quoted.is_none() {
                            return Err(fail("harness: cannot decode get_redemption_value output", ctx));
                        }
                    } else if tx.class != Some(ErrClass::Pool) {
                        return Err(fail("get_redemption_value fails outside the pool's documented errors", format!("{}\nerror {}", ctx, tx.err)));
                    }
                }
                let b = ManifestBuilder::new().lock_fee_from_faucet().withdraw_from_account(w.accounts[user].address, p.unit, d(&u)).take_all_from_worktop(p.unit, "units");
                let manifest = redeem_call(b, &p, "units").try_deposit_entire_worktop_or_abort(w.accounts[user].address, None).build();
                let tx = exec(w, manifest, user, &ctx)?;
                let obs = observe(w, &ext, &p)?;
                if !tx.ok {
                    if obs != m {
                        return Err(fail("a failed pool transaction changed balances", format!("{}\nerror {}\nafter: {}", ctx, tx.err, obs.render())));
                    }
                    if insufficient {
                        g.label("redeem: more units than held (predicted failure)");
                    } else if tx.class == Some(ErrClass::Pool) {
                        g.label("redeem: rejected by the pool");
                        g.label(pool_error_label(&tx.err));
                        g.count("redeem_rejected", 1);
                    } else if tx.class == Some(ErrClass::Vault) {
                        return Err(fail("redeem computed an amount the reserve vault cannot pay", format!("{}\nerror {}", ctx, tx.err)));
                    } else {
                        return Err(fail("redeem fails outside the pool's documented errors", format!("{}\nerror {}", ctx, tx.err)));
                    }
                    log.push(format!("  -> failed: {}", tx.err));
                    continue;
                }
                if insufficient {
                    return Err(fail("redeeming more units than the account holds succeeded", ctx));
                }
                for a in 0..NACC {
                    if a != user && (obs.bal[a] != m.bal[a] || obs.units[a] != m.units[a]) {
                        return Err(fail("a pool operation changed a bystander's balances", format!("{}\naccount {}", ctx, a)));
                    }
                }
                if obs.units[user] != &have - &u || obs.supply != &m.supply - &u {
                    return Err(fail(
                        "pool unit supply differs from units minted minus units burned",
                        format!("{}\nredeemed {}, supply {} -> {}, holder {} -> {}", ctx, show(&u), show(&m.supply), show(&obs.supply), show(&have), show(&obs.units[user])),
                    ));
                }
                for k in 0..n {
                    let paid = &obs.bal[user][k] - &m.bal[user][k];
                    if paid.is_negative() {
                        return Err(fail("redeem took resources from the redeemer", format!("{}\nresource #{}: {}", ctx, k, show(&paid))));
                    }
                    // (3) conservation: what the reserve lost is what the redeemer got
                    if &m.reserves[k] - &paid != obs.reserves[k] {
                        return Err(fail(
                            "redeem: reserve decrease differs from what the redeemer received",
                            format!("{}\nresource #{}: reserve {} -> {}, received {}", ctx, k, show(&m.reserves[k]), show(&obs.reserves[k]), show(&paid)),
                        ));
                    }
                    // (1) pro-rata share rounded down to divisibility
                    let bound = floor_to(&mul_div_floor(&m.reserves[k], &u, &m.supply), dv[k]);
                    if paid > bound {
                        return Err(fail(
                            "redemption paid more than the pro-rata share rounded down to the divisibility",
                            format!("{}\nresource #{} (divisibility {}): paid {}, floor(reserve*units/supply) = {}", ctx, k, dv[k], show(&paid), show(&bound)),
                        ));
                    }
                    if let Some(q) = &quoted {
                        if q[k] != paid {
                            return Err(fail(
                                "get_redemption_value differs from what redeem then pays",
                                format!("{}\nresource #{}: quoted {}, paid {}", ctx, k, show(&q[k]), show(&paid)),
                            ));
                        }
                    }
                    if paid < bound {
                        g.label("redemption strictly below the exact share (truncation)");
                    }
                }
                if quoted.is_some() {
                    g.count("quote_equals_payment_checks", 1);
                }
                g.count("redeem_ok", 1);
                if skewed {
                    redeemed_after_skew = true;
                }
                if u == have {
                    g.label("redeem all units of a holder");
                }
                if u.is_one() {
                    g.label("redeem 1 atto of units");
                }
                if obs.supply.is_zero() && obs.reserves.iter().any(|r| r.is_positive()) {
                    g.label("dust state reached (supply 0, reserves > 0)");
                }
                log.push(format!("  -> ok, {}", obs.render()));
                m = obs;
            }
            // ---- protected deposit --------------------------------------------------------------
            6 if g.bool() => {
                // contribute is restricted to the manager role: without the badge it must be refused
                let user = 1 + g.index(3);
                let amounts: Vec<BigInt> = (0..n).map(|k| if m.bal[user][k] >= unit(dv[k]) { unit(dv[k]) } else { BigInt::zero() }).collect();
                log.push(format!("user{} contribute without the manager badge", user));
                let ctx = format!("{}\nstate before: {}", log.join("\n"), before.render());
                let manifest = contribute_manifest(&ext.res, &p, w.accounts[user].address, &[amounts], false, None);
                let tx = exec(w, manifest, user, &ctx)?;
                let obs = observe(w, &ext, &p)?;
                if tx.ok || tx.class != Some(ErrClass::Auth) {
                    return Err(fail("contribute without the manager badge was not refused by auth", format!("{}\noutcome: {}", ctx, if tx.ok { "success".into() } else { tx.err.clone() })));
                }
                if obs != m {
                    return Err(fail("a failed pool transaction changed balances", format!("{}\nerror {}", ctx, tx.err)));
                }
                g.label("protected op rejected (auth / funds, predicted)");
            }
            3 | 6 => {
                let unauthorized = op == 6;
                let k = g.index(n);
                let who = if unauthorized { 1 + g.index(3) } else { 0 };
                let amount = gen_amount(g, dv[k], &m.bal[who][k], &m.reserves[k]);
                let insufficient = amount > m.bal[who][k];
                log.push(format!("{} protected_deposit #{} {}", if unauthorized { format!("user{} (no badge)", who) } else { "manager".into() }, k, show(&amount)));
                let ctx = format!("{}\nstate before: {}", log.join("\n"), before.render());
                let acct = w.accounts[who].address;
                let mut b = ManifestBuilder::new().lock_fee_from_faucet();
                if !unauthorized {
                    b = b.create_proof_from_account_of_amount(w.accounts[0].address, w.badge, dec!(1));
                }
                if amount.is_positive() {
                    b = b.withdraw_from_account(acct, ext.res[p.res[k]].0, d(&amount));
                }
                b = b.take_from_worktop(ext.res[p.res[k]].0, d(&amount), "dep");
                let (component, kind) = (p.component, p.kind);
                let manifest = b
                    .with_name_lookup(|b, l| match kind {
                        Kind::One => b.call_method(component, ONE_RESOURCE_POOL_PROTECTED_DEPOSIT_IDENT, OneResourcePoolProtectedDepositManifestInput { bucket: l.bucket("dep") }),
                        Kind::Two => b.call_method(component, TWO_RESOURCE_POOL_PROTECTED_DEPOSIT_IDENT, TwoResourcePoolProtectedDepositManifestInput { bucket: l.bucket("dep") }),
                        Kind::Multi => b.call_method(component, MULTI_RESOURCE_POOL_PROTECTED_DEPOSIT_IDENT, MultiResourcePoolProtectedDepositManifestInput { bucket: l.bucket("dep") }),
                    })
                    .build();
                let tx = exec(w, manifest, who, &ctx)?;
                let obs = observe(w, &ext, &p)?;
                let expect_ok = !unauthorized && !insufficient;
                if tx.ok != expect_ok {
                    return Err(fail(
                        if expect_ok { "protected_deposit by the manager failed" } else { "protected_deposit succeeded without the manager badge or without funds" },
                        format!("{}\noutcome: {}", ctx, if tx.ok { "success".into() } else { tx.err.clone() }),
                    ));
                }
                if !tx.ok {
                    if unauthorized && !insufficient && tx.class != Some(ErrClass::Auth) {
                        return Err(fail("protected_deposit without the badge failed with a non-auth error", format!("{}\nerror {}", ctx, tx.err)));
                    }
                    if obs != m {
                        return Err(fail("a failed pool transaction changed balances", format!("{}\nerror {}", ctx, tx.err)));
                    }
                    g.label("protected op rejected (auth / funds, predicted)");
                    continue;
                }
                let mut want = m.clone();
                want.reserves[k] += &amount;
                want.bal[0][k] -= &amount;
                if obs != want {
                    return Err(fail("protected_deposit moved something else than the deposited amount", format!("{}\nafter: {}", ctx, obs.render())));
                }
                if amount.is_positive() {
                    skewed = true;
                }
                log.push(format!("  -> ok, {}", obs.render()));
                m = obs;
            }
            // ---- protected withdraw -------------------------------------------------------------
            4 => {
                let k = g.index(n);
                let r = m.reserves[k].clone();
                let u = unit(dv[k]);
                let amount = match g.weighted(&[5, 4, 4, 2, 3, 2]) {
                    0 => r.clone(),
                    1 => floor_to(&(&r / 2), dv[k]),
                    2 => floor_to(&rand_below(g, &r), dv[k]),
                    3 => &r + &u,
                    4 => floor_to(&rand_below(g, &r), dv[k]) + rand_below(g, &(&u - 1)), // off-grid when divisibility < 18
                    _ => u.clone(),
                };
                let strategy = match g.weighted(&[5, 3, 1, 1, 1, 1, 1, 1]) {
                    0 => WithdrawStrategy::Exact,
                    1 => WithdrawStrategy::Rounded(RoundingMode::ToNegativeInfinity),
                    2 => WithdrawStrategy::Rounded(RoundingMode::ToPositiveInfinity),
                    3 => WithdrawStrategy::Rounded(RoundingMode::ToZero),
                    4 => WithdrawStrategy::Rounded(RoundingMode::AwayFromZero),
                    5 => WithdrawStrategy::Rounded(RoundingMode::ToNearestMidpointTowardZero),
                    6 => WithdrawStrategy::Rounded(RoundingMode::ToNearestMidpointAwayFromZero),
                    _ => WithdrawStrategy::Rounded(RoundingMode::ToNearestMidpointToEven),
                };
                let effective = match strategy {
                    WithdrawStrategy::Exact => {
                        if on_grid(&amount, dv[k]) {
                            Some(amount.clone())
                        } else {
                            None
                        }
                    }
                    WithdrawStrategy::Rounded(mode) => Some(round_to(&amount, dv[k], mode)),
                };
                let expect: Option<BigInt> = effective.filter(|e| e <= &r);
                log.push(format!("manager protected_withdraw #{} {} {:?}", k, show(&amount), strategy));
                let ctx = format!("{}\nstate before: {}", log.join("\n"), before.render());
                let a0 = w.accounts[0].address;
                let b = ManifestBuilder::new().lock_fee_from_faucet().create_proof_from_account_of_amount(a0, w.badge, dec!(1));
                let ra = ext.res[p.res[k]].0;
                let b = match p.kind {
                    Kind::One => b.call_method(p.component, ONE_RESOURCE_POOL_PROTECTED_WITHDRAW_IDENT, OneResourcePoolProtectedWithdrawManifestInput { amount: d(&amount), withdraw_strategy: strategy }),
                    Kind::Two => b.call_method(
                        p.component,
                        TWO_RESOURCE_POOL_PROTECTED_WITHDRAW_IDENT,
                        TwoResourcePoolProtectedWithdrawManifestInput { resource_address: ra.into(), amount: d(&amount), withdraw_strategy: strategy },
                    ),
                    Kind::Multi => b.call_method(
                        p.component,
                        MULTI_RESOURCE_POOL_PROTECTED_WITHDRAW_IDENT,
                        MultiResourcePoolProtectedWithdrawManifestInput { resource_address: ra.into(), amount: d(&amount), withdraw_strategy: strategy },
                    ),
                };
                let manifest = b.try_deposit_entire_worktop_or_abort(a0, None).build();
                let tx = exec(w, manifest, 0, &ctx)?;
                let obs = observe(w, &ext, &p)?;
                match (&expect, tx.ok) {
                    (Some(e), true) => {
                        let mut want = m.clone();
                        want.reserves[k] -= e;
                        want.bal[0][k] += e;
                        if obs != want {
                            return Err(fail(
                                "protected_withdraw moved something else than the requested amount under its strategy",
                                format!("{}\nexpected {} to move; after: {} manager holds {}", ctx, show(e), obs.render(), show(&obs.bal[0][k])),
                            ));
                        }
                        if e.is_positive() {
                            skewed = true;
                        }
                        if e == &r && r.is_positive() {
                            g.label("manager withdrew a whole reserve");
                        }
                        log.push(format!("  -> ok, {}", obs.render()));
                        m = obs;
                    }
                    (None, false) => {
                        if obs != m {
                            return Err(fail("a failed pool transaction changed balances", format!("{}\nerror {}", ctx, tx.err)));
                        }
                        g.label("protected op rejected (amount off-grid or above the reserve, predicted)");
                    }
                    (Some(e), false) => {
                        return Err(fail("protected_withdraw of an available amount by the manager failed", format!("{}\nexpected {} to move; error {}", ctx, show(e), tx.err)));
                    }
                    (None, true) => {
                        return Err(fail("protected_withdraw of an unavailable amount succeeded", format!("{}\nafter: {}", ctx, obs.render())));
                    }
                }
            }
            // ---- get_redemption_value ---------------------------------------------------------
            _ => {
                let s = m.supply.clone();
                let u = match g.weighted(&[4, 3, 2, 1, 1]) {
                    0 => rand_below(g, &s),
                    1 => s.clone(),
                    2 => BigInt::one(),
                    3 => &s + 1,
                    _ => BigInt::zero(),
                };
                log.push(format!("get_redemption_value {}", show(&u)));
                let ctx = format!("{}\nstate before: {}", log.join("\n"), before.render());
                let tx = exec(w, grv_manifest(&p, &u), 1, &ctx)?;
                let obs = observe(w, &ext, &p)?;
                if obs != m {
                    return Err(fail("get_redemption_value changed balances", ctx));
                }
                let valid = u.is_positive() && u <= s;
                if !valid {
                    if tx.ok {
                        return Err(fail("get_redemption_value accepted an amount outside 0 < amount <= supply", ctx));
                    }
                    g.label("get_redemption_value: invalid amount rejected");
                    continue;
                }
                if !tx.ok {
                    if tx.class != Some(ErrClass::Pool) {
                        return Err(fail("get_redemption_value fails outside the pool's documented errors", format!("{}\nerror {}", ctx, tx.err)));
                    }
                    continue;
                }
                let Some(value) = tx.outputs.get(1).and_then(|o| o.as_ref()).and_then(|b| decode_value(&ext, &p, b)) else {
                    return Err(fail("harness: cannot decode get_redemption_value output", ctx));
                };
                for k in 0..n {
                    let bound = floor_to(&mul_div_floor(&m.reserves[k], &u, &s), dv[k]);
                    if value[k] > bound || value[k].is_negative() {
                        return Err(fail(
                            "get_redemption_value exceeds the pro-rata share rounded down to the divisibility",
                            format!("{}\nresource #{} (divisibility {}): value {}, floor(reserve*units/supply) = {}", ctx, k, dv[k], show(&value[k]), show(&bound)),
                        ));
                    }
                }
            }
        }
    }

    // whole-ledger second opinion: supply == sum of vaults for every resource
    let problems = Totals::scan(w.db()).supply_problems();
    if !problems.is_empty() {
        return Err(fail("ledger scan after the history: supply and vault totals disagree", format!("{}\n{:?}", log.join("\n"), problems)));
    }
    if contributors.len() >= 2 && redeemed_after_skew {
        g.nontrivial();
    }
    if contributors.len() >= 2 {
        g.label(">= 2 contributors");
    }
    if redeemed_after_skew {
        g.label("redemption after the manager skewed reserves");
    }
    g.count("steps", steps as u64);
    g.sample(|| log.join("\n"));
    Ok(())
}

pub fn check() -> Check {
    Check::new(
        "C41",
        "Liquidity pools stay solvent and fair",
        "One pool out of 14 (4 one-resource, 5 two-resource, 5 multi-resource with 2-5 resources; divisibilities 18/0/2/6/17/18; pool package v1.1) created once per world with the world badge as manager; history of 1-30 operations by 3 users and the manager: contribute (independent amounts incl. 1 unit, 1 atto, 10^-18..10^21, whole balance; amounts k*reserve perturbed by +-1 unit or a surplus; zero / missing / split buckets), contribute-then-redeem-all in one transaction, redeem (all, half, third, 1 atto, random, more than held), protected_deposit, protected_withdraw (all, half, random, off-grid, above reserve; Exact and all 7 rounding modes), get_redemption_value, unauthorised protected calls. Balances are read from raw vault / total-supply substates after every transaction. Oracle on exact atto integers: (1) redeem pays per resource <= floor_div(reserve*units/supply); (2) contribute+redeem-all nets <= reserves that were backed by no units (supply 0 before), and get_redemption_value of the units just received <= contributed + those; (3) vault balances never negative, reserve change == opposite account change for every operation, failed transactions change nothing; (4) with units in circulation: empty-reserve resources are returned in full, accepted amounts a_i satisfy a_i/r_i <= (a_j+unit_j)/r_j + 2e-36 pairwise, on-grid, 0<=a_i<=provided, provided = taken + change by conservation; (5) supply == previous + received - redeemed, get_redemption_value == what redeem pays in the next transaction. Non-trivial = >= 2 contributors and a successful redemption after a protected deposit/withdraw changed reserves. Distinct = distinct decoded choice sequences.",
    )
    .assume("pool-internal rejections (DecimalOverflowError, ZeroPoolUnitsMinted, RedeemedZeroTokens, LargerContributionRequiredToMeetRatio, NonZeroPoolUnitSupplyButZeroReserves, mint limit) are accepted as outcomes of contribute/redeem: the property bounds what is paid, not when the pool must accept")
    .assume("with no pool units in circulation no ratio exists (documented: contribution accepted in full, first contributor gets leftover reserves); the ratio clause is asserted only with units in circulation, with 2e-36 slack for the 36-decimal ratio")
    .part(Part::new("history", 2_500, 150_000, 2600, run))
    .min_nontrivial_pct(8.0)
}
