//! C18 Pruning never removes nodes of the current state tree.

use crate::model::*;
use crate::smt;
use crate::treewalk::*;
use radix_substate_store_impls::state_tree::tree_store::{StoredTreeNodeKey, TypedInMemoryTreeStore, Version};
use radix_substate_store_impls::state_tree::{list_substate_hashes_at_version, put_at_next_version};
use radix_substate_store_interface::interface::*;
use std::collections::{BTreeMap, BTreeSet};
use vf_core::{catch, ensure, Check, Gen, Outcome, Part};

fn history(g: &mut Gen) -> Outcome {
    let alphabet = gen_alphabet(g, KeyRegime::Tree);
    g.label(alphabet.node_kind);
    let n_commits = 1 + g.index(14);

    let pruned = TypedInMemoryTreeStore::new().with_pruning_enabled();
    let recording = TypedInMemoryTreeStore::new();
    let mut version: Option<Version> = None;
    let mut model = ModelDb::new();
    let mut commits: Vec<DatabaseUpdates> = Vec::new();
    // every node key ever reported stale → the version whose commit reported it
    let mut stale: BTreeMap<StoredTreeNodeKey, Version> = BTreeMap::new();
    let mut stale_seen = 0usize;

    let mut deleted_entities: BTreeSet<Vec<u8>> = BTreeSet::new();
    let mut deleted_partitions: BTreeSet<(Vec<u8>, u8)> = BTreeSet::new();
    let mut entity_recreated = false;
    let mut partition_recreated = false;
    let mut saw_subtree = false;
    let mut saw_reset_of_populated = false;
    let mut max_reachable = 0usize;

    for i in 0..n_commits {
        let updates = gen_updates(g, &alphabet, &model, &Profile::CHURN);
        for (n, nu) in &updates.node_updates {
            for (p, pu) in &nu.partition_updates {
                if matches!(pu, PartitionDatabaseUpdates::Reset { .. }) && model.partition(n, *p).is_some() {
                    saw_reset_of_populated = true;
                }
            }
        }
        let before = model.clone();
        model.apply(&updates);
        commits.push(updates.clone());
        for n in before.node_keys().difference(&model.node_keys()) {
            deleted_entities.insert(n.clone());
        }
        for n in model.node_keys().difference(&before.node_keys()) {
            entity_recreated |= deleted_entities.contains(n);
        }
        for pk in before.parts.keys() {
            if !model.parts.contains_key(pk) {
                deleted_partitions.insert(pk.clone());
            }
        }
        for pk in model.parts.keys() {
            if !before.parts.contains_key(pk) {
                partition_recreated |= deleted_partitions.contains(pk);
            }
        }

        let here = |what: &str| format!("{} at commit #{} of history [{}] (alphabet: {})", what, i + 1, render_history(&commits, true), render_alphabet(&alphabet));

        // the same commit on both stores
        let on_recording = catch(|| put_at_next_version(&recording, version, &updates));
        let on_pruned = catch(|| put_at_next_version(&pruned, version, &updates));
        let v = version.unwrap_or(0) + 1;
        version = Some(v);
        if let Err(p) = &on_recording {
            return Outcome::fail("put_at_next_version panics on a store without pruning", here(&format!("panicked: {}", p)));
        }
        if let Err(p) = &on_pruned {
            return Outcome::fail("put_at_next_version panics on a pruning store where it succeeds without pruning", here(&format!("panicked: {}", p)));
        }

        // (1) the pruned store can be fully walked and read from the current root
        let pruned_nodes = snapshot(&pruned);
        let expected = smt::value_hashes(&model);
        let w = match walk(&pruned_nodes, v) {
            Ok(w) => w,
            Err(e) => return Outcome::fail("a node reachable from the current root is missing from the pruning store", here(&e)),
        };
        ensure!(
            w.substates == expected,
            "the tree reachable from the current root of the pruning store does not hold exactly the current substates",
            "{}: walk found {} substates, the state has {} ({})",
            here("mismatch"),
            w.substates.len(),
            expected.len(),
            render_model(&model, true)
        );
        match catch(|| list_substate_hashes_at_version(&pruned, v)) {
            Err(p) => return Outcome::fail("the current state cannot be read from the pruning store", here(&format!("list_substate_hashes_at_version(v{}) panicked: {}", v, p))),
            Ok(listed) => {
                let mut got = BTreeMap::new();
                for (pk, by_sort_key) in listed {
                    for (sk, h) in by_sort_key {
                        got.insert((pk.node_key.clone(), pk.partition_num, sk.0), h.0);
                    }
                }
                ensure!(
                    got == expected,
                    "the current state read from the pruning store differs from the current substates",
                    "{}: listed {} substates, the state has {} ({})",
                    here("mismatch"),
                    got.len(),
                    expected.len(),
                    render_model(&model, true)
                );
            }
        }

        // (2) nothing reported stale (now or earlier) is reachable from this root
        let recording_nodes = snapshot(&recording);
        let reach = match walk(&recording_nodes, v) {
            Ok(w) => w.reachable,
            Err(e) => return Outcome::fail("the tree on the store without pruning cannot be walked", here(&e)),
        };
        {
            let buffer = recording.stale_part_buffer.borrow();
            for part in &buffer[stale_seen..] {
                if matches!(part, radix_substate_store_impls::state_tree::tree_store::StaleTreePart::Subtree(_)) {
                    saw_subtree = true;
                }
                for k in expand_stale_part(&recording_nodes, part) {
                    stale.entry(k).or_insert(v);
                }
            }
            stale_seen = buffer.len();
        }
        for (k, reported_at) in &stale {
            if reach.contains(k) {
                let sig = if *reported_at == v {
                    "a node reported stale by a commit is reachable from the root produced by that commit"
                } else {
                    "a node reported stale by a commit is reachable from a later root"
                };
                return Outcome::fail(sig, here(&format!("node {} was reported stale by commit #{} but is reachable from root v{}", show_key(k), reported_at, v)));
            }
        }

        // (3) pruned store ⊇ reachable set
        for k in &reach {
            ensure!(
                pruned_nodes.contains_key(k),
                "a node reachable from the current root is missing from the pruning store",
                "{}",
                here(&format!("node {} is reachable from root v{} (walk on the store without pruning) but absent from the pruning store", show_key(k), v))
            );
        }
        max_reachable = max_reachable.max(reach.len());
    }

    if entity_recreated {
        g.label("entity fully deleted and later re-created");
    }
    if !deleted_entities.is_empty() {
        g.label("entity fully deleted");
    }
    if partition_recreated {
        g.label("partition emptied and later re-created");
    }
    if saw_subtree {
        g.label("Subtree stale part reported");
    }
    if saw_reset_of_populated {
        g.label("reset of a populated partition");
    }
    if model.is_empty() {
        g.label("final state empty");
    }
    g.count("commits", commits.len() as u64);
    g.count("stale nodes reported", stale.len() as u64);
    g.count("max reachable nodes", max_reachable as u64);
    g.set_nontrivial(entity_recreated);
    g.sample(|| format!("{} | history [{}] | {} stale nodes reported, up to {} reachable", render_alphabet(&alphabet), render_history(&commits, false), stale.len(), max_reachable));
    Outcome::Pass
}

pub fn check() -> Check {
    Check::new(
        "C18",
        "Pruning never removes nodes of the current state tree",
        "A history of 1-14 commits biased to resets, deletion of whole entities and re-creation (same generator and key alphabets as C17) is applied in lock-step to a pruning TypedInMemoryTreeStore and to one without pruning, which records the stale parts each commit reports. After every commit: (1) an independent walk over the pruning store's physical nodes from (current version, empty path) through internal children and across the three tiers finds every referenced node and enumerates exactly the model's substates, and list_substate_hashes_at_version reads the same from it; (2) every node reported stale so far (Subtree parts expanded on the recording store) is absent from the set reachable from this commit's root, i.e. from the root of the reporting commit and from every later root; (3) every node reachable on the recording store is present in the pruning store. Non-trivial = an entity is fully deleted and later re-created. Distinct = distinct decoded choice sequences.",
    )
    .assume("keys within one tier are prefix-free and node keys have one length (see C17)")
    .assume("the walk is written against the storage layout of tree_store.rs / the tier files (child key = parent path + nibble at the child's version; nested tier root = (leaf payload version, entity ‖ '_' [‖ partition ‖ '_']))")
    .part(Part::new("history", 200_000, 10_000_000, 800, history))
    .min_nontrivial_pct(5.0)
}
