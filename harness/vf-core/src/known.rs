//! known_findings.txt: genuine defects recorded rather than repaired, keyed by exact signature.
//!
//! Line formats (anything else, and lines starting with '#', is ignored):
//!   known: property=<ID> signature=<signature text> :: <what fails>
//!   fixed: property=<ID> <commit> <what failed>
//! A `fixed:` line suppresses nothing. The file is never written at run time.

#[derive(Clone, Debug)]
pub struct Known {
    pub property: String,
    pub signature: String,
    pub what: String,
}

pub fn load() -> Vec<Known> {
    let path = crate::verif_root().join("known_findings.txt");
    let text = match std::fs::read_to_string(&path) {
        Ok(t) => t,
        Err(_) => return Vec::new(),
    };
    parse(&text)
}

pub fn parse(text: &str) -> Vec<Known> {
    let mut out = Vec::new();
    for line in text.lines() {
        let line = line.trim();
        let Some(rest) = line.strip_prefix("known:") else { continue };
        let rest = rest.trim();
        let Some(rest) = rest.strip_prefix("property=") else { continue };
        let Some((prop, rest)) = rest.split_once(' ') else { continue };
        let rest = rest.trim();
        let Some(rest) = rest.strip_prefix("signature=") else { continue };
        let (sig, what) = match rest.split_once(" :: ") {
            Some((s, w)) => (s.trim(), w.trim()),
            None => (rest.trim(), ""),
        };
        out.push(Known { property: prop.to_string(), signature: sig.to_string(), what: what.to_string() });
    }
    out
}

#[cfg(test)]
mod tests {
    #[test]
    fn parses() {
        let k = super::parse("# x\nfixed: property=C27 abc sign\nknown: property=C19 signature=a b c :: desc here\n");
        assert_eq!(k.len(), 1);
        assert_eq!(k[0].property, "C19");
        assert_eq!(k[0].signature, "a b c");
        assert_eq!(k[0].what, "desc here");
    }
}
