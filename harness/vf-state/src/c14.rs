//! C14 A database overlay behaves like the database with the commits applied.

use crate::model::*;
use radix_substate_store_impls::memory_db::InMemorySubstateDatabase;
use radix_substate_store_impls::substate_database_overlay::*;
use radix_substate_store_interface::interface::*;
use std::collections::BTreeSet;
use vf_core::{catch, Check, Failure, Gen, Outcome, Part};

type Db = InMemorySubstateDatabase;

/// The three overlay flavours are three types; this is the part of their API the check drives.
trait Overlay: SubstateDatabase + CommittableSubstateDatabase {
    const NAME: &'static str;
    fn staged(&self) -> DatabaseUpdates;
    /// `commit_overlay_into_root_store`, where the flavour has it.
    fn merge(&mut self) -> bool;
}
impl Overlay for OwnedSubstateDatabaseOverlay<Db> {
    const NAME: &'static str = "owned overlay";
    fn staged(&self) -> DatabaseUpdates {
        self.database_updates()
    }
    fn merge(&mut self) -> bool {
        self.commit_overlay_into_root_store();
        true
    }
}
impl<'a> Overlay for MergeableSubstateDatabaseOverlay<'a, Db> {
    const NAME: &'static str = "mergeable overlay (&mut root)";
    fn staged(&self) -> DatabaseUpdates {
        self.database_updates()
    }
    fn merge(&mut self) -> bool {
        self.commit_overlay_into_root_store();
        true
    }
}
impl<'a> Overlay for UnmergeableSubstateDatabaseOverlay<'a, Db> {
    const NAME: &'static str = "unmergeable overlay (&root)";
    fn staged(&self) -> DatabaseUpdates {
        self.database_updates()
    }
    fn merge(&mut self) -> bool {
        false
    }
}

/// Cursors around `k`: the key itself, its immediate successor, keys just before and after it,
/// and a proper prefix of it.
fn cursors_around(k: &[u8], out: &mut BTreeSet<Vec<u8>>) {
    out.insert(k.to_vec());
    let mut succ = k.to_vec();
    succ.push(0x00);
    out.insert(succ);
    if let Some((last, head)) = k.split_last() {
        out.insert(head.to_vec());
        if *last > 0 {
            let mut pred = head.to_vec();
            pred.push(last - 1);
            pred.push(0xff);
            out.insert(pred);
        }
        if *last < 0xff {
            let mut next = head.to_vec();
            next.push(last + 1);
            out.insert(next);
        }
    }
}

/// `None`, the empty key (before everything), every alphabet key and its neighbours, and a key after everything.
fn probe_cursors(pa: &PartitionAlphabet) -> Vec<Option<DbSortKey>> {
    let mut set: BTreeSet<Vec<u8>> = BTreeSet::new();
    set.insert(vec![]);
    for k in &pa.sort_keys {
        cursors_around(&k.0, &mut set);
    }
    let longest = set.iter().map(|k| k.len()).max().unwrap_or(0);
    set.insert(vec![0xff; longest + 1]);
    let mut out = vec![None];
    out.extend(set.into_iter().map(|k| Some(DbSortKey(k))));
    out
}

fn show_entries(entries: &[PartitionEntry]) -> String {
    format!("[{}]", entries.iter().map(|(k, v)| format!("{}={}", hx(&k.0, true), hx(v, true))).collect::<Vec<_>>().join(" "))
}

fn fail(signature: &str, message: String) -> Failure {
    Failure { signature: signature.to_string(), message }
}

struct World {
    alphabet: Alphabet,
    base_commits: Vec<DatabaseUpdates>,
    /// Every commit made to any overlay so far, with markers for segment boundaries.
    log: Vec<String>,
    /// The specification: base content with all commits applied.
    model: ModelDb,
    /// Differential twin: a memory database that received base content and every commit directly.
    twin: Db,
    /// Content of the root database under the current overlay (changes only when an overlay is merged).
    root_model: ModelDb,
    root_copy: Db,
    nontrivial: bool,
    shapes: BTreeSet<&'static str>,
}

impl World {
    fn context(&self) -> String {
        format!("base built by [{}]; then {}", render_history(&self.base_commits, true), self.log.join(" "))
    }

    /// Compares every point read and every cursor listing through `overlay` with the twin and the model.
    fn probe<O: Overlay>(&mut self, overlay: &O, g: &mut Gen) -> Result<(), Failure> {
        let mut reads = 0u64;
        let mut listings = 0u64;
        for node in &self.alphabet.nodes {
            for pa in &self.alphabet.partitions {
                let pk = DbPartitionKey { node_key: node.clone(), partition_num: pa.num };
                let cursors = probe_cursors(pa);
                let root_keys: BTreeSet<&Vec<u8>> = self.root_model.partition(node, pa.num).map(|c| c.keys().collect()).unwrap_or_default();
                let now_keys: BTreeSet<&Vec<u8>> = self.model.partition(node, pa.num).map(|c| c.keys().collect()).unwrap_or_default();
                let deleted_base = root_keys.difference(&now_keys).next().is_some();
                let inserts: Vec<&Vec<u8>> = now_keys.difference(&root_keys).cloned().collect();
                let all_keys: BTreeSet<&Vec<u8>> = root_keys.union(&now_keys).cloned().collect();
                for cursor in &cursors {
                    // point read at the cursor key (alphabet keys and their absent neighbours)
                    if let Some(sk) = cursor {
                        reads += 1;
                        let got = catch(|| overlay.get_raw_substate_by_db_key(&pk, sk)).map_err(|e| {
                            fail(
                                "SubstateDatabaseOverlay::get_raw_substate_by_db_key panics",
                                format!("{}: read of {}/p{}/{} through the {} panicked: {}", self.context(), hx(node, true), pa.num, hx(&sk.0, true), O::NAME, e),
                            )
                        })?;
                        let by_twin = self.twin.get_raw_substate_by_db_key(&pk, sk);
                        let by_model = self.model.get(&pk, sk);
                        if got != by_model || got != by_twin {
                            return Err(fail(
                                "SubstateDatabaseOverlay::get_raw_substate_by_db_key differs from the database with the commits applied",
                                format!(
                                    "{}: read of {}/p{}/{} through the {} gives {:?}; twin database gives {:?}; model gives {:?}",
                                    self.context(),
                                    hx(node, true),
                                    pa.num,
                                    hx(&sk.0, true),
                                    O::NAME,
                                    got.as_ref().map(hex::encode),
                                    by_twin.as_ref().map(hex::encode),
                                    by_model.as_ref().map(hex::encode)
                                ),
                            ));
                        }
                    }
                    listings += 1;
                    let show_cursor = || cursor.as_ref().map(|c| hx(&c.0, true)).unwrap_or_else(|| "None".into());
                    let got: Vec<PartitionEntry> = catch(|| overlay.list_raw_values_from_db_key(&pk, cursor.as_ref()).collect()).map_err(|e| {
                        fail(
                            "SubstateDatabaseOverlay::list_raw_values_from_db_key panics",
                            format!("{}: listing {}/p{} from cursor {} through the {} panicked: {}", self.context(), hx(node, true), pa.num, show_cursor(), O::NAME, e),
                        )
                    })?;
                    let by_twin: Vec<PartitionEntry> = self.twin.list_raw_values_from_db_key(&pk, cursor.as_ref()).collect();
                    let by_model = self.model.list_from(&pk, cursor.as_ref());
                    if got != by_model || got != by_twin {
                        return Err(fail(
                            "SubstateDatabaseOverlay::list_raw_values_from_db_key differs from the database with the commits applied",
                            format!(
                                "{}: listing {}/p{} from cursor {} through the {} gives {}; twin database gives {}; model gives {}; the root database under the overlay holds {}",
                                self.context(),
                                hx(node, true),
                                pa.num,
                                show_cursor(),
                                O::NAME,
                                show_entries(&got),
                                show_entries(&by_twin),
                                show_entries(&by_model),
                                show_entries(&self.root_model.list_from(&pk, None))
                            ),
                        ));
                    }
                    if let Some(c) = cursor {
                        let inside = all_keys.first().map(|f| *f < &c.0).unwrap_or(false) && all_keys.last().map(|l| &c.0 < *l).unwrap_or(false);
                        if inside && deleted_base && inserts.iter().any(|k| **k > c.0) {
                            self.nontrivial = true;
                        }
                    }
                }
            }
        }
        g.count("point reads compared", reads);
        g.count("cursor listings compared", listings);
        Ok(())
    }

    /// Commits to the overlay, with probes after every commit; merges into the root at random
    /// points where the flavour allows it.
    fn drive<O: Overlay>(&mut self, overlay: &mut O, n_commits: usize, g: &mut Gen) -> Result<(), Failure> {
        self.log.push(format!("| new {}:", O::NAME));
        let mut since_merge: Vec<DatabaseUpdates> = Vec::new();
        self.probe(overlay, g)?; // nothing staged: reads as the root
        for _ in 0..n_commits {
            let u = gen_updates(g, &self.alphabet, &self.model, &Profile::BALANCED);
            for (n, nu) in &u.node_updates {
                for (pn, pu) in &nu.partition_updates {
                    let earlier = since_merge.iter().rev().find_map(|e| e.node_updates.get(n).and_then(|x| x.partition_updates.get(pn)));
                    let shape = match (earlier, pu) {
                        (Some(PartitionDatabaseUpdates::Reset { .. }), PartitionDatabaseUpdates::Delta { .. }) => "reset then delta staged on one partition",
                        (Some(PartitionDatabaseUpdates::Delta { .. }), PartitionDatabaseUpdates::Reset { .. }) => "delta then reset staged on one partition",
                        (Some(PartitionDatabaseUpdates::Delta { .. }), PartitionDatabaseUpdates::Delta { .. }) => "delta then delta staged on one partition",
                        (Some(PartitionDatabaseUpdates::Reset { .. }), PartitionDatabaseUpdates::Reset { .. }) => "reset then reset staged on one partition",
                        (None, _) => continue,
                    };
                    self.shapes.insert(shape);
                }
            }
            self.model.apply(&u);
            self.twin.commit(&u);
            self.log.push(format!("commit {}", render_updates(&u, true)));
            catch(|| overlay.commit(&u)).map_err(|e| fail("SubstateDatabaseOverlay::commit panics", format!("{}: the last commit panicked: {}", self.context(), e)))?;
            since_merge.push(u);
            self.probe(overlay, g)?;

            // the staged updates, applied to a copy of the root, give the twin
            let staged = catch(|| overlay.staged()).map_err(|e| fail("SubstateDatabaseOverlay::database_updates panics", format!("{}: {}", self.context(), e)))?;
            let mut copy = self.root_copy.clone();
            copy.commit(&staged);
            if copy != self.twin {
                return Err(fail(
                    "SubstateDatabaseOverlay::database_updates applied to the root differs from the database with the commits applied",
                    format!("{}: database_updates() = {} ; applied to the root they give {:?} ; the twin is {:?}", self.context(), render_updates(&staged, true), copy, self.twin),
                ));
            }

            if g.chance(1, 6) {
                let merged = catch(|| overlay.merge()).map_err(|e| fail("SubstateDatabaseOverlay::commit_overlay_into_root_store panics", format!("{}: {}", self.context(), e)))?;
                if merged {
                    self.log.push("merge-into-root".into());
                    g.label("overlay used again after merging into the root");
                    self.root_model = self.model.clone();
                    self.root_copy = self.twin.clone();
                    since_merge.clear();
                    let staged = overlay.staged();
                    if !staged.node_updates.is_empty() {
                        return Err(fail(
                            "SubstateDatabaseOverlay::commit_overlay_into_root_store leaves staged updates behind",
                            format!("{}: after the merge database_updates() = {}", self.context(), render_updates(&staged, true)),
                        ));
                    }
                    // nothing staged now: every read goes to the merged root
                    self.probe(overlay, g)?;
                }
            }
        }
        Ok(())
    }

    fn root_must_equal_twin(&self, root: &Db, how: &str, signature: &str) -> Result<(), Failure> {
        if *root != self.twin {
            return Err(fail(signature, format!("{}: {} the root database is {:?} ; the database with the commits applied is {:?}", self.context(), how, root, self.twin)));
        }
        Ok(())
    }
}

const SIG_MERGE: &str = "SubstateDatabaseOverlay::commit_overlay_into_root_store: merged root differs from the database with the commits applied";
const SIG_UPDATES: &str = "SubstateDatabaseOverlay::into_database_updates/deconstruct applied to the root differs from the database with the commits applied";

fn history(g: &mut Gen) -> Outcome {
    let alphabet = gen_alphabet(g, KeyRegime::Any);
    g.label(alphabet.node_kind);
    for pa in &alphabet.partitions {
        g.label(pa.kind);
    }
    // base content
    let mut model = ModelDb::new();
    let mut root = Db::standard();
    let mut base_commits = Vec::new();
    for _ in 0..g.index(4) {
        let u = gen_updates(g, &alphabet, &model, &Profile::BALANCED);
        model.apply(&u);
        root.commit(&u);
        base_commits.push(u);
    }
    if model.is_empty() {
        g.label("empty base");
    }
    let mut w = World {
        alphabet,
        base_commits,
        log: Vec::new(),
        root_model: model.clone(),
        model,
        twin: root.clone(),
        root_copy: root.clone(),
        nontrivial: false,
        shapes: BTreeSet::new(),
    };

    let segments = 1 + g.weighted(&[6, 3, 1]);
    for _ in 0..segments {
        let n_commits = 1 + g.index(8);
        let result = match g.index(3) {
            0 => {
                g.label("owned overlay");
                let mut overlay = SubstateDatabaseOverlay::new_owned(std::mem::replace(&mut root, Db::standard()));
                let r = w.drive(&mut overlay, n_commits, g);
                r.and_then(|_| {
                    if g.bool() {
                        overlay.commit_overlay_into_root_store();
                        w.log.push("merge-into-root, deconstruct".into());
                        let (merged_root, left) = overlay.deconstruct();
                        root = merged_root;
                        if !left.node_updates.is_empty() {
                            return Err(fail(
                                "SubstateDatabaseOverlay::commit_overlay_into_root_store leaves staged updates behind",
                                format!("{}: after the merge deconstruct() returned updates {}", w.context(), render_updates(&left, true)),
                            ));
                        }
                        w.root_must_equal_twin(&root, "after commit_overlay_into_root_store + deconstruct", SIG_MERGE)
                    } else {
                        w.log.push("deconstruct, apply updates to root".into());
                        let (old_root, staged) = overlay.deconstruct();
                        root = old_root;
                        root.commit(&staged);
                        w.root_must_equal_twin(&root, &format!("after applying deconstruct() updates {} to the root", render_updates(&staged, true)), SIG_UPDATES)
                    }
                })
            }
            1 => {
                g.label("mergeable overlay (&mut root)");
                let r = {
                    let mut overlay = SubstateDatabaseOverlay::new_mergeable(&mut root);
                    let r = w.drive(&mut overlay, n_commits, g);
                    if r.is_ok() {
                        overlay.commit_overlay_into_root_store();
                        w.log.push("merge-into-root, drop".into());
                    }
                    r
                };
                r.and_then(|_| w.root_must_equal_twin(&root, "after commit_overlay_into_root_store", SIG_MERGE))
            }
            _ => {
                g.label("unmergeable overlay (&root)");
                let r = {
                    let mut overlay = SubstateDatabaseOverlay::new_unmergeable(&root);
                    w.drive(&mut overlay, n_commits, g).map(|_| overlay.into_database_updates())
                };
                r.and_then(|staged| {
                    w.log.push("into_database_updates, apply to root".into());
                    root.commit(&staged);
                    w.root_must_equal_twin(&root, &format!("after applying into_database_updates() = {} to the root", render_updates(&staged, true)), SIG_UPDATES)
                })
            }
        };
        if let Err(f) = result {
            return Outcome::Fail(f);
        }
        w.root_model = w.model.clone();
        w.root_copy = root.clone();
    }

    for s in &w.shapes {
        g.label(s);
    }
    if segments > 1 {
        g.label("several overlays in sequence over one root");
    }
    g.set_nontrivial(w.nontrivial);
    g.sample(|| format!("{} | base [{}] | {}", render_alphabet(&w.alphabet), render_history(&w.base_commits, false), w.log.join(" ")));
    Outcome::Pass
}

pub fn check() -> Check {
    Check::new(
        "C14",
        "A database overlay behaves like the database with the commits applied",
        "A base InMemorySubstateDatabase is filled by 0-3 generated commits; then 1-3 overlays in sequence (owned / &mut root / &root, by the tape) each receive 1-8 generated commits (deltas, deletes incl. of absent substates, resets, empty resets, whole-entity deletion, empty deltas; sort keys and node keys over small alphabets, including raw keys of unequal length, the empty key and keys that are prefixes of one another, and mapper keys). After every commit, through the overlay: point reads of every alphabet key and of absent neighbour keys, and list_raw_values_from_db_key from None and from every cursor in {each alphabet key, key+00, a predecessor, a successor, a proper prefix, the empty key, a key after everything} are compared with a twin memory database that received the commits directly and with the BTreeMap model; database_updates() applied to a copy of the root must give the twin. Overlays are merged into the root at random points (and used further) and at the end of each segment (commit_overlay_into_root_store, or deconstruct / into_database_updates applied by hand); the root must then equal the twin. Non-trivial = some compared listing had a cursor strictly inside the partition's key range while the overlay had deleted an entry of the root database in that partition and inserted a new entry after the cursor. Distinct = distinct decoded choice sequences.",
    )
    .assume("list_partition_keys of an overlay is not in the property statement (it may name emptied partitions) and is not asserted")
    .assume("InMemorySubstateDatabase is both the root under the overlay and the differential twin; the BTreeMap model is the independent reference")
    .part(Part::new("history", 200_000, 10_000_000, 900, history))
    .min_nontrivial_pct(5.0)
}
