fn main() {
    vf_core::main_with(vf_eng_e::checks());
}
