//! mgen (R7): typed manifest generator with a worktop / bucket / proof / account-balance model.
//! `types` — world description, ledger knowledge, instructions; `model` — the transaction model
//! (predicts success / failure per instruction and the final vault contents); `gen` — the
//! generator (profiles) and the emission of real manifest instructions.
pub mod gen;
pub mod model;
pub mod types;

pub use gen::*;
pub use model::*;
pub use types::*;
