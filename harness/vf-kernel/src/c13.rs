//! C13 Substate locks are exclusive for writers.
//!
//! `radix_engine::kernel::substate_locks::SubstateLocks` is driven with generated sequences of
//! lock / unlock / get / get_mut / is_locked / node_is_locked requests and compared, step by step,
//! with a textbook readers-writer model (per substate: n readers or one writer; a handle table; a
//! per-node count of open handles).

use radix_common::prelude::*;
use radix_engine::kernel::substate_locks::SubstateLocks;
use std::collections::{BTreeMap, BTreeSet};
use vf_core::{catch, ensure, Check, Gen, Outcome, Part};

const NODES: usize = 3;
const PARTS: usize = 2;
const KEYS: usize = 3;
const SUBSTATES: usize = NODES * PARTS * KEYS;

fn node(n: usize) -> NodeId {
    let mut b = [0u8; NodeId::LENGTH];
    b[0] = EntityType::InternalKeyValueStore as u8;
    b[1] = n as u8 + 1;
    NodeId(b)
}

fn key(k: usize) -> SubstateKey {
    match k {
        0 => SubstateKey::Field(0),
        1 => SubstateKey::Map(vec![1, 2, 3]),
        _ => SubstateKey::Sorted(([0, 7], vec![9])),
    }
}

/// substate index -> (node index, partition number, key index)
fn split(s: usize) -> (usize, usize, usize) {
    (s / (PARTS * KEYS), (s / KEYS) % PARTS, s % KEYS)
}

fn full_key(s: usize) -> (NodeId, PartitionNumber, SubstateKey) {
    let (n, p, k) = split(s);
    (node(n), PartitionNumber(p as u8), key(k))
}

#[derive(Clone, Copy, PartialEq, Eq, Debug)]
enum RW {
    Readers(usize),
    Writer,
}

#[derive(Clone, Debug)]
struct Open {
    substate: usize,
    read_only: bool,
    data: u64,
}

fn describe(s: usize) -> String {
    let (n, p, k) = split(s);
    format!("n{}/p{}/k{}", n, p, k)
}

fn case(g: &mut Gen) -> Outcome {
    let mut real: SubstateLocks<u64> = SubstateLocks::new();
    // the model
    let mut state = [RW::Readers(0); SUBSTATES];
    let mut open: BTreeMap<u32, Open> = BTreeMap::new();
    let mut issued: BTreeSet<u32> = BTreeSet::new();
    let mut closed: Vec<u32> = Vec::new();
    let mut trace: Vec<String> = Vec::new();

    let steps = 1 + g.len(199);
    let mut contended_writes = 0u64;
    let mut refused = 0u64;
    let mut max_readers = 0usize;

    for _ in 0..steps {
        let op = g.weighted(&[10, 6, 3, 2, 2, 2, 2]);
        match op {
            // ---- lock -----------------------------------------------------------------
            0 => {
                // half of the requests go to a substate that currently has an open handle
                let s = if !open.is_empty() && g.chance(1, 2) {
                    let hs: Vec<u32> = open.keys().copied().collect();
                    open[g.pick(&hs)].substate
                } else {
                    g.index(SUBSTATES)
                };
                let read_only = !g.chance(2, 5);
                let data = g.u16() as u64;
                let (n, p, k) = full_key(s);
                let busy = state[s] != RW::Readers(0);
                if !read_only && busy {
                    contended_writes += 1;
                }
                let admit = match (state[s], read_only) {
                    (RW::Readers(_), true) => true,
                    (RW::Readers(0), false) => true,
                    _ => false,
                };
                let got = match catch(|| real.lock(&n, p, &k, read_only, data)) {
                    Ok(r) => r,
                    Err(e) => return Outcome::fail("SubstateLocks::lock panics", format!("{:?} then lock({}, read_only={}): {}", trace, describe(s), read_only, e)),
                };
                trace.push(format!("lock({},{})->{:?}", describe(s), if read_only { "r" } else { "w" }, got));
                match got {
                    Some(h) => {
                        ensure!(
                            admit,
                            if read_only { "SubstateLocks::lock grants a read handle while a write handle is open" } else { "SubstateLocks::lock grants a write handle while another handle is open" },
                            "history {:?}: substate {} was {:?} in the readers-writer model",
                            trace,
                            describe(s),
                            state[s]
                        );
                        ensure!(issued.insert(h), "SubstateLocks::lock reuses a handle id", "history {:?}: handle {} was issued before", trace, h);
                        state[s] = match (state[s], read_only) {
                            (RW::Readers(n), true) => RW::Readers(n + 1),
                            _ => RW::Writer,
                        };
                        if let RW::Readers(n) = state[s] {
                            max_readers = max_readers.max(n);
                        }
                        open.insert(h, Open { substate: s, read_only, data });
                    }
                    None => {
                        refused += 1;
                        ensure!(
                            !admit,
                            if read_only { "SubstateLocks::lock refuses a read handle although no writer is open" } else { "SubstateLocks::lock refuses a write handle on an unlocked substate" },
                            "history {:?}: substate {} was {:?} in the readers-writer model",
                            trace,
                            describe(s),
                            state[s]
                        );
                    }
                }
            }
            // ---- unlock (open handles only: documented contract) -------------------------
            1 => {
                if open.is_empty() {
                    g.count("skipped_unlock_nothing_open", 1);
                    continue;
                }
                let hs: Vec<u32> = open.keys().copied().collect();
                let h = *g.pick(&hs);
                let o = open.remove(&h).unwrap();
                let got = match catch(|| real.unlock(h)) {
                    Ok(r) => r,
                    Err(e) => return Outcome::fail("SubstateLocks::unlock panics on an open handle", format!("{:?} then unlock({}): {}", trace, h, e)),
                };
                trace.push(format!("unlock({})", h));
                let (n, p, k) = full_key(o.substate);
                ensure!(
                    got == (n, p, k.clone(), o.data),
                    "SubstateLocks::unlock returns a different tuple than given at lock time",
                    "history {:?}: expected {:?}, got {:?}",
                    trace,
                    (n, p, k, o.data),
                    got
                );
                state[o.substate] = match state[o.substate] {
                    RW::Readers(n) if n > 0 && o.read_only => RW::Readers(n - 1),
                    RW::Writer if !o.read_only => RW::Readers(0),
                    other => return Outcome::fail("harness: model handle table inconsistent", format!("{:?} {:?}", other, o)),
                };
                closed.push(h);
            }
            // ---- get -------------------------------------------------------------------
            2 => {
                if open.is_empty() {
                    continue;
                }
                let hs: Vec<u32> = open.keys().copied().collect();
                let h = *g.pick(&hs);
                let o = open[&h].clone();
                let got = match catch(|| real.get(h).clone()) {
                    Ok(r) => r,
                    Err(e) => return Outcome::fail("SubstateLocks::get panics on an open handle", format!("{:?} then get({}): {}", trace, h, e)),
                };
                let (n, p, k) = full_key(o.substate);
                ensure!(
                    got == (n, p, k.clone(), o.data),
                    "SubstateLocks::get returns a different tuple than given at lock time",
                    "history {:?}: handle {} expected {:?}, got {:?}",
                    trace,
                    h,
                    (n, p, k, o.data),
                    got
                );
            }
            // ---- get_mut: update the lock data -------------------------------------------
            3 => {
                if open.is_empty() {
                    continue;
                }
                let hs: Vec<u32> = open.keys().copied().collect();
                let h = *g.pick(&hs);
                let nd = g.u16() as u64 + 100_000;
                match catch(|| {
                    real.get_mut(h).3 = nd;
                }) {
                    Ok(()) => {}
                    Err(e) => return Outcome::fail("SubstateLocks::get_mut panics on an open handle", format!("{:?} then get_mut({}): {}", trace, h, e)),
                }
                open.get_mut(&h).unwrap().data = nd;
                trace.push(format!("get_mut({})", h));
            }
            // ---- probe a closed / never issued handle: must not be usable -------------------
            4 => {
                let h = if !closed.is_empty() && g.chance(3, 4) {
                    *g.pick(&closed)
                } else {
                    // not yet issued
                    issued.iter().next_back().map(|m| m + 1 + g.below(3) as u32).unwrap_or(g.below(3) as u32)
                };
                if open.contains_key(&h) {
                    continue;
                }
                let usable = catch(|| real.get(h).3).is_ok();
                ensure!(
                    !usable,
                    "SubstateLocks::get accepts a handle that is not open",
                    "history {:?}: handle {} is closed or was never issued, yet get() returned",
                    trace,
                    h
                );
                g.label("probed a handle that is not open");
            }
            // ---- point queries ---------------------------------------------------------
            5 => {
                let s = g.index(SUBSTATES);
                let (n, p, k) = full_key(s);
                let got = real.is_locked(&n, p, &k);
                let want = state[s] != RW::Readers(0);
                ensure!(got == want, "SubstateLocks::is_locked disagrees with the readers-writer model", "history {:?}: substate {} model {:?}, is_locked = {}", trace, describe(s), state[s], got);
            }
            _ => {
                let n = g.index(NODES);
                let got = real.node_is_locked(&node(n));
                let want = open.values().any(|o| split(o.substate).0 == n);
                ensure!(got == want, "SubstateLocks::node_is_locked disagrees with the open-handle count", "history {:?}: node {} has open handles = {}, node_is_locked = {}", trace, n, want, got);
            }
        }

        // ---- invariants after every step --------------------------------------------------
        // (1) exclusivity, judged on the handles the real code handed out
        let mut per: BTreeMap<usize, (usize, usize)> = BTreeMap::new();
        for o in open.values() {
            let e = per.entry(o.substate).or_insert((0, 0));
            if o.read_only {
                e.0 += 1;
            } else {
                e.1 += 1;
            }
        }
        for (s, (r, w)) in &per {
            ensure!(
                *w == 0 || (*w == 1 && *r == 0),
                "SubstateLocks: a write handle coexists with another handle on the substate",
                "history {:?}: substate {} has {} read and {} write handles open",
                trace,
                describe(*s),
                r,
                w
            );
        }
        // (2) is_locked / node_is_locked reported exactly while a handle is open
        for s in 0..SUBSTATES {
            let (n, p, k) = full_key(s);
            let got = real.is_locked(&n, p, &k);
            let want = per.contains_key(&s);
            ensure!(got == want, "SubstateLocks::is_locked disagrees with the readers-writer model", "history {:?}: substate {} open handles {:?}, is_locked = {}", trace, describe(s), per.get(&s), got);
        }
        for n in 0..NODES {
            let got = real.node_is_locked(&node(n));
            let want = open.values().any(|o| split(o.substate).0 == n);
            ensure!(got == want, "SubstateLocks::node_is_locked disagrees with the open-handle count", "history {:?}: node {} has open handles = {}, node_is_locked = {}", trace, n, want, got);
        }
    }

    if contended_writes > 0 {
        g.nontrivial();
        g.label("write requested on a substate with an open handle");
    }
    if refused > 0 {
        g.label("some request refused");
    }
    if max_readers >= 2 {
        g.label("two or more readers coexisted");
    }
    if !closed.is_empty() {
        g.label("some handle closed");
    }
    g.count("steps", steps as u64);
    g.count("contended_write_requests", contended_writes);
    g.sample(|| format!("{} steps: {}", steps, trace.join(" ")));
    Outcome::Pass
}

pub fn check() -> Check {
    Check::new(
        "C13",
        "Substate locks are exclusive for writers",
        "1-200 lock(read|write)/unlock/get/get_mut/is_locked/node_is_locked requests over 3 nodes x 2 partitions x 3 keys (half of the lock requests target a substate that already has an open handle; only open handles are unlocked; closed and never-issued handles are probed through catch_unwind); every answer and, after every step, is_locked of all 18 substates and node_is_locked of all 3 nodes are compared with a readers-writer model. Non-trivial = a write request arrived while a handle was open on the same substate. Distinct = distinct decoded choice sequences.",
    )
    .part(Part::new("history", 500_000, 25_000_000, 700, case))
    .min_nontrivial_pct(20.0)
}
