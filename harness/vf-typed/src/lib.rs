//! vf-typed: check C22 (typed SBOR codecs agree with their generated schemas).

pub mod c22;
pub mod registry;

pub fn checks() -> Vec<vf_core::Check> {
    vec![c22::check()]
}
