pub mod c32;
pub mod c33;
pub mod c34;
pub mod c35;
pub mod c48;
pub mod payload;
pub mod refhash;
pub mod txgen;

pub fn checks() -> Vec<vf_core::Check> {
    vec![c32::check(), c33::check(), c34::check(), c35::check(), c48::check()]
}
