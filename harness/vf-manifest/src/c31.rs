//! C31 The manifest compiler never crashes (and its error diagnostics render).

use crate::c30::blobs_of;
use crate::mgen::{self, Kind, Options};
use radix_common::prelude::*;
use radix_transactions::manifest::token::Span;
use radix_transactions::manifest::*;
use std::sync::OnceLock;
use vf_core::{catch, ensure, Check, Gen, Outcome, Part};

/// Built-in base texts (kept first so that shrunk replays do not depend on the corpus directory).
const BUILTIN: &[&str] = &[
    "",
    "DROP_ALL_PROOFS;\n",
    "CALL_METHOD\n    Address(\"component_sim1cptxxxxxxxxxfaucetxxxxxxxxx000527798379xxxxxxxxxhkrefh\")\n    \"lock_fee\"\n    Decimal(\"5000\")\n;\nTAKE_ALL_FROM_WORKTOP\n    Address(\"resource_sim1tknxxxxxxxxxradxrdxxxxxxxxx009923554798xxxxxxxxxakj8n3\")\n    Bucket(\"b\")\n;\nCREATE_PROOF_FROM_BUCKET_OF_ALL\n    Bucket(\"b\")\n    Proof(\"p\")\n;\nDROP_PROOF\n    Proof(\"p\")\n;\nRETURN_TO_WORKTOP\n    Bucket(\"b\")\n;\nCALL_METHOD\n    Address(\"component_sim1cptxxxxxxxxxfaucetxxxxxxxxx000527798379xxxxxxxxxhkrefh\")\n    \"free\"\n    Tuple(\n        Enum<1u8>(\n            Map<String, Array>(\n                \"k\" => Bytes(\"00ff\")\n            )\n        ),\n        \"text \\\"quoted\\\" \\u00e9\"\n    )\n    Expression(\"ENTIRE_WORKTOP\")\n;\n",
    "USE_CHILD\n    NamedIntent(\"c\")\n    Intent(\"subtxid_sim1qqqqqqqqqqqqqqqqqqqqqqqqqqqqqqqqqqqqqqqqqqqqqqqqqqqqlqx8xl\")\n;\nYIELD_TO_CHILD\n    NamedIntent(\"c\")\n;\nYIELD_TO_PARENT;\n",
];

fn corpus() -> &'static Vec<String> {
    static C: OnceLock<Vec<String>> = OnceLock::new();
    C.get_or_init(|| {
        let dir = vf_core::verif_root().join("corpus").join("C31");
        let mut files: Vec<std::path::PathBuf> = match std::fs::read_dir(&dir) {
            Ok(rd) => rd.filter_map(|e| e.ok()).map(|e| e.path()).filter(|p| p.extension().map(|x| x == "rtm").unwrap_or(false)).collect(),
            Err(_) => Vec::new(),
        };
        files.sort();
        files.iter().filter_map(|p| std::fs::read_to_string(p).ok()).collect()
    })
}

const KEYWORDS: &[&str] = &[
    "TAKE_FROM_WORKTOP", "TAKE_ALL_FROM_WORKTOP", "RETURN_TO_WORKTOP", "CALL_METHOD", "CALL_FUNCTION", "YIELD_TO_PARENT", "YIELD_TO_CHILD", "USE_CHILD",
    "USE_PREALLOCATED_ADDRESS", "ASSERT_WORKTOP_IS_EMPTY", "ASSERT_NEXT_CALL_RETURNS_ONLY", "VERIFY_PARENT", "ALLOCATE_GLOBAL_ADDRESS", "DROP_ALL_PROOFS", "Tuple", "Enum",
    "Array", "Map", "Some", "None", "Ok", "Err", "Bytes", "Address", "NamedAddress", "Bucket", "Proof", "Blob", "Expression", "Decimal", "PreciseDecimal",
    "NonFungibleLocalId", "NonFungibleGlobalId", "AddressReservation", "NamedIntent", "Intent", "String", "U8", "I128", "Bool", "true", "false", "=>", "<", ">", "(", ")",
    ",", ";", "\"", "#", "-", "1u8", "0i8", "-1i128", "256u8", "340282366920938463463374607431768211456u128", "99999999999999999999999999999999999999999999u64", "01u8", "1u9", "\\",
    "\"\\u", "\"\\ud800\"", "\"\\udc00\\ud800\"", "\"\\ud800\\u0041\"", "\"\\udbff\\udfff\"", "\"\\uZZZZ\"", "\"\\x\"", "Enum<AccessRule::AllowAll>()", "Enum<Foo::Bar>()", "Enum<256u16>()",
];

const NON_ASCII: &[char] = &['é', 'ß', '\u{a0}', '中', '\u{2028}', '\u{feff}', '\u{1f600}', '\u{10ffff}', '\u{301}', '\u{85}'];

/// Rough token boundaries (not the lexer): words, string literals, single punctuation, whitespace runs.
fn rough_tokens(s: &str) -> Vec<String> {
    let cs: Vec<char> = s.chars().collect();
    let mut out = Vec::new();
    let mut i = 0;
    while i < cs.len() {
        let c = cs[i];
        let start = i;
        if c.is_alphanumeric() || c == '_' || c == '-' {
            while i < cs.len() && (cs[i].is_alphanumeric() || cs[i] == '_' || cs[i] == ':' || cs[i] == '-') {
                i += 1;
            }
        } else if c == '"' {
            i += 1;
            while i < cs.len() && cs[i] != '"' {
                if cs[i] == '\\' {
                    i += 1;
                }
                i += 1;
            }
            i = (i + 1).min(cs.len());
        } else if c.is_whitespace() {
            while i < cs.len() && cs[i].is_whitespace() {
                i += 1;
            }
        } else {
            i += 1;
        }
        out.push(cs[start..i.min(cs.len())].iter().collect());
    }
    out
}

fn nest_text(g: &mut Gen, levels: usize) -> String {
    let (open, close): (&str, &str) = match g.below(5) {
        0 => ("Tuple(", ")"),
        1 => ("Some(", ")"),
        2 => ("Enum<0u8>(", ")"),
        3 => ("Array<Array>(", ")"),
        _ => ("Map<U8, Tuple>(1u8 => Tuple(", "))"),
    };
    let mut s = String::new();
    for _ in 0..levels {
        s.push_str(open);
    }
    s.push_str("1u8");
    for _ in 0..levels {
        s.push_str(close);
    }
    s
}

fn line_ending(g: &mut Gen) -> &'static str {
    *g.pick(&["\n", "\r\n", "\r\n", "\r"])
}

fn mutate(g: &mut Gen, text: &mut String) -> &'static str {
    match g.weighted(&[4, 3, 3, 3, 2, 2, 2, 5, 4, 1, 1, 1, 4, 3, 2]) {
        0 | 1 | 2 => {
            let mut t = rough_tokens(text);
            if t.is_empty() {
                return "mutation: none";
            }
            let i = g.index(t.len());
            let which = g.below(3);
            let label = match which {
                0 => {
                    t.remove(i);
                    "mutation: token deleted"
                }
                1 => {
                    let x = t[i].clone();
                    t.insert(i, x);
                    "mutation: token duplicated"
                }
                _ => {
                    let j = g.index(t.len());
                    t.swap(i, j);
                    "mutation: tokens swapped"
                }
            };
            *text = t.concat();
            label
        }
        3 => {
            // bracket imbalance / unterminated string: delete or insert one delimiter
            let cs: Vec<char> = text.chars().collect();
            let delims: Vec<usize> = (0..cs.len()).filter(|i| matches!(cs[*i], '(' | ')' | '<' | '>' | '"' | ';' | ',')).collect();
            if !delims.is_empty() && g.bool() {
                let i = *g.pick(&delims);
                *text = cs[..i].iter().chain(cs[i + 1..].iter()).collect();
                "mutation: delimiter deleted"
            } else {
                let i = g.index(cs.len() + 1);
                let d = *g.pick(&['(', ')', '<', '>', '"', ';', ',', '=', '&', '{', '}']);
                let mut v = cs;
                v.insert(i, d);
                *text = v.into_iter().collect();
                "mutation: delimiter inserted"
            }
        }
        4 => {
            // keyword / odd literal at a token boundary
            let mut t = rough_tokens(text);
            let i = g.index(t.len() + 1);
            t.insert(i, format!(" {} ", g.pick(KEYWORDS)));
            *text = t.concat();
            "mutation: dictionary token inserted"
        }
        5 => {
            // nesting around the parser depth limit, or far beyond it
            let levels = *g.pick(&[18usize, 19, 20, 21, 22, 24, 25, 60, 400]);
            let nested = nest_text(g, levels);
            let instr = format!("CALL_METHOD Address(\"component_sim1cptxxxxxxxxxfaucetxxxxxxxxx000527798379xxxxxxxxxhkrefh\") \"f\" {};\n", nested);
            if g.bool() {
                text.push_str(&instr);
            } else {
                *text = format!("{}{}", instr, text);
            }
            "mutation: deep nesting"
        }
        6 => {
            // very long line
            let n = *g.pick(&[200usize, 5000]);
            let filler: String = match g.below(3) {
                0 => " ".repeat(n),
                1 => format!("\"{}\"", "x".repeat(n)),
                _ => format!("# {}", "é".repeat(n)),
            };
            let cs: Vec<char> = text.chars().collect();
            let i = g.index(cs.len() + 1);
            *text = cs[..i].iter().collect::<String>() + &filler + &cs[i..].iter().collect::<String>();
            "mutation: very long line"
        }
        7 => {
            // rewrite line endings
            let mode = g.below(3);
            let mut out = String::new();
            for part in text.split_inclusive('\n') {
                let body = part.strip_suffix('\n').map(|b| b.strip_suffix('\r').unwrap_or(b));
                match body {
                    Some(b) => {
                        out.push_str(b);
                        out.push_str(match mode {
                            0 => "\r\n",
                            1 => "\r",
                            _ => line_ending(g),
                        });
                    }
                    None => out.push_str(part),
                }
            }
            *text = out;
            match mode {
                0 => "mutation: CRLF line endings",
                1 => "mutation: CR line endings",
                _ => "mutation: mixed line endings",
            }
        }
        8 => {
            // leading blank / comment lines (the diagnostic window is +-5 lines)
            let n = g.range_usize(1, 12);
            let le = line_ending(g);
            let mut pre = String::new();
            for _ in 0..n {
                if g.chance(1, 4) {
                    pre.push_str("# é comment");
                }
                pre.push_str(le);
            }
            *text = pre + text;
            "mutation: leading lines"
        }
        9 => {
            *text = format!("\u{feff}{}", text);
            "mutation: BOM"
        }
        10 => {
            *text = text.replace("    ", "\t");
            "mutation: tabs"
        }
        11 => {
            // huge integer where a literal is
            let mut t = rough_tokens(text);
            let nums: Vec<usize> = (0..t.len()).filter(|i| t[*i].chars().next().map(|c| c.is_ascii_digit()).unwrap_or(false)).collect();
            if nums.is_empty() {
                return "mutation: none";
            }
            let i = *g.pick(&nums);
            let suffix: String = t[i].chars().skip_while(|c| c.is_ascii_digit()).collect();
            t[i] = format!("{}{}", "9".repeat(*g.pick(&[3usize, 20, 39, 40, 80])), suffix);
            *text = t.concat();
            "mutation: huge integer"
        }
        12 => {
            // non-ASCII character anywhere (strings, identifiers, error positions)
            let cs: Vec<char> = text.chars().collect();
            let i = g.index(cs.len() + 1);
            let c = *g.pick(NON_ASCII);
            let mut v = cs;
            v.insert(i, c);
            *text = v.into_iter().collect();
            "mutation: non-ASCII character inserted"
        }
        13 => {
            // trailing garbage: an error on the last line
            let le = line_ending(g);
            let tail = *g.pick(&["FOO;", "CALL_METHOD", "\"", "(", "Tuple(", "DROP_PROOF Proof(\"nope\");", "é", "1u8", "TAKE_ALL_FROM_WORKTOP Address(\"x\") Bucket(\"b\");"]);
            if !text.ends_with('\n') && !text.ends_with('\r') && !text.is_empty() {
                text.push_str(le);
            }
            text.push_str(tail);
            if g.bool() {
                text.push_str(le);
            }
            "mutation: trailing garbage"
        }
        _ => {
            // truncate
            let cs: Vec<char> = text.chars().collect();
            let i = g.index(cs.len() + 1);
            *text = cs[..i].iter().collect();
            "mutation: truncated"
        }
    }
}

/// Deepest nesting of parentheses outside string literals and comments (scanned the way the
/// language defines them: `"` .. unescaped `"`, `#` .. end of line).
fn paren_depth(text: &str) -> usize {
    let (mut depth, mut max) = (0usize, 0usize);
    let mut it = text.chars();
    while let Some(c) = it.next() {
        match c {
            '#' => {
                for d in it.by_ref() {
                    if d == '\n' {
                        break;
                    }
                }
            }
            '"' => {
                while let Some(d) = it.next() {
                    if d == '\\' {
                        it.next();
                    } else if d == '"' {
                        break;
                    }
                }
            }
            '(' => {
                depth += 1;
                max = max.max(depth);
            }
            ')' => depth = depth.saturating_sub(1),
            _ => {}
        }
    }
    max
}


// ---- checksummed / length-checked literals -------------------------------------------------------
//
// Character-level mutations destroy a bech32m checksum, so the code behind the checksum (HRP /
// entity-type / length checks, conversions into fixed-size ids) would never see a near-valid
// literal. These mutations *re-encode*: the checksum is always valid, what varies is the payload
// length (0..=29, 31..=40 instead of 30; hashes: != 32), the HRP (wrong for the entity byte, other
// network, transaction-hash HRPs), the entity byte, and the bech32 variant.

const ALL_ENTITY_BYTES: &[u8] = &[
    0x0d, 0x86, 0x83, 0x82, 0xc0, 0xc1, 0xc2, 0xc3, 0xc4, 0xc5, 0xc6, 0x68, 0xd1, 0xd2, 0x51, 0x52, 0x5d, 0x58, 0x9a, 0x98, 0xf8, 0xb0,
];

fn bech32m(hrp: &str, payload: &[u8], m: bool) -> Option<String> {
    use bech32::ToBase32;
    bech32::encode(hrp, payload.to_base32(), if m { bech32::Variant::Bech32m } else { bech32::Variant::Bech32 }).ok()
}

fn bech32_payload(s: &str) -> Option<(String, Vec<u8>)> {
    use bech32::FromBase32;
    let (hrp, data, _variant) = bech32::decode(s).ok()?;
    Some((hrp, Vec::<u8>::from_base32(&data).ok()?))
}

fn entity_hrp(network: &NetworkDefinition, entity_byte: u8) -> String {
    let set = radix_common::address::HrpSet::from(network);
    match EntityType::from_repr(entity_byte) {
        Some(et) => set.get_entity_hrp(&et).to_string(),
        None => set.account.clone(),
    }
}

fn odd_len(g: &mut Gen, proper: usize) -> usize {
    loop {
        let n = if g.chance(1, 2) { *g.pick(&[0usize, 1, 2, proper - 1, proper + 1, proper + 2, 40]) } else { g.range_usize(0, 40) };
        if n != proper {
            return n;
        }
    }
}

/// A checksum-valid address-like literal; `label` says what is off (if anything).
fn craft_address(g: &mut Gen, base: Option<(String, Vec<u8>)>, network: &NetworkDefinition) -> (String, &'static str) {
    let (mut hrp, mut payload) = match base {
        Some(b) => b,
        None => {
            let eb = *g.pick(ALL_ENTITY_BYTES);
            let mut p: Vec<u8> = match g.below(3) {
                0 => vec![0u8; 30],
                1 => vec![0xff; 30],
                _ => g.bytes(30),
            };
            p[0] = eb;
            (entity_hrp(network, eb), p)
        }
    };
    let is_hash = hrp.contains("txid") || hrp.starts_with("subtxid") || hrp.starts_with("signedintent") || hrp.starts_with("notarizedtransaction");
    let proper = if is_hash { 32 } else { 30 };
    let mut m = true;
    let label = match g.weighted(&[8, 2, 2, 1, 2, 1, 2]) {
        0 => {
            let n = odd_len(g, proper);
            payload.resize(n, 0x5a);
            "literal: valid bech32m, wrong payload length"
        }
        1 => {
            // HRP of another entity type of the same network
            let other = *g.pick(ALL_ENTITY_BYTES);
            hrp = entity_hrp(network, other);
            "literal: valid bech32m, HRP of another entity type"
        }
        2 => {
            let net = if g.bool() { NetworkDefinition::mainnet() } else { NetworkDefinition::stokenet() };
            let eb = payload.first().copied().unwrap_or(0xc1);
            hrp = if is_hash { hrp.replace("sim", &net.hrp_suffix) } else { entity_hrp(&net, eb) };
            "literal: valid bech32m, other network"
        }
        3 => {
            m = false;
            "literal: bech32 (not bech32m) checksum"
        }
        4 => {
            if let Some(b) = payload.first_mut() {
                *b = *g.pick(&[0x00u8, 0x01, 0x0c, 0x0e, 0xff, 0x5c]);
            }
            "literal: valid bech32m, unknown entity byte"
        }
        5 => {
            // both: wrong length and a transaction-hash / address HRP swap
            hrp = if is_hash { entity_hrp(network, 0xc1) } else { format!("subtxid_{}", network.hrp_suffix) };
            let n = if g.bool() { proper } else { odd_len(g, proper) };
            payload.resize(n, 0x5a);
            "literal: valid bech32m, address / hash HRP swapped"
        }
        _ => "literal: valid bech32m, well-formed",
    };
    match bech32m(&hrp, &payload, m) {
        Some(s) => (s, label),
        None => ("account_sim1".to_string(), "literal: not encodable"),
    }
}

/// Re-encode one bech32 string literal of the text (address, `addr:<id>` global id, transaction hash).
fn reencode_literal(g: &mut Gen, text: &mut String, network: &NetworkDefinition) -> Option<&'static str> {
    let mut t = rough_tokens(text);
    let mut candidates: Vec<(usize, String, Vec<u8>, String)> = Vec::new();
    for (i, tok) in t.iter().enumerate() {
        if tok.len() >= 10 && tok.starts_with('"') && tok.ends_with('"') {
            let inner = &tok[1..tok.len() - 1];
            let (addr, rest) = match inner.split_once(':') {
                Some((a, r)) => (a, format!(":{}", r)),
                None => (inner, String::new()),
            };
            if let Some((hrp, payload)) = bech32_payload(addr) {
                candidates.push((i, hrp, payload, rest));
            }
        }
    }
    if candidates.is_empty() {
        return None;
    }
    let (i, hrp, payload, rest) = g.pick(&candidates).clone();
    let (lit, label) = craft_address(g, Some((hrp, payload)), network);
    t[i] = format!("\"{}{}\"", lit, rest);
    *text = t.concat();
    Some(label)
}

fn good(network: &NetworkDefinition, node: &[u8]) -> String {
    AddressBech32Encoder::new(network).encode(node).expect("well-known address encodes")
}

/// Insert an instruction that carries a crafted literal in one of the positions where the
/// generator converts it into a fixed-size id.
fn insert_literal_instruction(g: &mut Gen, text: &mut String, network: &NetworkDefinition) -> &'static str {
    let (x, label) = craft_address(g, None, network);
    #[allow(non_snake_case)]
    let GOOD_COMPONENT = good(network, FAUCET.as_bytes());
    #[allow(non_snake_case)]
    let GOOD_PACKAGE = good(network, FAUCET_PACKAGE.as_bytes());
    let good_nf = good(network, PACKAGE_OF_DIRECT_CALLER_RESOURCE.as_bytes());
    let n_positions = 24;
    let (instr, label): (String, &'static str) = match g.below(n_positions) {
        0 => (format!("CALL_METHOD Address(\"{x}\") \"m\";"), label),
        1 => (format!("CALL_FUNCTION Address(\"{x}\") \"B\" \"f\";"), label),
        2 => (format!("TAKE_ALL_FROM_WORKTOP Address(\"{x}\") Bucket(\"zz9\"); RETURN_TO_WORKTOP Bucket(\"zz9\");"), label),
        3 => (format!("ASSERT_WORKTOP_CONTAINS_ANY Address(\"{x}\");"), label),
        4 => (format!("CALL_METHOD Address(\"{GOOD_COMPONENT}\") \"m\" Address(\"{x}\");"), label),
        5 => (format!("CALL_METHOD Address(\"{GOOD_COMPONENT}\") \"m\" Tuple(Some(Address(\"{x}\")), 1u8);"), label),
        6 => (format!("CALL_METHOD Address(\"{GOOD_COMPONENT}\") \"m\" Array<Address>(Address(\"{x}\"));"), label),
        7 => (format!("CALL_METHOD Address(\"{GOOD_COMPONENT}\") \"m\" Map<Address, U8>(Address(\"{x}\") => 1u8);"), label),
        8 => (format!("CALL_METHOD Address(\"{GOOD_COMPONENT}\") \"m\" NonFungibleGlobalId(\"{x}:#1#\");"), label),
        9 => (format!("CALL_METHOD Address(\"{GOOD_COMPONENT}\") \"m\" Array<Tuple>(NonFungibleGlobalId(\"{x}:<a>\"));"), label),
        10 => (format!("ALLOCATE_GLOBAL_ADDRESS Address(\"{x}\") \"B\" AddressReservation(\"zr9\") NamedAddress(\"zn9\");"), label),
        11 => (format!("USE_PREALLOCATED_ADDRESS Address(\"{GOOD_PACKAGE}\") \"B\" AddressReservation(\"zp9\") Address(\"{x}\");"), label),
        12 => (format!("USE_PREALLOCATED_ADDRESS Address(\"{x}\") \"B\" AddressReservation(\"zp8\") Address(\"{GOOD_COMPONENT}\");"), label),
        13 => (format!("CALL_DIRECT_VAULT_METHOD Address(\"{x}\") \"m\";"), label),
        14 => (format!("RECALL_FROM_VAULT Address(\"{x}\") Decimal(\"1\");"), label),
        15 => (format!("ASSERT_WORKTOP_RESOURCES_ONLY Map<Address, Enum>(Address(\"{x}\") => Enum<0u8>());"), label),
        16 => (format!("SET_METADATA Address(\"{x}\") \"k\" Enum<0u8>(\"v\");"), label),
        17 => (format!("MINT_FUNGIBLE Address(\"{x}\") Decimal(\"1\");"), label),
        18 => (format!("VERIFY_PARENT Enum<2u8>(Enum<0u8>(Enum<0u8>(Enum<1u8>(Address(\"{x}\")))));"), label),
        19 => (format!("USE_CHILD NamedIntent(\"zc9\") Intent(\"{x}\");"), label),
        // other length- / range-checked literals
        20 => {
            let n = *g.pick(&[0usize, 1, 31, 33, 64]);
            let mut h = "ab".repeat(n);
            if g.chance(1, 4) {
                h.push('a');
            }
            (format!("CALL_METHOD Address(\"{GOOD_COMPONENT}\") \"m\" Blob(\"{h}\");"), "literal: blob hash of wrong length")
        }
        21 => {
            let d = *g.pick(&[
                "3138550867693340381917894711603833208051.177722232017256448",
                "-3138550867693340381917894711603833208051.177722232017256449",
                "1.0000000000000000001",
                "99999999999999999999999999999999999999999999999999999999999999999999999999",
                "1e5",
                "",
                ".5",
                "1.",
            ]);
            let ty = if g.bool() { "Decimal" } else { "PreciseDecimal" };
            (format!("CALL_METHOD Address(\"{GOOD_COMPONENT}\") \"m\" {ty}(\"{d}\");"), "literal: decimal out of range / malformed")
        }
        22 => {
            let id = match g.below(6) {
                0 => format!("<{}>", "a".repeat(65)),
                1 => "<>".to_string(),
                2 => format!("[{}]", "ab".repeat(65)),
                3 => "#18446744073709551616#".to_string(),
                4 => "{1111111111111111-1111111111111111-1111111111111111}".to_string(),
                _ => "[abc]".to_string(),
            };
            let wrap = if g.bool() { format!("NonFungibleLocalId(\"{id}\")") } else { format!("NonFungibleGlobalId(\"{good_nf}:{id}\")") };
            (format!("CALL_METHOD Address(\"{GOOD_COMPONENT}\") \"m\" {wrap};"), "literal: non-fungible id out of bounds")
        }
        _ => {
            let v = *g.pick(&["Bytes(\"abc\")", "Bytes(\"zz\")", "Expression(\"ENTIRE\")", "Enum<256u16>()", "Array<Bucket>(Bucket(4294967295u32))", "Proof(4294967296u64)", "AddressReservation(0u32)", "NamedAddress(7u32)"]);
            (format!("CALL_METHOD Address(\"{GOOD_COMPONENT}\") \"m\" {v};"), "literal: other malformed typed literal")
        }
    };
    // pseudo-instructions only count at the top; everything else anywhere between instructions
    let at_top = instr.starts_with("USE_");
    let pieces: Vec<&str> = text.split_inclusive(';').collect();
    let pos = if at_top { 0 } else { g.index(pieces.len() + 1) };
    let mut out = String::new();
    for (i, p) in pieces.iter().enumerate() {
        if i == pos {
            out.push_str(&instr);
            out.push('\n');
        }
        out.push_str(p);
    }
    if pos >= pieces.len() {
        out.push('\n');
        out.push_str(&instr);
        out.push('\n');
    }
    *text = out;
    label
}

fn span_of(e: &CompileError) -> Span {
    match e {
        CompileError::LexerError(e) => e.span,
        CompileError::ParserError(e) => e.span,
        CompileError::GeneratorError(e) => e.span,
    }
}

fn strip_ansi(s: &str) -> String {
    let mut out = String::new();
    let mut it = s.chars().peekable();
    while let Some(c) = it.next() {
        if c == '\u{1b}' && it.peek() == Some(&'[') {
            for d in it.by_ref() {
                if d.is_ascii_alphabetic() {
                    break;
                }
            }
        } else {
            out.push(c);
        }
    }
    out
}

/// Does the rendered snippet show source line `line` (a gutter `<line> |`)?
fn shows_line(rendered: &str, line: usize) -> bool {
    let want = line.to_string();
    rendered.split('\n').any(|l| {
        let t = l.trim_start();
        match t.strip_prefix(want.as_str()) {
            Some(rest) => rest.trim_start_matches(' ').starts_with('|'),
            None => false,
        }
    })
}

fn clip(s: &str, n: usize) -> String {
    let mut out: String = s.chars().take(n).collect();
    if s.chars().count() > n {
        out.push('…');
    }
    out
}

#[derive(Clone)]
enum Blobs {
    None,
    Mock,
    Of(IndexMap<Hash, Vec<u8>>),
}

fn compile_once(text: &str, kind: Kind, network: &NetworkDefinition, blobs: &Blobs) -> Result<Result<AnyManifest, CompileError>, String> {
    let text = text.to_string();
    let network = network.clone();
    let blobs = blobs.clone();
    catch(move || match blobs {
        Blobs::None => compile_any_manifest(&text, kind.manifest_kind(), &network, BlobProvider::new()),
        Blobs::Mock => compile_any_manifest(&text, kind.manifest_kind(), &network, MockBlobProvider::new()),
        Blobs::Of(b) => compile_any_manifest(&text, kind.manifest_kind(), &network, BlobProvider::new_with_prehashed_blobs(b)),
    })
}

fn render(text: &str, e: &CompileError, style: CompileErrorDiagnosticsStyle) -> Result<String, String> {
    let text = text.to_string();
    let e = e.clone();
    catch(move || compile_error_diagnostics(&text, e, style))
}

/// Panic location without machine-specific prefixes (cargo registry / checkout directory).
fn panic_location(p: &str) -> String {
    let loc = p.rsplit_once(" @ ").map(|(_, l)| l.to_string()).unwrap_or_else(|| "unknown location".into());
    if let Some(i) = loc.find("/registry/src/") {
        let rest = &loc[i + "/registry/src/".len()..];
        return rest.split_once('/').map(|(_, r)| r.to_string()).unwrap_or_else(|| rest.to_string());
    }
    for marker in ["/radix-transactions/", "/radix-common/", "/sbor/", "/radix-rust/", "/radix-engine-interface/"] {
        if let Some(i) = loc.find(marker) {
            return loc[i + 1..].to_string();
        }
    }
    loc
}

fn case(g: &mut Gen) -> Outcome {
    case_inner(g, false)
}

fn literals_case(g: &mut Gen) -> Outcome {
    case_inner(g, true)
}

fn case_inner(g: &mut Gen, literal_part: bool) -> Outcome {
    let network = NetworkDefinition::simulator();
    let mut kind = *g.pick(&Kind::ALL);
    let mut blobs = if g.bool() { Blobs::Mock } else { Blobs::None };
    let mut text: String = match g.weighted(&[2, 4, 4, 1]) {
        0 => {
            g.label("base: built-in text");
            g.pick(BUILTIN).to_string()
        }
        1 => {
            let c = corpus();
            if c.is_empty() {
                g.label("base: built-in text");
                g.pick(BUILTIN).to_string()
            } else {
                g.label("base: corpus file");
                g.pick(c).clone()
            }
        }
        2 => {
            g.label("base: decompiled generated manifest");
            let generated = mgen::generate(g, &Options { value_depth: 3, max_steps: 8, ..Options::default() });
            let m = generated.manifest.clone();
            let n = network.clone();
            match catch(move || decompile_any(&m, &n)) {
                Ok(Ok(t)) => {
                    if g.chance(3, 4) {
                        kind = generated.kind;
                    }
                    blobs = Blobs::Of(blobs_of(&generated.manifest));
                    t
                }
                _ => BUILTIN[2].to_string(),
            }
        }
        _ => {
            g.label("base: raw bytes as text");
            let raw = g.blob(96);
            match String::from_utf8(raw.clone()) {
                Ok(s) => s,
                Err(_) => String::from_utf8_lossy(&raw).into_owned(),
            }
        }
    };
    if literal_part {
        // one or two crafted literals first, the ordinary mutations (line endings, ...) on top
        let n = 1 + g.weighted(&[3, 1]);
        for _ in 0..n {
            let l = if g.bool() { reencode_literal(g, &mut text, &network) } else { None };
            let l = match l {
                Some(l) => {
                    g.label("literal re-encoded in place");
                    l
                }
                None => {
                    g.label("instruction with crafted literal inserted");
                    insert_literal_instruction(g, &mut text, &network)
                }
            };
            g.label(l);
        }
        g.nontrivial();
    }
    let n_mut = g.weighted(&[1, 5, 3, 2]);
    for _ in 0..n_mut {
        let l = mutate(g, &mut text);
        g.label(l);
    }
    g.label(kind.name());
    if text.contains('\r') {
        g.label("contains CR");
        g.nontrivial();
    }
    g.sample(|| format!("{} <- {:?}", kind.name(), clip(&text, 900)));

    let first = match compile_once(&text, kind, &network, &blobs) {
        Ok(r) => r,
        Err(p) => {
            return Outcome::fail(format!("compile_any_manifest panics at {}", panic_location(&p)), format!("{}\nkind {}\ntext {:?}", p, kind.name(), clip(&text, 4000)));
        }
    };
    // every parenthesis level is a nested value for the parser, whose documented limit is
    // PARSER_MAX_DEPTH (the guard against unbounded recursion): deeper texts cannot compile
    let deep = paren_depth(&text);
    if deep > radix_transactions::manifest::parser::PARSER_MAX_DEPTH {
        g.label("nested deeper than PARSER_MAX_DEPTH");
        ensure!(
            first.is_err(),
            "a text nested deeper than PARSER_MAX_DEPTH compiles (parser recursion is unbounded)",
            "parenthesis depth {} > {}\nkind {}\ntext {:?}",
            deep,
            radix_transactions::manifest::parser::PARSER_MAX_DEPTH,
            kind.name(),
            clip(&text, 3000)
        );
    }
    // same answer every time (and from another thread now and then)
    let other_thread = g.chance(1, 8);
    // (deeply nested texts stay on the driver's large-stack worker: what is compared is the
    // answer, not the stack need of a text the depth limit is there to reject)
    let second = if other_thread && deep <= radix_transactions::manifest::parser::PARSER_MAX_DEPTH {
        let (t, n, b) = (text.clone(), network.clone(), blobs.clone());
        std::thread::scope(|s| s.spawn(move || compile_once(&t, kind, &n, &b)).join()).unwrap_or_else(|_| Err("second thread died".into()))
    } else {
        compile_once(&text, kind, &network, &blobs)
    };
    match &second {
        Ok(r) => ensure!(*r == first, "compile_any_manifest gives different answers for the same text", "kind {}\ntext {:?}\nfirst {:?}\nsecond {:?}", kind.name(), clip(&text, 3000), first, r),
        Err(p) => return Outcome::fail(format!("compile_any_manifest panics at {}", panic_location(p)), format!("second call only: {}\ntext {:?}", p, clip(&text, 3000))),
    }

    let err = match first {
        Ok(_) => {
            g.label("compiles");
            return Outcome::Pass;
        }
        Err(e) => e,
    };
    g.label(match &err {
        CompileError::LexerError(_) => "lexer error",
        CompileError::ParserError(_) => "parser error",
        CompileError::GeneratorError(_) => "generator error",
    });
    let span = span_of(&err);
    let chars: Vec<char> = text.chars().collect();
    let at = span.start.full_index.min(chars.len());
    let mut line = 1 + chars[..at].iter().filter(|c| **c == '\n').count();
    let lines_cnt = text.lines().count();
    if chars[..at].iter().any(|c| !c.is_ascii()) {
        g.label("non-ASCII before the error");
        g.nontrivial();
    }
    if line > 6 {
        g.label("error after line 6");
        g.nontrivial();
    }
    if span.start.full_index >= chars.len() {
        g.label("error at end of input");
    }
    // the end-of-input position may sit on a line that holds no character
    if line > lines_cnt {
        line = lines_cnt;
    }
    for style in [CompileErrorDiagnosticsStyle::PlainText, CompileErrorDiagnosticsStyle::TextTerminalColors] {
        let rendered = match render(&text, &err, style) {
            Ok(r) => r,
            Err(p) => {
                return Outcome::fail(
                    format!("compile_error_diagnostics panics at {}", panic_location(&p)),
                    format!("{}\nkind {} style {:?}\nerror {:?}\ntext {:?}", p, kind.name(), style, err, clip(&text, 4000)),
                );
            }
        };
        let again = render(&text, &err, style);
        ensure!(again.as_ref() == Ok(&rendered), "compile_error_diagnostics gives different answers for the same input", "text {:?}\nfirst {:?}\nsecond {:?}", clip(&text, 2000), rendered, again);
        if lines_cnt > 0 {
            let plain = strip_ansi(&rendered);
            ensure!(
                shows_line(&plain, line),
                "diagnostic does not show the line of the error",
                "error span starts at char {} = line {} (of {}), style {:?}\nerror {:?}\ntext {:?}\nrendered:\n{}",
                span.start.full_index,
                line,
                lines_cnt,
                style,
                err,
                clip(&text, 3000),
                clip(&plain, 3000)
            );
        }
    }
    Outcome::Pass
}

pub fn check() -> Check {
    Check::new(
        "C31",
        "The manifest compiler never crashes",
        "Texts = built-in manifests, the example .rtm corpus, decompiler output of generated manifests, or raw bytes as (lossy) UTF-8, with 0-3 mutations: token deleted / duplicated / swapped, delimiter deleted / inserted (bracket imbalance, unterminated strings), dictionary tokens (keywords, odd literals, bad escapes, lone surrogates), huge integers, nesting at and far past the parser depth limit, very long lines, line endings rewritten to CRLF / CR / mixed, 1-12 leading lines, BOM, tabs, non-ASCII characters at any position, trailing garbage, truncation; compiled as each of the four manifest kinds. compile_any_manifest must return (twice the same, sometimes from a second thread); on Err, compile_error_diagnostics must render in both styles without panicking, identically twice, and show the source line of the error span (line computed from the span's char index). A third part plants checksum-valid but otherwise wrong bech32m literals (payload of 0-29 / 31-40 bytes, HRP of another entity type or network, unknown entity byte, bech32 instead of bech32m, address/hash HRP swapped) by re-encoding literals in place or inserting instructions carrying them in every address position (instruction arguments, values nested in call arguments, NonFungibleGlobalId, assertion maps, USE_CHILD / USE_PREALLOCATED_ADDRESS), plus blob hashes, decimals, non-fungible ids and typed literals out of bounds. Non-trivial = text contains CR, or is rejected with an error after line 6 or after a non-ASCII character, or carries a crafted literal. Distinct = distinct decoded choice sequences.",
    )
    .assume("blob providers: none, accept-all mock, or the generated manifest's own blobs")
    // checksum-valid but otherwise wrong bech32m literals (addresses, global ids, intent hashes) and
    // other length- / range-checked literals, re-encoded in place or inserted in every position an
    // address literal can take
    .part(Part::new("literals", 60_000, 4_000_000, 1024, literals_case))
    .part(Part::new("texts", 100_000, 5_000_000, 1536, case))
    // the same case function on short tapes: mostly built-in bases with one or two mutations
    // (cheap, and failures shrink to a handful of bytes)
    .part(Part::new("short", 250_000, 12_000_000, 48, case))
    .min_nontrivial_pct(20.0)
}
