//! R3(a) random value trees for the three flavours and R3(c) byte / site mutators.
//! Everything is driven by the tape (`Gen`); an exhausted tape gives the simplest value.

use crate::wire::*;
use vf_core::Gen;

/// Sizes at which the LEB128 length prefix changes its byte count.
pub const LEB_BOUNDARIES: &[usize] = &[127, 128, 16383, 16384];
pub const LEB_BOUNDARY_3_4: usize = 2_097_151;

pub struct ValGen<'a, 'b> {
    pub g: &'a mut Gen<'b>,
    pub fl: Flavour,
    /// Remaining node budget (soft): when it reaches 0 only leaves / empty containers are produced.
    pub budget: usize,
    /// If set, one array element / map key / map value is given a kind different from the one its
    /// container announces (such a value has no encoding: the encoder must refuse it).
    pub want_mismatch: bool,
    pub mismatched: bool,
}

const SCALAR_KINDS: &[u8] = &[K_U8, K_BOOL, K_I8, K_I16, K_I32, K_I64, K_I128, K_U16, K_U32, K_U64, K_U128, K_STRING];
const CONTAINER_KINDS: &[u8] = &[K_TUPLE, K_ARRAY, K_ENUM, K_MAP];

pub fn interesting_u64(g: &mut Gen) -> u64 {
    match g.weighted(&[4, 3, 3]) {
        0 => *g.pick(&[0u64, 1, 2, 0x7f, 0x80, 0xff, 0x100, 0x7fff, 0xffff, 0x7fff_ffff, 0xffff_ffff, i64::MAX as u64, u64::MAX]),
        1 => g.below(256),
        _ => g.u64(),
    }
}

fn gen_scalar(g: &mut Gen, kind: u8) -> Node {
    let edge = g.weighted(&[5, 2, 2]);
    match kind {
        K_BOOL => Node::Bool(g.bool()),
        K_I8 => Node::I8(match edge {
            1 => i8::MIN,
            2 => i8::MAX,
            _ => g.u8() as i8,
        }),
        K_I16 => Node::I16(match edge {
            1 => i16::MIN,
            2 => i16::MAX,
            _ => interesting_u64(g) as i16,
        }),
        K_I32 => Node::I32(match edge {
            1 => i32::MIN,
            2 => i32::MAX,
            _ => interesting_u64(g) as i32,
        }),
        K_I64 => Node::I64(match edge {
            1 => i64::MIN,
            2 => i64::MAX,
            _ => interesting_u64(g) as i64,
        }),
        K_I128 => Node::I128(match edge {
            1 => i128::MIN,
            2 => i128::MAX,
            _ => {
                if g.bool() {
                    g.u128() as i128
                } else {
                    interesting_u64(g) as i64 as i128
                }
            }
        }),
        K_U8 => Node::U8(g.u8()),
        K_U16 => Node::U16(match edge {
            2 => u16::MAX,
            _ => interesting_u64(g) as u16,
        }),
        K_U32 => Node::U32(match edge {
            2 => u32::MAX,
            _ => interesting_u64(g) as u32,
        }),
        K_U64 => Node::U64(match edge {
            2 => u64::MAX,
            _ => interesting_u64(g),
        }),
        K_U128 => Node::U128(match edge {
            2 => u128::MAX,
            _ => {
                if g.bool() {
                    g.u128()
                } else {
                    interesting_u64(g) as u128
                }
            }
        }),
        K_STRING => Node::Str(gen_string(g, 12)),
        _ => unreachable!("not a scalar kind"),
    }
}

const STR_PIECES: &[&str] = &["a", "Z", "0", "_", " ", "é", "ß", "€", "日", "𝄞", "\0", "\n", "\u{7f}", "\u{80}", "\u{7ff}", "\u{800}", "\u{ffff}", "\u{10ffff}"];

pub fn gen_string(g: &mut Gen, max_pieces: usize) -> String {
    let n = g.len(max_pieces);
    let mut s = String::new();
    for _ in 0..n {
        { let p: &&str = g.pick(STR_PIECES); s.push_str(p); }
    }
    s
}

/// A string of exactly `n` bytes (ASCII filler, optionally ending in a multi-byte character).
pub fn string_of_len(g: &mut Gen, n: usize) -> String {
    let fill = *g.pick(&['a', 'z', '0', '_', ' ']);
    let mut s = String::with_capacity(n);
    let tail = if n >= 4 && g.chance(1, 3) { *g.pick(&["é", "€", "𝄞"]) } else { "" };
    for _ in 0..n - tail.len() {
        s.push(fill);
    }
    s.push_str(tail);
    s
}

pub fn bytes_of_len(g: &mut Gen, n: usize) -> Vec<u8> {
    let a = g.u8();
    let step = g.u8();
    (0..n).map(|i| a.wrapping_add((i as u8).wrapping_mul(step))).collect()
}

const NF_CHARS: &[u8] = b"abcxyzABCXYZ0189_";

pub fn gen_nf_body(g: &mut Gen) -> Vec<u8> {
    match g.weighted(&[3, 3, 3, 2]) {
        0 => nf_integer_body(interesting_u64(g)),
        1 => {
            let n = g.len_around(NF_ID_MAX_LEN, &[1, 64]).max(1);
            let s: Vec<u8> = (0..n).map(|_| *g.pick(NF_CHARS)).collect();
            nf_string_body(&s)
        }
        2 => {
            let n = g.len_around(NF_ID_MAX_LEN, &[1, 64]).max(1);
            let b = bytes_of_len(g, n);
            nf_bytes_body(&b)
        }
        _ => nf_ruid_body(&g.array::<32>()),
    }
}

/// 30 bytes of a node id; mostly with a known entity-type byte.
pub fn gen_node_id(g: &mut Gen, must_be_entity: bool) -> Vec<u8> {
    let mut id = vec![0u8; 30];
    let tail = g.u8();
    for (i, b) in id.iter_mut().enumerate() {
        *b = tail.wrapping_add(i as u8);
    }
    id[0] = if must_be_entity || g.chance(3, 4) { *g.pick(ENTITY_TYPES) } else { g.u8() };
    id
}

pub fn gen_decimal_bytes(g: &mut Gen, n: usize) -> Vec<u8> {
    match g.weighted(&[3, 2, 1, 1, 2]) {
        0 => {
            // small magnitude
            let mut b = vec![0u8; n];
            let v = interesting_u64(g).to_le_bytes();
            b[..8].copy_from_slice(&v);
            b
        }
        1 => vec![0u8; n],
        2 => {
            // MAX
            let mut b = vec![0xffu8; n];
            b[n - 1] = 0x7f;
            b
        }
        3 => {
            // MIN
            let mut b = vec![0u8; n];
            b[n - 1] = 0x80;
            b
        }
        _ => g.bytes(n),
    }
}

/// A valid custom value of the given kind.
pub fn gen_custom(g: &mut Gen, fl: Flavour, kind: u8) -> Node {
    let body = match fl {
        Flavour::Basic => unreachable!("basic flavour has no custom kinds"),
        Flavour::Scrypto => match kind {
            SK_REFERENCE | SK_OWN => gen_node_id(g, false),
            SK_DECIMAL => gen_decimal_bytes(g, 24),
            SK_PRECISE_DECIMAL => gen_decimal_bytes(g, 32),
            SK_NF_LOCAL_ID => gen_nf_body(g),
            _ => unreachable!(),
        },
        Flavour::Manifest => match kind {
            MK_ADDRESS => {
                if g.chance(1, 3) {
                    let mut b = vec![1u8];
                    b.extend_from_slice(&(interesting_u64(g) as u32).to_le_bytes());
                    b
                } else {
                    let mut b = vec![0u8];
                    b.extend(gen_node_id(g, true));
                    b
                }
            }
            MK_BUCKET | MK_PROOF | MK_ADDRESS_RESERVATION => (interesting_u64(g) as u32).to_le_bytes().to_vec(),
            MK_EXPRESSION => vec![g.below(2) as u8],
            MK_BLOB => g.array::<32>().to_vec(),
            MK_DECIMAL => gen_decimal_bytes(g, 24),
            MK_PRECISE_DECIMAL => gen_decimal_bytes(g, 32),
            MK_NF_LOCAL_ID => gen_nf_body(g),
            _ => unreachable!(),
        },
    };
    Node::Custom { kind, body }
}

impl<'a, 'b> ValGen<'a, 'b> {
    pub fn new(g: &'a mut Gen<'b>, fl: Flavour, budget: usize) -> Self {
        ValGen { g, fl, budget, want_mismatch: false, mismatched: false }
    }

    fn pick_kind(&mut self, allow_container: bool) -> u8 {
        let customs = self.fl.custom_kinds();
        let w_custom = if customs.is_empty() { 0 } else { 3 };
        let w_cont = if allow_container { 5 } else { 0 };
        match self.g.weighted(&[6, w_cont, w_custom]) {
            0 => *self.g.pick(SCALAR_KINDS),
            1 => *self.g.pick(CONTAINER_KINDS),
            _ => *self.g.pick(customs),
        }
    }

    fn other_kind(&mut self, not: u8) -> u8 {
        for _ in 0..8 {
            let k = self.pick_kind(true);
            if k != not {
                return k;
            }
        }
        if not == K_U8 {
            K_BOOL
        } else {
            K_U8
        }
    }

    fn small_len(&mut self) -> usize {
        if self.budget == 0 {
            return 0;
        }
        let n = match self.g.weighted(&[10, 3, 1]) {
            0 => self.g.index(4),
            1 => self.g.index(9),
            _ => self.g.index(33),
        };
        n.min(self.budget)
    }

    /// Random value of at most `depth_left` levels (≥ 1).
    pub fn value(&mut self, depth_left: usize) -> Node {
        let k = self.pick_kind(depth_left >= 1);
        self.value_of_kind(k, depth_left)
    }

    /// Random value of kind `kind` of at most `depth_left` levels (≥ 1). With `depth_left == 1`
    /// containers are empty.
    pub fn value_of_kind(&mut self, kind: u8, depth_left: usize) -> Node {
        self.budget = self.budget.saturating_sub(1);
        let child = depth_left.saturating_sub(1);
        match kind {
            K_TUPLE => {
                let n = if child == 0 { 0 } else { self.small_len() };
                Node::Tuple((0..n).map(|_| self.value(child)).collect())
            }
            K_ENUM => {
                let disc = match self.g.weighted(&[6, 2, 1]) {
                    0 => self.g.below(4) as u8,
                    1 => self.g.u8(),
                    _ => 255,
                };
                let n = if child == 0 { 0 } else { self.small_len() };
                Node::Enum { disc, fields: (0..n).map(|_| self.value(child)).collect() }
            }
            K_ARRAY => {
                let ek = self.pick_kind(true);
                let n = if child == 0 { 0 } else { self.small_len() };
                if ek == K_U8 {
                    let n = if child == 0 { 0 } else { self.g.len(40) };
                    let b = self.g.bytes(n);
                    if self.want_mismatch && !self.mismatched && n > 0 && self.g.chance(1, 2) {
                        self.mismatched = true;
                        let at = self.g.index(n);
                        let ok = self.other_kind(K_U8);
                        let mut elems: Vec<Node> = b.iter().map(|x| Node::U8(*x)).collect();
                        elems[at] = self.value_of_kind(ok, child);
                        return Node::Array { ek: K_U8, elems };
                    }
                    return Node::Bytes(b);
                }
                let mut elems: Vec<Node> = (0..n).map(|_| self.value_of_kind(ek, child)).collect();
                if self.want_mismatch && !self.mismatched && n > 0 && self.g.chance(1, 2) {
                    self.mismatched = true;
                    let at = self.g.index(n);
                    let ok = self.other_kind(ek);
                    elems[at] = self.value_of_kind(ok, child);
                }
                Node::Array { ek, elems }
            }
            K_MAP => {
                let kk = self.pick_kind(true);
                let vk = self.pick_kind(true);
                let n = if child == 0 { 0 } else { self.small_len() };
                let mut entries: Vec<(Node, Node)> = (0..n)
                    .map(|_| {
                        let k = self.value_of_kind(kk, child);
                        let v = self.value_of_kind(vk, child);
                        (k, v)
                    })
                    .collect();
                if self.want_mismatch && !self.mismatched && n > 0 && self.g.chance(1, 2) {
                    self.mismatched = true;
                    let at = self.g.index(n);
                    if self.g.bool() {
                        let ok = self.other_kind(kk);
                        entries[at].0 = self.value_of_kind(ok, child);
                    } else {
                        let ok = self.other_kind(vk);
                        entries[at].1 = self.value_of_kind(ok, child);
                    }
                }
                Node::Map { kk, vk, entries }
            }
            k if k >= 0x80 => gen_custom(self.g, self.fl, k),
            k => gen_scalar(self.g, k),
        }
    }

    /// A value whose depth is exactly `depth` (≥ 1): a spine of containers of every kind (array
    /// elements, tuple / enum fields, map keys, map values, byte arrays at the end) with small
    /// random siblings that never go deeper than the spine.
    pub fn spine(&mut self, depth: usize) -> Node {
        assert!(depth >= 1);
        if depth == 1 {
            // a leaf: scalar, custom or an empty container
            return match self.g.weighted(&[3, 3, 2]) {
                0 => {
                    let k = *self.g.pick(SCALAR_KINDS);
                    self.value_of_kind(k, 1)
                }
                1 => {
                    let k = *self.g.pick(CONTAINER_KINDS);
                    self.value_of_kind(k, 1)
                }
                _ => {
                    if self.fl.custom_kinds().is_empty() {
                        Node::Bytes(vec![])
                    } else {
                        let k = *self.g.pick(self.fl.custom_kinds());
                        self.value_of_kind(k, 1)
                    }
                }
            };
        }
        if depth == 2 && self.g.chance(1, 4) {
            // non-empty byte array: its bytes are at depth 2
            let n = 1 + self.g.index(4);
            return Node::Bytes(self.g.bytes(n));
        }
        let inner = self.spine(depth - 1);
        let child = depth - 1;
        match self.g.weighted(&[3, 3, 3, 2, 2]) {
            0 => {
                // tuple field
                let mut fields = vec![inner];
                self.siblings(&mut fields, child);
                Node::Tuple(fields)
            }
            1 => {
                let mut fields = vec![inner];
                self.siblings(&mut fields, child);
                Node::Enum { disc: self.g.below(3) as u8, fields }
            }
            2 => {
                // array element: siblings must have the same kind
                let ek = inner.kind();
                if ek == K_U8 {
                    // an array of U8 is a byte array; keep the spine by wrapping in a tuple instead
                    return Node::Tuple(vec![inner]);
                }
                let extra = if self.budget > 0 { self.g.index(3) } else { 0 };
                let mut elems = vec![inner];
                for _ in 0..extra {
                    elems.push(self.value_of_kind(ek, child));
                }
                let at = self.g.index(elems.len());
                elems.swap(0, at);
                Node::Array { ek, elems }
            }
            3 => {
                // map key
                let kk = inner.kind();
                let vk = self.pick_kind(true);
                let v = self.value_of_kind(vk, child);
                let mut entries = vec![(inner, v)];
                if self.budget > 0 && self.g.chance(1, 3) {
                    let k2 = self.value_of_kind(kk, child);
                    let v2 = self.value_of_kind(vk, child);
                    entries.push((k2, v2));
                }
                Node::Map { kk, vk, entries }
            }
            _ => {
                // map value
                let vk = inner.kind();
                let kk = self.pick_kind(true);
                let k = self.value_of_kind(kk, child);
                let mut entries = vec![(k, inner)];
                if self.budget > 0 && self.g.chance(1, 3) {
                    let k2 = self.value_of_kind(kk, child);
                    let v2 = self.value_of_kind(vk, child);
                    entries.insert(0, (k2, v2));
                }
                Node::Map { kk, vk, entries }
            }
        }
    }

    fn siblings(&mut self, fields: &mut Vec<Node>, child_depth: usize) {
        let extra = if self.budget > 0 { self.g.index(3) } else { 0 };
        for _ in 0..extra {
            let d = 1 + self.g.index(child_depth.min(3));
            let v = self.value(d);
            if self.g.bool() {
                fields.push(v);
            } else {
                fields.insert(0, v);
            }
        }
    }

    /// A tuple / array / map made mostly of custom values (for flavours that have them).
    pub fn custom_rich(&mut self) -> Node {
        let customs = self.fl.custom_kinds();
        if customs.is_empty() {
            return self.value(3);
        }
        match self.g.weighted(&[3, 2, 1]) {
            0 => {
                let n = 1 + self.g.index(5);
                Node::Tuple((0..n).map(|_| {
                    let k = *self.g.pick(customs);
                    gen_custom(self.g, self.fl, k)
                }).collect())
            }
            1 => {
                let k = *self.g.pick(customs);
                let n = self.g.index(5);
                Node::Array { ek: k, elems: (0..n).map(|_| gen_custom(self.g, self.fl, k)).collect() }
            }
            _ => {
                let kk = *self.g.pick(customs);
                let vk = *self.g.pick(customs);
                let n = self.g.index(3);
                Node::Map { kk, vk, entries: (0..n).map(|_| (gen_custom(self.g, self.fl, kk), gen_custom(self.g, self.fl, vk))).collect() }
            }
        }
    }

    /// A value with a collection / string whose size sits at a LEB128 byte boundary.
    pub fn big(&mut self) -> Node {
        let n = {
            let base = *self.g.pick(LEB_BOUNDARIES);
            (base + self.g.index(3)).saturating_sub(1)
        };
        let inner = match self.g.weighted(&[4, 4, 2, 2, 2, 1, 1]) {
            0 => Node::Bytes(bytes_of_len(self.g, n)),
            1 => Node::Str(string_of_len(self.g, n)),
            2 => {
                let ek = *self.g.pick(&[K_BOOL, K_TUPLE, K_U16, K_STRING, K_ARRAY]);
                let proto = self.value_of_kind(ek, 1);
                Node::Array { ek, elems: vec![proto; n] }
            }
            3 => Node::Tuple((0..n).map(|i| Node::U8(i as u8)).collect()),
            4 => Node::Enum { disc: self.g.u8(), fields: (0..n).map(|i| Node::Bool(i % 2 == 0)).collect() },
            5 => Node::Map { kk: K_U16, vk: K_BOOL, entries: (0..n).map(|i| (Node::U16(i as u16), Node::Bool(i % 3 == 0))).collect() },
            _ => {
                // 3-byte / 4-byte boundary, strings only (cheap for every party)
                let m = (LEB_BOUNDARY_3_4 + self.g.index(3)).saturating_sub(0);
                Node::Str(string_of_len(self.g, m))
            }
        };
        // sometimes nested one or two levels down
        match self.g.weighted(&[3, 1, 1]) {
            0 => inner,
            1 => Node::Tuple(vec![Node::U8(1), inner]),
            _ => Node::Enum { disc: 1, fields: vec![Node::Tuple(vec![inner])] },
        }
    }
}

// ------------------------------------------------------------------------------------------------
// R3(c) byte mutators

const DICT: &[u8] = &[
    0x00, 0x01, 0x02, 0x07, 0x0c, 0x0d, 0x1f, 0x20, 0x21, 0x22, 0x23, 0x24, 0x4d, 0x5b, 0x5c, 0x7f, 0x80, 0x81, 0x83, 0x84, 0x88, 0x89, 0x90, 0xa0, 0xb0, 0xc0,
    0xd0, 0xff,
];

/// One generic byte-level mutation. Returns its label.
pub fn mutate_bytes(g: &mut Gen, b: &mut Vec<u8>) -> &'static str {
    if b.is_empty() {
        b.push(g.u8());
        return "push byte";
    }
    match g.weighted(&[4, 4, 3, 3, 3, 2, 2, 2, 2]) {
        0 => {
            let i = g.index(b.len());
            b[i] ^= 1 << g.below(8);
            "flip bit"
        }
        1 => {
            let i = g.index(b.len());
            b[i] = *g.pick(DICT);
            "set byte"
        }
        2 => {
            let i = g.index(b.len() + 1);
            let x = if g.bool() { *g.pick(DICT) } else { g.u8() };
            b.insert(i, x);
            "insert byte"
        }
        3 => {
            let i = g.index(b.len());
            b.remove(i);
            "delete byte"
        }
        4 => {
            let n = g.index(b.len());
            b.truncate(n);
            "truncate"
        }
        5 => {
            let n = 1 + g.index(3);
            for _ in 0..n {
                b.push(g.u8());
            }
            "trailing bytes"
        }
        6 => {
            // splice: copy a range somewhere else
            let from = g.index(b.len());
            let len = 1 + g.index((b.len() - from).min(8));
            let chunk = b[from..from + len].to_vec();
            let to = g.index(b.len() + 1);
            for (k, x) in chunk.into_iter().enumerate() {
                b.insert(to + k, x);
            }
            "splice"
        }
        7 => {
            // announce a huge size somewhere
            let i = g.index(b.len());
            let pat: &[u8] = match g.below(3) {
                0 => &[0xff, 0xff, 0xff, 0x7f],
                1 => &[0xff, 0xff, 0xff, 0xff, 0x0f],
                _ => &[0x80, 0x80, 0x80, 0x01],
            };
            let end = (i + 1).min(b.len());
            b.splice(i..end, pat.iter().copied());
            "huge size"
        }
        _ => {
            // LEB128 padding at a random byte: x -> (x|0x80) 0x00
            let i = g.index(b.len());
            if b[i] < 0x80 {
                b[i] |= 0x80;
                b.insert(i + 1, 0x00);
            } else {
                b.insert(i + 1, 0x80);
            }
            "pad leb128"
        }
    }
}

/// One mutation aimed at a structural site of a printed payload. Returns its label.
pub fn mutate_site(g: &mut Gen, fl: Flavour, b: &mut Vec<u8>, sites: &[Site]) -> &'static str {
    if sites.is_empty() {
        return mutate_bytes(g, b);
    }
    // prefer the rarer site kinds: pick a kind class first, then a site of that class
    let classes: Vec<fn(&SiteKind) -> bool> = vec![
        |k| matches!(k, SiteKind::Size(_)),
        |k| matches!(k, SiteKind::Kind),
        |k| matches!(k, SiteKind::Bool),
        |k| matches!(k, SiteKind::StrBody),
        |k| matches!(k, SiteKind::NfDisc | SiteKind::NfLen(_) | SiteKind::NfStr),
        |k| matches!(k, SiteKind::AddrDisc | SiteKind::AddrEntity | SiteKind::Expr),
        |k| matches!(k, SiteKind::Prefix),
        |k| matches!(k, SiteKind::EnumDisc),
    ];
    let mut avail: Vec<Vec<usize>> = Vec::new();
    for c in &classes {
        let v: Vec<usize> = sites.iter().enumerate().filter(|(_, s)| c(&s.what)).map(|(i, _)| i).collect();
        if !v.is_empty() {
            avail.push(v);
        }
    }
    // weights of the classes above, restricted to the available ones
    const WEIGHTS: [u32; 8] = [6, 4, 3, 3, 6, 4, 1, 1];
    let mut w: Vec<u32> = Vec::new();
    for (ci, c) in classes.iter().enumerate() {
        if sites.iter().any(|s| c(&s.what)) {
            w.push(WEIGHTS[ci]);
        }
    }
    let class = &avail[g.weighted(&w)];
    let s = sites[class[g.index(class.len())]];
    match s.what {
        SiteKind::Prefix => {
            b[s.off] = match g.below(3) {
                0 => Flavour::ALL[(Flavour::ALL.iter().position(|f| *f == fl).unwrap() + 1) % 3].prefix(),
                1 => Flavour::ALL[(Flavour::ALL.iter().position(|f| *f == fl).unwrap() + 2) % 3].prefix(),
                _ => g.u8(),
            };
            "wrong prefix"
        }
        SiteKind::Kind => {
            if g.bool() {
                b[s.off] = *g.pick(&[0x00u8, 0x0d, 0x1f, 0x24, 0x3f, 0x7f, 0x89, 0x91, 0xd0, 0xff]);
                "unknown kind"
            } else {
                b[s.off] = *g.pick(DICT);
                "other kind"
            }
        }
        SiteKind::Size(n) => match g.weighted(&[4, 2, 2, 2, 1]) {
            0 => {
                // non-minimal: same value with a redundant trailing zero group
                if s.len < 4 {
                    let last = s.off + s.len - 1;
                    b[last] |= 0x80;
                    b.insert(last + 1, 0x00);
                    "padded size"
                } else {
                    b.insert(s.off + s.len, 0x00);
                    b[s.off + s.len - 1] |= 0x80;
                    "5-byte size"
                }
            }
            1 => {
                // >= 2^28: five bytes
                b.splice(s.off..s.off + s.len, [0x80u8, 0x80, 0x80, 0x80, 0x01]);
                "size 2^28"
            }
            2 => {
                b.splice(s.off..s.off + s.len, [0xffu8, 0xff, 0xff, 0x7f]);
                "size 2^28-1 announced"
            }
            3 => {
                let mut v = Vec::new();
                write_size(&mut v, (n + 1).min(MAX_SIZE));
                b.splice(s.off..s.off + s.len, v);
                "size + 1"
            }
            _ => {
                let mut v = Vec::new();
                write_size(&mut v, n.saturating_sub(1));
                b.splice(s.off..s.off + s.len, v);
                "size - 1"
            }
        },
        SiteKind::Bool => {
            b[s.off] = *g.pick(&[2u8, 3, 0x80, 0xff, 0x10]);
            "bool not 0/1"
        }
        SiteKind::StrBody => {
            let i = s.off + g.index(s.len);
            b[i] = *g.pick(&[0xffu8, 0xc0, 0xe2, 0x80, 0xf8, 0xed]);
            "invalid utf-8"
        }
        SiteKind::NfDisc => {
            b[s.off] = *g.pick(&[4u8, 5, 0x80, 0xff]);
            "bad non-fungible id discriminator"
        }
        SiteKind::NfLen(n) => {
            // body of n bytes follows the length byte
            let body = s.off + 1..s.off + 1 + n;
            match g.below(3) {
                0 => {
                    b.splice(body, std::iter::repeat(b'a').take(65));
                    b[s.off] = 65;
                    "non-fungible id of 65 bytes"
                }
                1 => {
                    b.splice(body, std::iter::empty());
                    b[s.off] = 0;
                    "empty non-fungible id"
                }
                _ => {
                    b.splice(body, std::iter::repeat(b'b').take(64));
                    b[s.off] = 64;
                    "non-fungible id of 64 bytes"
                }
            }
        }
        SiteKind::NfStr => {
            let i = s.off + g.index(s.len);
            b[i] = *g.pick(&[b'-', b' ', b'$', 0x80, b'.', 0xc3, b'#', b'@']);
            "non-fungible string id bad character"
        }
        SiteKind::AddrDisc => {
            b[s.off] = *g.pick(&[2u8, 3, 0xff]);
            "bad address discriminator"
        }
        SiteKind::AddrEntity => {
            b[s.off] = *g.pick(&[0u8, 1, 0x0c, 0x0e, 0xff, 0x59, 0xc7]);
            "address with unknown entity type"
        }
        SiteKind::Expr => {
            b[s.off] = *g.pick(&[2u8, 3, 0xff]);
            "unknown expression"
        }
        SiteKind::EnumDisc => {
            b[s.off] = g.u8();
            "other enum discriminator"
        }
    }
}
