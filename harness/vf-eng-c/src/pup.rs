//! Helpers for writing puppet scripts: value templates, a slot-counting script builder, and the
//! conversion of a script into a manifest value (references become static addresses; marker
//! `Own`s become manifest buckets / proofs / address reservations).

use scrypto_test::prelude::*;
use vf_world::*;

pub type V = ScryptoValue;

pub fn v_u32(x: u32) -> V {
    Value::U32 { value: x }
}
pub fn v_str(s: &str) -> V {
    Value::String { value: s.to_string() }
}
pub fn v_own(slot: u8) -> V {
    Value::Custom { value: ScryptoCustomValue::Own(Own(placeholder(slot))) }
}
pub fn v_own_lit(n: NodeId) -> V {
    Value::Custom { value: ScryptoCustomValue::Own(Own(n)) }
}
pub fn v_ref(slot: u8) -> V {
    Value::Custom { value: ScryptoCustomValue::Reference(Reference(placeholder(slot))) }
}
pub fn v_ref_lit(n: NodeId) -> V {
    Value::Custom { value: ScryptoCustomValue::Reference(Reference(n)) }
}
pub fn v_tuple(fields: Vec<V>) -> V {
    Value::Tuple { fields }
}
pub fn v_unit() -> V {
    Value::Tuple { fields: vec![] }
}
pub fn enc(v: &V) -> Vec<u8> {
    scrypto_encode(v).unwrap()
}
pub fn enc_t<T: ScryptoEncode>(v: &T) -> Vec<u8> {
    scrypto_encode(v).unwrap()
}
/// Arguments of a puppet `run` / `act` / `peek` call.
pub fn script_args(s: &Script) -> Vec<u8> {
    scrypto_encode(&(s.clone(),)).unwrap()
}

pub const MARK: u8 = 0xEB;
/// Marker node id standing for a manifest bucket (kind 0), proof (1) or address reservation (2).
pub fn marker(kind: u8, id: u8) -> NodeId {
    let mut b = [0u8; NodeId::LENGTH];
    b[0] = MARK;
    b[1] = kind;
    b[2] = id;
    NodeId(b)
}

pub fn to_manifest_value(v: &V) -> ManifestValue {
    match v {
        Value::Bool { value } => Value::Bool { value: *value },
        Value::I8 { value } => Value::I8 { value: *value },
        Value::I16 { value } => Value::I16 { value: *value },
        Value::I32 { value } => Value::I32 { value: *value },
        Value::I64 { value } => Value::I64 { value: *value },
        Value::I128 { value } => Value::I128 { value: *value },
        Value::U8 { value } => Value::U8 { value: *value },
        Value::U16 { value } => Value::U16 { value: *value },
        Value::U32 { value } => Value::U32 { value: *value },
        Value::U64 { value } => Value::U64 { value: *value },
        Value::U128 { value } => Value::U128 { value: *value },
        Value::String { value } => Value::String { value: value.clone() },
        Value::Enum { discriminator, fields } => Value::Enum { discriminator: *discriminator, fields: fields.iter().map(to_manifest_value).collect() },
        Value::Tuple { fields } => Value::Tuple { fields: fields.iter().map(to_manifest_value).collect() },
        Value::Array { element_value_kind, elements } => {
            let els: Vec<ManifestValue> = elements.iter().map(to_manifest_value).collect();
            let kind = match element_value_kind {
                ValueKind::Custom(_) => els.first().map(mv_kind).unwrap_or(ValueKind::Custom(ManifestCustomValueKind::Address)),
                other => map_kind(*other),
            };
            Value::Array { element_value_kind: kind, elements: els }
        }
        Value::Map { key_value_kind, value_value_kind, entries } => {
            let es: Vec<(ManifestValue, ManifestValue)> = entries.iter().map(|(k, x)| (to_manifest_value(k), to_manifest_value(x))).collect();
            let kk = match key_value_kind {
                ValueKind::Custom(_) => es.first().map(|e| mv_kind(&e.0)).unwrap_or(ValueKind::Custom(ManifestCustomValueKind::Address)),
                other => map_kind(*other),
            };
            let vk = match value_value_kind {
                ValueKind::Custom(_) => es.first().map(|e| mv_kind(&e.1)).unwrap_or(ValueKind::Custom(ManifestCustomValueKind::Address)),
                other => map_kind(*other),
            };
            Value::Map { key_value_kind: kk, value_value_kind: vk, entries: es }
        }
        Value::Custom { value } => Value::Custom {
            value: match value {
                ScryptoCustomValue::Reference(r) => ManifestCustomValue::Address(ManifestAddress::Static(r.0)),
                ScryptoCustomValue::Own(o) => {
                    assert_eq!(o.0 .0[0], MARK, "only marker Own values can go into a manifest");
                    let id = o.0 .0[2] as u32;
                    match o.0 .0[1] {
                        0 => ManifestCustomValue::Bucket(ManifestBucket(id)),
                        1 => ManifestCustomValue::Proof(ManifestProof(id)),
                        _ => ManifestCustomValue::AddressReservation(ManifestAddressReservation(id)),
                    }
                }
                ScryptoCustomValue::Decimal(d) => ManifestCustomValue::Decimal(from_decimal(d)),
                ScryptoCustomValue::PreciseDecimal(d) => ManifestCustomValue::PreciseDecimal(from_precise_decimal(d)),
                ScryptoCustomValue::NonFungibleLocalId(i) => ManifestCustomValue::NonFungibleLocalId(from_non_fungible_local_id(i.clone())),
            },
        },
    }
}

fn mv_kind(v: &ManifestValue) -> ManifestValueKind {
    match v {
        Value::Bool { .. } => ValueKind::Bool,
        Value::I8 { .. } => ValueKind::I8,
        Value::I16 { .. } => ValueKind::I16,
        Value::I32 { .. } => ValueKind::I32,
        Value::I64 { .. } => ValueKind::I64,
        Value::I128 { .. } => ValueKind::I128,
        Value::U8 { .. } => ValueKind::U8,
        Value::U16 { .. } => ValueKind::U16,
        Value::U32 { .. } => ValueKind::U32,
        Value::U64 { .. } => ValueKind::U64,
        Value::U128 { .. } => ValueKind::U128,
        Value::String { .. } => ValueKind::String,
        Value::Enum { .. } => ValueKind::Enum,
        Value::Array { .. } => ValueKind::Array,
        Value::Tuple { .. } => ValueKind::Tuple,
        Value::Map { .. } => ValueKind::Map,
        Value::Custom { value } => ValueKind::Custom(match value {
            ManifestCustomValue::Address(_) => ManifestCustomValueKind::Address,
            ManifestCustomValue::Bucket(_) => ManifestCustomValueKind::Bucket,
            ManifestCustomValue::Proof(_) => ManifestCustomValueKind::Proof,
            ManifestCustomValue::Expression(_) => ManifestCustomValueKind::Expression,
            ManifestCustomValue::Blob(_) => ManifestCustomValueKind::Blob,
            ManifestCustomValue::Decimal(_) => ManifestCustomValueKind::Decimal,
            ManifestCustomValue::PreciseDecimal(_) => ManifestCustomValueKind::PreciseDecimal,
            ManifestCustomValue::NonFungibleLocalId(_) => ManifestCustomValueKind::NonFungibleLocalId,
            ManifestCustomValue::AddressReservation(_) => ManifestCustomValueKind::AddressReservation,
        }),
    }
}

fn map_kind(k: ScryptoValueKind) -> ManifestValueKind {
    match k {
        ValueKind::Bool => ValueKind::Bool,
        ValueKind::I8 => ValueKind::I8,
        ValueKind::I16 => ValueKind::I16,
        ValueKind::I32 => ValueKind::I32,
        ValueKind::I64 => ValueKind::I64,
        ValueKind::I128 => ValueKind::I128,
        ValueKind::U8 => ValueKind::U8,
        ValueKind::U16 => ValueKind::U16,
        ValueKind::U32 => ValueKind::U32,
        ValueKind::U64 => ValueKind::U64,
        ValueKind::U128 => ValueKind::U128,
        ValueKind::String => ValueKind::String,
        ValueKind::Enum => ValueKind::Enum,
        ValueKind::Array => ValueKind::Array,
        ValueKind::Tuple => ValueKind::Tuple,
        ValueKind::Map => ValueKind::Map,
        ValueKind::Custom(c) => ValueKind::Custom(match c {
            ScryptoCustomValueKind::Reference => ManifestCustomValueKind::Address,
            ScryptoCustomValueKind::Own => ManifestCustomValueKind::Bucket,
            ScryptoCustomValueKind::Decimal => ManifestCustomValueKind::Decimal,
            ScryptoCustomValueKind::PreciseDecimal => ManifestCustomValueKind::PreciseDecimal,
            ScryptoCustomValueKind::NonFungibleLocalId => ManifestCustomValueKind::NonFungibleLocalId,
        }),
    }
}

/// `(script,)` as manifest arguments.
pub fn script_manifest_args(s: &Script) -> ManifestValue {
    let bytes = scrypto_encode(&(s.clone(),)).unwrap();
    let v: V = scrypto_decode(&bytes).unwrap();
    to_manifest_value(&v)
}

/// Script builder that keeps count of the slots.
#[derive(Clone, Default)]
pub struct B {
    pub ops: Vec<Op>,
    pub n: u8,
}

impl B {
    pub fn new() -> B {
        B::default()
    }
    /// Append an op producing `k` slots; returns the index of its first slot.
    pub fn op(&mut self, op: Op, k: u8) -> u8 {
        let s = self.n;
        self.ops.push(op);
        self.n = self.n.saturating_add(k);
        s
    }
    pub fn import_refs(&mut self, refs: &[NodeId]) -> u8 {
        let v = v_tuple(refs.iter().map(|n| v_ref_lit(*n)).collect());
        self.op(Op::Import(v), refs.len() as u8)
    }
    pub fn log(&mut self, msg: &str) {
        self.op(Op::Log { level: 2, message: msg.to_string() }, 1);
    }
    pub fn script(&self) -> Script {
        Script(self.ops.clone())
    }
}

pub fn logs_contain(run: &Run, msg: &str) -> bool {
    run.commit().map(|c| c.application_logs.iter().any(|(_, m)| m == msg)).unwrap_or(false)
}

pub fn render_ops(ops: &[Op]) -> String {
    fn one(op: &Op, out: &mut String, depth: usize) {
        let pad = "  ".repeat(depth);
        match op {
            Op::CallMethod { receiver, method, args } if method == PUPPET_ACT || method == PUPPET_PEEK => match scrypto_decode::<(Script,)>(args) {
                Ok((s,)) => {
                    out.push_str(&format!("{}CallMethod {:?}.{} [\n", pad, short_n(receiver), method));
                    for o in &s.0 {
                        one(o, out, depth + 1);
                    }
                    out.push_str(&format!("{}]\n", pad));
                }
                Err(_) => out.push_str(&format!("{}CallMethod {:?}.{} <{} bytes>\n", pad, short_n(receiver), method, args.len())),
            },
            Op::CallFunction { package, blueprint, function, args } if function == PUPPET_RUN => match scrypto_decode::<(Script,)>(args) {
                Ok((s,)) => {
                    out.push_str(&format!("{}CallFunction {}:{}.{} [\n", pad, hex::encode(&package.as_node_id().0[26..]), blueprint, function));
                    for o in &s.0 {
                        one(o, out, depth + 1);
                    }
                    out.push_str(&format!("{}]\n", pad));
                }
                Err(_) => out.push_str(&format!("{}CallFunction {}.{} <{} bytes>\n", pad, blueprint, function, args.len())),
            },
            Op::Import(v) => {
                let mut nodes = Vec::new();
                collect_nodes(v, &mut nodes);
                let names: Vec<String> = nodes.iter().map(|n| format!("{}…{}", hex::encode(&n.0[..1]), hex::encode(&n.0[27..]))).collect();
                out.push_str(&format!("{}Import [{}]\n", pad, names.join(", ")));
            }
            other => {
                let mut t = format!("{:?}", other);
                if t.len() > 260 {
                    t.truncate(260);
                    t.push('…');
                }
                out.push_str(&format!("{}{}\n", pad, t));
            }
        }
    }
    fn short_n(n: &N) -> String {
        match n {
            N::Slot(i) => format!("slot{}", i),
            N::Lit(id) => format!("{}…{}", hex::encode(&id.0[..1]), hex::encode(&id.0[26..])),
        }
    }
    let mut out = String::new();
    for o in ops {
        one(o, &mut out, 0);
    }
    out
}
