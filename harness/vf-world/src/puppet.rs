//! The puppet package: a native test blueprint installed through the repository's own
//! `NativeVmExtension` trait. Its functions take a *script* (SBOR-encoded list of `Op`s) and
//! interpret it against `SystemApi` ONLY (never the kernel API the instance also receives — real
//! blueprints cannot reach that). It lets a check express "blueprint code of package P does X".
//!
//! Slots: every op that produces something pushes one or more slots; later ops refer to slots by
//! index. In `template` payloads (SBOR-encoded Scrypto values) an `Own`/`Reference` whose node id is
//! `[0xEE, slot, 0, ...]` is substituted by the node id held in that slot.

use radix_common::prelude::*;
use radix_blueprint_schema_init::*;
use sbor::basic_well_known_types::ANY_TYPE;
use radix_engine::errors::RuntimeError;
use radix_engine::kernel::kernel_api::{KernelNodeApi, KernelSubstateApi};
use radix_engine::system::system_callback::SystemLockData;
use radix_engine::vm::{NativeVmExtension, VmApi, VmInvoke};
use radix_engine_interface::api::key_value_store_api::KeyValueStoreDataSchema;
use radix_engine_interface::api::*;
use radix_engine_interface::blueprints::package::*;
use radix_engine_interface::prelude::*;
use radix_native_sdk::modules::metadata::Metadata;
use radix_native_sdk::modules::role_assignment::RoleAssignment;
use radix_native_sdk::modules::royalty::ComponentRoyalty;

pub const PUPPET_CODE_P: u64 = 0x7075_7070_6574_0001;
pub const PUPPET_CODE_Q: u64 = 0x7075_7070_6574_0002;
pub const PUPPET_CODE_MIN: u64 = 0x7075_7070_6574_0000;
pub const PUPPET_CODE_MAX: u64 = 0x7075_7070_6574_00ff;

pub const PUPPET_BLUEPRINT: &str = "Puppet";
pub const PUPPET_INNER_BLUEPRINT: &str = "PuppetInner";
/// function: run(script) — no receiver
pub const PUPPET_RUN: &str = "run";
/// method (&mut self): act(script)
pub const PUPPET_ACT: &str = "act";
/// method (&self): peek(script)
pub const PUPPET_PEEK: &str = "peek";
/// function: recurse(n, script): calls itself n more times, then runs the script
pub const PUPPET_RECURSE: &str = "recurse";

/// Number of fields of the Puppet blueprint (all of type Any).
pub const PUPPET_FIELDS: u8 = 3;
/// Collection indices of the Puppet blueprint.
pub const PUPPET_COLL_KV: u8 = 0;
pub const PUPPET_COLL_INDEX: u8 = 1;
pub const PUPPET_COLL_SORTED: u8 = 2;

pub fn placeholder(slot: u8) -> NodeId {
    let mut b = [0u8; NodeId::LENGTH];
    b[0] = 0xEE;
    b[1] = slot;
    NodeId(b)
}
fn placeholder_slot(n: &NodeId) -> Option<u8> {
    if n.0[0] == 0xEE && n.0[2..].iter().all(|b| *b == 0) {
        Some(n.0[1])
    } else {
        None
    }
}

/// Where a node id comes from: a slot or a literal.
#[derive(ScryptoSbor, Clone, Debug, PartialEq, Eq)]
pub enum N {
    Slot(u8),
    Lit(NodeId),
}

#[derive(ScryptoSbor, Clone, Debug, PartialEq, Eq)]
pub enum OwnerSpec {
    None,
    Fixed(AccessRule),
    Updatable(AccessRule),
}

#[derive(ScryptoSbor, Clone, Debug, PartialEq, Eq)]
pub enum Op {
    // ---- objects ----
    /// new_object(blueprint, fields: [(index, template payload, locked)], kv: [(collection, key payload, value template, locked)]) → Node
    NewObject { blueprint: String, fields: Vec<(u8, Vec<u8>, bool)>, kv: Vec<(u8, Vec<u8>, Vec<u8>, bool)> },
    DropObject(N),
    /// allocate_global_address → two slots: reservation Node, address Node
    AllocateAddress { package: PackageAddress, blueprint: String },
    GetReservationAddress(N),
    /// globalize with fresh RoleAssignment (owner as given, no roles) + Metadata (+ royalty) modules → Node (global address)
    Globalize { object: N, owner: OwnerSpec, reservation: Option<N>, with_royalty: bool },
    /// globalize passing the given nodes as the modules (to try foreign / wrong modules)
    GlobalizeWithModules { object: N, role_assignment: N, metadata: N, reservation: Option<N> },
    GetBlueprintId(N),
    GetOuterObject(N),
    // ---- key value stores ----
    KvStoreNew { allow_ownership: bool },
    KvOpen { store: N, key: Vec<u8>, mutable: bool },
    KvGet(u8),
    KvSet(u8, Vec<u8>),
    KvRemove(u8),
    KvLock(u8),
    KvClose(u8),
    KvStoreRemove { store: N, key: Vec<u8> },
    // ---- actor state ----
    ActorOpenField { state: u32, field: u8, flags: u32 },
    FieldRead(u8),
    FieldWrite(u8, Vec<u8>),
    FieldLock(u8),
    FieldClose(u8),
    ActorOpenKv { state: u32, collection: u8, key: Vec<u8>, flags: u32 },
    ActorRemoveKv { state: u32, collection: u8, key: Vec<u8> },
    ActorIndexInsert { state: u32, collection: u8, key: Vec<u8>, value: Vec<u8> },
    ActorIndexRemove { state: u32, collection: u8, key: Vec<u8> },
    ActorIndexScanKeys { state: u32, collection: u8, limit: u32 },
    ActorIndexDrain { state: u32, collection: u8, limit: u32 },
    ActorSortedInsert { state: u32, collection: u8, sort: u16, key: Vec<u8>, value: Vec<u8> },
    ActorSortedRemove { state: u32, collection: u8, sort: u16, key: Vec<u8> },
    ActorSortedScan { state: u32, collection: u8, limit: u32 },
    ActorGetNodeId(u32),
    ActorGetBlueprintId,
    ActorEmitEvent { name: String, data: Vec<u8>, force_write: bool },
    // ---- calls ----
    /// → Bytes(return payload) followed by one Node slot per Own/Reference found in it (traversal order)
    CallMethod { receiver: N, method: String, args: Vec<u8> },
    CallModuleMethod { receiver: N, module: u8, method: String, args: Vec<u8> },
    CallDirect { receiver: N, method: String, args: Vec<u8> },
    CallFunction { package: PackageAddress, blueprint: String, function: String, args: Vec<u8> },
    // ---- runtime ----
    Log { level: u8, message: String },
    Panic(String),
    GenerateRuid,
    GetTransactionHash,
    Repeat { times: u32, ops: Vec<Op> },
    /// End the script returning this template (default return: the encoded list of slots)
    Return(Vec<u8>),
    // ---- appended (vf-eng-c) ----
    /// Carries nodes INTO a script: every `Own` / `Reference` found in the value (traversal order)
    /// is pushed as a Node slot. Because the value is part of the invocation payload, owned nodes
    /// in it are moved into the callee's frame and references become visible there. In the
    /// caller's `CallMethod`/`CallFunction` args the nodes may be written as `placeholder(slot)`.
    Import(ScryptoValue),
    /// Push a raw handle number as a Handle slot (to use a handle number obtained elsewhere).
    RawHandle(u32),
    // ---- appended (vf-eng-e) ----
    /// End the script tidily: every node held in a slot that this frame can still see and that is
    /// a proof is dropped (errors ignored), then every such node that is a bucket is returned as
    /// `Vec<Own>` (so that nothing dangles when calls returned buckets / proofs the script could
    /// not name in advance). Uses `get_blueprint_id` / `call_function` only.
    ReturnLive,
}

#[derive(ScryptoSbor, Clone, Debug, PartialEq, Eq)]
pub enum Slot {
    Unit,
    Node(Reference),
    Handle(u32),
    Bytes(Vec<u8>),
}

#[derive(ScryptoSbor, Clone, Debug, PartialEq, Eq)]
pub struct Script(pub Vec<Op>);

impl Script {
    pub fn encode(&self) -> Vec<u8> {
        scrypto_encode(self).unwrap()
    }
}

#[derive(Clone, Default)]
pub struct PuppetExtension;

#[derive(Clone, Default)]
pub struct PuppetInvoke;

impl NativeVmExtension for PuppetExtension {
    type Instance = PuppetInvoke;
    fn try_create_instance(&self, code: &[u8]) -> Option<PuppetInvoke> {
        let code: [u8; 8] = code.try_into().ok()?;
        let id = u64::from_be_bytes(code);
        if (PUPPET_CODE_MIN..=PUPPET_CODE_MAX).contains(&id) {
            Some(PuppetInvoke)
        } else {
            None
        }
    }
}

fn sys_err(msg: String) -> RuntimeError {
    RuntimeError::SystemError(radix_engine::errors::SystemError::InvalidFeature(msg))
}

struct Machine {
    slots: Vec<Slot>,
}

impl Machine {
    fn node(&self, n: &N) -> Result<NodeId, RuntimeError> {
        match n {
            N::Lit(id) => Ok(*id),
            N::Slot(i) => match self.slots.get(*i as usize) {
                Some(Slot::Node(r)) => Ok(r.0),
                other => Err(sys_err(format!("puppet: slot {} is not a node: {:?}", i, other))),
            },
        }
    }
    fn handle(&self, i: u8) -> Result<u32, RuntimeError> {
        match self.slots.get(i as usize) {
            Some(Slot::Handle(h)) => Ok(*h),
            other => Err(sys_err(format!("puppet: slot {} is not a handle: {:?}", i, other))),
        }
    }
    fn subst_value(&self, v: &mut ScryptoValue) -> Result<(), RuntimeError> {
        match v {
            Value::Custom { value } => match value {
                ScryptoCustomValue::Own(o) => {
                    if let Some(s) = placeholder_slot(&o.0) {
                        o.0 = self.node(&N::Slot(s))?;
                    }
                }
                ScryptoCustomValue::Reference(r) => {
                    if let Some(s) = placeholder_slot(&r.0) {
                        r.0 = self.node(&N::Slot(s))?;
                    }
                }
                _ => {}
            },
            Value::Tuple { fields } => {
                for f in fields {
                    self.subst_value(f)?;
                }
            }
            Value::Enum { fields, .. } => {
                for f in fields {
                    self.subst_value(f)?;
                }
            }
            Value::Array { elements, .. } => {
                for f in elements {
                    self.subst_value(f)?;
                }
            }
            Value::Map { entries, .. } => {
                for (k, val) in entries {
                    self.subst_value(k)?;
                    self.subst_value(val)?;
                }
            }
            _ => {}
        }
        Ok(())
    }
    /// Substitute placeholders in an encoded template; payloads that do not decode are passed through
    /// untouched (so that checks can hand over deliberately malformed bytes).
    fn subst(&self, template: &[u8]) -> Result<Vec<u8>, RuntimeError> {
        match scrypto_decode::<ScryptoValue>(template) {
            Ok(mut v) => {
                self.subst_value(&mut v)?;
                Ok(scrypto_encode(&v).unwrap_or_else(|_| template.to_vec()))
            }
            Err(_) => Ok(template.to_vec()),
        }
    }
    fn push_call_result(&mut self, rtn: Vec<u8>) {
        let nodes: Vec<NodeId> = match scrypto_decode::<ScryptoValue>(&rtn) {
            Ok(v) => {
                let mut out = Vec::new();
                collect_nodes(&v, &mut out);
                out
            }
            Err(_) => vec![],
        };
        self.slots.push(Slot::Bytes(rtn));
        for n in nodes {
            self.slots.push(Slot::Node(Reference(n)));
        }
    }
}

pub fn collect_nodes(v: &ScryptoValue, out: &mut Vec<NodeId>) {
    match v {
        Value::Custom { value } => match value {
            ScryptoCustomValue::Own(o) => out.push(o.0),
            ScryptoCustomValue::Reference(r) => out.push(r.0),
            _ => {}
        },
        Value::Tuple { fields } | Value::Enum { fields, .. } => fields.iter().for_each(|f| collect_nodes(f, out)),
        Value::Array { elements, .. } => elements.iter().for_each(|f| collect_nodes(f, out)),
        Value::Map { entries, .. } => entries.iter().for_each(|(k, x)| {
            collect_nodes(k, out);
            collect_nodes(x, out)
        }),
        _ => {}
    }
}

enum Flow {
    Continue,
    Return(Vec<u8>),
}

fn run_ops<Y: SystemApi<RuntimeError>>(m: &mut Machine, ops: &[Op], api: &mut Y) -> Result<Flow, RuntimeError> {
    for op in ops {
        match op {
            Op::NewObject { blueprint, fields, kv } => {
                let mut f = IndexMap::new();
                for (i, tpl, locked) in fields {
                    f.insert(*i, FieldValue { value: m.subst(tpl)?, locked: *locked });
                }
                let mut k: IndexMap<u8, IndexMap<Vec<u8>, KVEntry>> = IndexMap::new();
                for (c, key, val, locked) in kv {
                    k.entry(*c).or_default().insert(key.clone(), KVEntry { value: Some(m.subst(val)?), locked: *locked });
                }
                let id = api.new_object(blueprint, vec![], GenericArgs::default(), f, k)?;
                m.slots.push(Slot::Node(Reference(id)));
            }
            Op::DropObject(n) => {
                let id = m.node(n)?;
                let fields = api.drop_object(&id)?;
                m.slots.push(Slot::Bytes(scrypto_encode(&fields).unwrap()));
            }
            Op::AllocateAddress { package, blueprint } => {
                let (res, addr) = api.allocate_global_address(BlueprintId::new(package, blueprint.as_str()))?;
                m.slots.push(Slot::Node(Reference(res.0 .0)));
                m.slots.push(Slot::Node(Reference(addr.into_node_id())));
            }
            Op::GetReservationAddress(n) => {
                let id = m.node(n)?;
                let a = api.get_reservation_address(&id)?;
                m.slots.push(Slot::Node(Reference(a.into_node_id())));
            }
            Op::Globalize { object, owner, reservation, with_royalty } => {
                let id = m.node(object)?;
                let owner_role = match owner {
                    OwnerSpec::None => OwnerRole::None,
                    OwnerSpec::Fixed(r) => OwnerRole::Fixed(r.clone()),
                    OwnerSpec::Updatable(r) => OwnerRole::Updatable(r.clone()),
                };
                let ra = RoleAssignment::create(owner_role, indexmap!(), api)?;
                let md = Metadata::create(api)?;
                let mut modules = indexmap!(
                    AttachedModuleId::RoleAssignment => ra.0 .0,
                    AttachedModuleId::Metadata => md.0,
                );
                if *with_royalty {
                    let ro = ComponentRoyalty::create(ComponentRoyaltyConfig::default(), api)?;
                    modules.insert(AttachedModuleId::Royalty, ro.0);
                }
                let res = match reservation {
                    Some(r) => Some(GlobalAddressReservation(Own(m.node(r)?))),
                    None => None,
                };
                let addr = api.globalize(id, modules, res)?;
                m.slots.push(Slot::Node(Reference(addr.into_node_id())));
            }
            Op::GlobalizeWithModules { object, role_assignment, metadata, reservation } => {
                let id = m.node(object)?;
                let modules = indexmap!(
                    AttachedModuleId::RoleAssignment => m.node(role_assignment)?,
                    AttachedModuleId::Metadata => m.node(metadata)?,
                );
                let res = match reservation {
                    Some(r) => Some(GlobalAddressReservation(Own(m.node(r)?))),
                    None => None,
                };
                let addr = api.globalize(id, modules, res)?;
                m.slots.push(Slot::Node(Reference(addr.into_node_id())));
            }
            Op::GetBlueprintId(n) => {
                let id = m.node(n)?;
                let b = api.get_blueprint_id(&id)?;
                m.slots.push(Slot::Bytes(scrypto_encode(&b).unwrap()));
            }
            Op::GetOuterObject(n) => {
                let id = m.node(n)?;
                let a = api.get_outer_object(&id)?;
                m.slots.push(Slot::Node(Reference(a.into_node_id())));
            }
            Op::KvStoreNew { allow_ownership } => {
                let id = api.key_value_store_new(KeyValueStoreDataSchema::new_local_without_self_package_replacement::<
                    ScryptoValue,
                    ScryptoValue,
                >(*allow_ownership))?;
                m.slots.push(Slot::Node(Reference(id)));
            }
            Op::KvOpen { store, key, mutable } => {
                let id = m.node(store)?;
                let flags = if *mutable { LockFlags::MUTABLE } else { LockFlags::read_only() };
                let h = api.key_value_store_open_entry(&id, key, flags)?;
                m.slots.push(Slot::Handle(h));
            }
            Op::KvGet(h) => {
                let v = api.key_value_entry_get(m.handle(*h)?)?;
                m.slots.push(Slot::Bytes(v));
            }
            Op::KvSet(h, tpl) => {
                let v = m.subst(tpl)?;
                api.key_value_entry_set(m.handle(*h)?, v)?;
                m.slots.push(Slot::Unit);
            }
            Op::KvRemove(h) => {
                let v = api.key_value_entry_remove(m.handle(*h)?)?;
                m.slots.push(Slot::Bytes(v));
            }
            Op::KvLock(h) => {
                api.key_value_entry_lock(m.handle(*h)?)?;
                m.slots.push(Slot::Unit);
            }
            Op::KvClose(h) => {
                api.key_value_entry_close(m.handle(*h)?)?;
                m.slots.push(Slot::Unit);
            }
            Op::KvStoreRemove { store, key } => {
                let id = m.node(store)?;
                let v = api.key_value_store_remove_entry(&id, key)?;
                m.slots.push(Slot::Bytes(v));
            }
            Op::ActorOpenField { state, field, flags } => {
                let h = api.actor_open_field(*state, *field, LockFlags::from_bits_truncate(*flags))?;
                m.slots.push(Slot::Handle(h));
            }
            Op::FieldRead(h) => {
                let v = api.field_read(m.handle(*h)?)?;
                m.slots.push(Slot::Bytes(v));
            }
            Op::FieldWrite(h, tpl) => {
                let v = m.subst(tpl)?;
                api.field_write(m.handle(*h)?, v)?;
                m.slots.push(Slot::Unit);
            }
            Op::FieldLock(h) => {
                api.field_lock(m.handle(*h)?)?;
                m.slots.push(Slot::Unit);
            }
            Op::FieldClose(h) => {
                api.field_close(m.handle(*h)?)?;
                m.slots.push(Slot::Unit);
            }
            Op::ActorOpenKv { state, collection, key, flags } => {
                let h = api.actor_open_key_value_entry(*state, *collection, key, LockFlags::from_bits_truncate(*flags))?;
                m.slots.push(Slot::Handle(h));
            }
            Op::ActorRemoveKv { state, collection, key } => {
                let v = api.actor_remove_key_value_entry(*state, *collection, key)?;
                m.slots.push(Slot::Bytes(v));
            }
            Op::ActorIndexInsert { state, collection, key, value } => {
                let v = m.subst(value)?;
                api.actor_index_insert(*state, *collection, key.clone(), v)?;
                m.slots.push(Slot::Unit);
            }
            Op::ActorIndexRemove { state, collection, key } => {
                let v = api.actor_index_remove(*state, *collection, key.clone())?;
                m.slots.push(Slot::Bytes(scrypto_encode(&v).unwrap()));
            }
            Op::ActorIndexScanKeys { state, collection, limit } => {
                let v = api.actor_index_scan_keys(*state, *collection, *limit)?;
                m.slots.push(Slot::Bytes(scrypto_encode(&v).unwrap()));
            }
            Op::ActorIndexDrain { state, collection, limit } => {
                let v = api.actor_index_drain(*state, *collection, *limit)?;
                m.slots.push(Slot::Bytes(scrypto_encode(&v).unwrap()));
            }
            Op::ActorSortedInsert { state, collection, sort, key, value } => {
                let v = m.subst(value)?;
                api.actor_sorted_index_insert(*state, *collection, (sort.to_be_bytes(), key.clone()), v)?;
                m.slots.push(Slot::Unit);
            }
            Op::ActorSortedRemove { state, collection, sort, key } => {
                let v = api.actor_sorted_index_remove(*state, *collection, &(sort.to_be_bytes(), key.clone()))?;
                m.slots.push(Slot::Bytes(scrypto_encode(&v).unwrap()));
            }
            Op::ActorSortedScan { state, collection, limit } => {
                let v = api.actor_sorted_index_scan(*state, *collection, *limit)?;
                m.slots.push(Slot::Bytes(scrypto_encode(&v).unwrap()));
            }
            Op::ActorGetNodeId(r) => {
                let id = api.actor_get_node_id(*r)?;
                m.slots.push(Slot::Node(Reference(id)));
            }
            Op::ActorGetBlueprintId => {
                let b = api.actor_get_blueprint_id()?;
                m.slots.push(Slot::Bytes(scrypto_encode(&b).unwrap()));
            }
            Op::ActorEmitEvent { name, data, force_write } => {
                let flags = if *force_write { EventFlags::FORCE_WRITE } else { EventFlags::empty() };
                api.actor_emit_event(name.clone(), data.clone(), flags)?;
                m.slots.push(Slot::Unit);
            }
            Op::CallMethod { receiver, method, args } => {
                let id = m.node(receiver)?;
                let a = m.subst(args)?;
                let rtn = api.call_method(&id, method, a)?;
                m.push_call_result(rtn);
            }
            Op::CallModuleMethod { receiver, module, method, args } => {
                let id = m.node(receiver)?;
                let a = m.subst(args)?;
                let module = match module {
                    1 => AttachedModuleId::Metadata,
                    2 => AttachedModuleId::Royalty,
                    _ => AttachedModuleId::RoleAssignment,
                };
                let rtn = api.call_module_method(&id, module, method, a)?;
                m.push_call_result(rtn);
            }
            Op::CallDirect { receiver, method, args } => {
                let id = m.node(receiver)?;
                let a = m.subst(args)?;
                let rtn = api.call_direct_access_method(&id, method, a)?;
                m.push_call_result(rtn);
            }
            Op::CallFunction { package, blueprint, function, args } => {
                let a = m.subst(args)?;
                let rtn = api.call_function(*package, blueprint, function, a)?;
                m.push_call_result(rtn);
            }
            Op::Log { level, message } => {
                let level = match level {
                    0 => Level::Error,
                    1 => Level::Warn,
                    2 => Level::Info,
                    3 => Level::Debug,
                    _ => Level::Trace,
                };
                api.emit_log(level, message.clone())?;
                m.slots.push(Slot::Unit);
            }
            Op::Panic(msg) => {
                api.panic(msg.clone())?;
                m.slots.push(Slot::Unit);
            }
            Op::GenerateRuid => {
                let r = api.generate_ruid()?;
                m.slots.push(Slot::Bytes(r.to_vec()));
            }
            Op::GetTransactionHash => {
                let h = api.get_transaction_hash()?;
                m.slots.push(Slot::Bytes(h.to_vec()));
            }
            Op::Repeat { times, ops } => {
                for _ in 0..*times {
                    if let Flow::Return(r) = run_ops(m, ops, api)? {
                        return Ok(Flow::Return(r));
                    }
                }
            }
            Op::Return(tpl) => {
                return Ok(Flow::Return(m.subst(tpl)?));
            }
            Op::Import(v) => {
                let mut nodes = Vec::new();
                collect_nodes(v, &mut nodes);
                for n in nodes {
                    m.slots.push(Slot::Node(Reference(n)));
                }
            }
            Op::RawHandle(h) => {
                m.slots.push(Slot::Handle(*h));
            }
            Op::ReturnLive => {
                let mut seen: Vec<NodeId> = Vec::new();
                for s in &m.slots {
                    if let Slot::Node(r) = s {
                        if !r.0.is_global() && !seen.contains(&r.0) {
                            seen.push(r.0);
                        }
                    }
                }
                let mut live: Vec<(NodeId, String)> = Vec::new();
                for id in seen {
                    if let Ok(bp) = api.get_blueprint_id(&id) {
                        if bp.package_address == RESOURCE_PACKAGE {
                            live.push((id, bp.blueprint_name));
                        }
                    }
                }
                for (id, bp) in &live {
                    if bp == FUNGIBLE_PROOF_BLUEPRINT || bp == NON_FUNGIBLE_PROOF_BLUEPRINT {
                        let _ = api.call_function(RESOURCE_PACKAGE, bp, PROOF_DROP_IDENT, scrypto_encode(&(Own(*id),)).unwrap());
                    }
                }
                let owns: Vec<Own> = live.iter().filter(|(_, bp)| bp == FUNGIBLE_BUCKET_BLUEPRINT || bp == NON_FUNGIBLE_BUCKET_BLUEPRINT).map(|(id, _)| Own(*id)).collect();
                return Ok(Flow::Return(scrypto_encode(&owns).unwrap()));
            }
        }
    }
    Ok(Flow::Continue)
}

impl VmInvoke for PuppetInvoke {
    fn invoke<Y: SystemApi<RuntimeError> + KernelNodeApi + KernelSubstateApi<SystemLockData>, V: VmApi>(
        &mut self,
        export_name: &str,
        input: &IndexedScryptoValue,
        api: &mut Y,
        _vm_api: &V,
    ) -> Result<IndexedScryptoValue, RuntimeError> {
        let (script, remaining): (Script, u32) = match export_name {
            PUPPET_RECURSE => {
                let (n, s): (u32, Script) = input
                    .as_typed()
                    .map_err(|e| sys_err(format!("puppet: bad recurse input: {:?}", e)))?;
                (s, n)
            }
            _ => {
                let (s,): (Script,) =
                    input.as_typed().map_err(|e| sys_err(format!("puppet: bad script input: {:?}", e)))?;
                (s, 0)
            }
        };
        if remaining > 0 {
            let me = api.actor_get_blueprint_id()?;
            let rtn = api.call_function(
                me.package_address,
                &me.blueprint_name,
                PUPPET_RECURSE,
                scrypto_encode(&(remaining - 1, script)).unwrap(),
            )?;
            return Ok(IndexedScryptoValue::from_vec(rtn).map_err(|e| sys_err(format!("puppet: {:?}", e)))?);
        }
        let mut m = Machine { slots: Vec::new() };
        let out = match run_ops(&mut m, &script.0, api)? {
            Flow::Return(bytes) => bytes,
            Flow::Continue => {
                // default: render slots, dropping nothing: node slots are returned as *references*, which is
                // only valid for global nodes; so render node ids as raw bytes instead
                let rendered: Vec<Slot> = m
                    .slots
                    .iter()
                    .map(|s| match s {
                        Slot::Node(r) => Slot::Bytes(r.0 .0.to_vec()),
                        other => other.clone(),
                    })
                    .collect();
                scrypto_encode(&rendered).unwrap()
            }
        };
        IndexedScryptoValue::from_vec(out).map_err(|e| sys_err(format!("puppet: bad return payload: {:?}", e)))
    }
}

fn any_fn(receiver: Option<ReceiverInfo>, export: &str) -> FunctionSchemaInit {
    FunctionSchemaInit {
        receiver,
        input: TypeRef::Static(LocalTypeId::WellKnown(ANY_TYPE)),
        output: TypeRef::Static(LocalTypeId::WellKnown(ANY_TYPE)),
        export: export.to_string(),
    }
}

fn any_kv(allow_ownership: bool) -> BlueprintKeyValueSchema<TypeRef<LocalTypeId>> {
    BlueprintKeyValueSchema {
        key: TypeRef::Static(LocalTypeId::WellKnown(ANY_TYPE)),
        value: TypeRef::Static(LocalTypeId::WellKnown(ANY_TYPE)),
        allow_ownership,
    }
}

/// Events the puppet blueprints declare: tuple structs over a byte vector, so that a script can
/// emit events of any size (`PuppetEvent::encode("E1", bytes)` gives the event data).
#[derive(ScryptoSbor, Clone, Debug, PartialEq, Eq)]
pub struct E0(pub Vec<u8>);
#[derive(ScryptoSbor, Clone, Debug, PartialEq, Eq)]
pub struct E1(pub Vec<u8>);
#[derive(ScryptoSbor, Clone, Debug, PartialEq, Eq)]
pub struct E2(pub Vec<u8>);

pub const PUPPET_EVENTS: [&str; 3] = ["E0", "E1", "E2"];

/// Event data for any of the puppet events carrying `bytes`.
pub fn puppet_event_data(bytes: Vec<u8>) -> Vec<u8> {
    scrypto_encode(&E0(bytes)).unwrap()
}

fn puppet_events_and_schema() -> (BlueprintEventSchemaInit, VersionedScryptoSchema) {
    let mut agg = TypeAggregator::<ScryptoCustomTypeKind>::new();
    let ids = [
        agg.add_child_type_and_descendents::<E0>(),
        agg.add_child_type_and_descendents::<E1>(),
        agg.add_child_type_and_descendents::<E2>(),
    ];
    let schema = generate_full_schema(agg);
    let events = BlueprintEventSchemaInit {
        event_schema: PUPPET_EVENTS.iter().zip(ids).map(|(n, id)| (n.to_string(), TypeRef::Static(id))).collect(),
    };
    (events, schema)
}

/// Customisation of the puppet package's auth configuration.
#[derive(Clone, Debug)]
pub struct PuppetAuth {
    pub function_auth: FunctionAuth,
    pub method_auth: MethodAuthTemplate,
}

impl Default for PuppetAuth {
    fn default() -> Self {
        PuppetAuth { function_auth: FunctionAuth::AllowAll, method_auth: MethodAuthTemplate::AllowAll }
    }
}

/// The puppet package: blueprint `Puppet` (3 Any fields; KV, index and sorted-index collections;
/// functions run/recurse; methods act (&mut) / peek (&)) and its inner blueprint `PuppetInner`
/// (1 Any field; methods act / peek).
pub fn puppet_definition(auth: PuppetAuth) -> PackageDefinition {
    let mut blueprints = index_map_new();
    let functions = |with_statics: bool| {
        let mut f = index_map_new();
        if with_statics {
            f.insert(PUPPET_RUN.to_string(), any_fn(None, PUPPET_RUN));
            f.insert(PUPPET_RECURSE.to_string(), any_fn(None, PUPPET_RECURSE));
        }
        f.insert(PUPPET_ACT.to_string(), any_fn(Some(ReceiverInfo::normal_ref_mut()), PUPPET_ACT));
        f.insert(PUPPET_PEEK.to_string(), any_fn(Some(ReceiverInfo::normal_ref()), PUPPET_PEEK));
        f
    };
    blueprints.insert(
        PUPPET_BLUEPRINT.to_string(),
        BlueprintDefinitionInit {
            blueprint_type: BlueprintType::Outer,
            schema: BlueprintSchemaInit {
                state: BlueprintStateSchemaInit {
                    fields: (0..PUPPET_FIELDS).map(|_| FieldSchema::static_field(LocalTypeId::WellKnown(ANY_TYPE))).collect(),
                    collections: vec![
                        BlueprintCollectionSchema::KeyValueStore(any_kv(true)),
                        BlueprintCollectionSchema::Index(any_kv(false)),
                        BlueprintCollectionSchema::SortedIndex(any_kv(false)),
                    ],
                },
                functions: BlueprintFunctionsSchemaInit { functions: functions(true) },
                events: puppet_events_and_schema().0,
                schema: puppet_events_and_schema().1,
                ..Default::default()
            },
            auth_config: AuthConfig { function_auth: auth.function_auth.clone(), method_auth: auth.method_auth.clone() },
            ..Default::default()
        },
    );
    blueprints.insert(
        PUPPET_INNER_BLUEPRINT.to_string(),
        BlueprintDefinitionInit {
            blueprint_type: BlueprintType::Inner { outer_blueprint: PUPPET_BLUEPRINT.to_string() },
            schema: BlueprintSchemaInit {
                state: BlueprintStateSchemaInit {
                    fields: vec![FieldSchema::static_field(LocalTypeId::WellKnown(ANY_TYPE))],
                    collections: vec![],
                },
                functions: BlueprintFunctionsSchemaInit { functions: functions(false) },
                events: puppet_events_and_schema().0,
                schema: puppet_events_and_schema().1,
                ..Default::default()
            },
            auth_config: AuthConfig { function_auth: FunctionAuth::AllowAll, method_auth: MethodAuthTemplate::AllowAll },
            ..Default::default()
        },
    );
    PackageDefinition { blueprints }
}
