//! C25 Rounding follows the declared rounding modes.
//!
//! Oracle: `refdec::round_to_multiple` — the multiple of 10^-dp selected by the mathematical
//! definition of each mode (toward +inf / -inf / zero / away from zero / nearest with the three
//! tie rules), computed on bigints; `None` exactly when that multiple is outside the type's range;
//! aligned values unchanged. The mapping of the seven `RoundingMode` variants to the reference
//! modes follows the variants' doc comments.

use crate::c24::{judge, kind};
use crate::refdec::*;
use num_bigint::BigInt;
use num_traits::{Signed, Zero};
use radix_common::math::*;
use radix_engine_interface::blueprints::resource::{ForWithdrawal, WithdrawStrategy};
use vf_core::{catch, Gen, Outcome, Part};

fn real_mode(m: RefMode) -> RoundingMode {
    match m {
        RefMode::Up => RoundingMode::ToPositiveInfinity,
        RefMode::Down => RoundingMode::ToNegativeInfinity,
        RefMode::ToZero => RoundingMode::ToZero,
        RefMode::AwayFromZero => RoundingMode::AwayFromZero,
        RefMode::HalfToZero => RoundingMode::ToNearestMidpointTowardZero,
        RefMode::HalfAwayFromZero => RoundingMode::ToNearestMidpointAwayFromZero,
        RefMode::HalfEven => RoundingMode::ToNearestMidpointToEven,
    }
}

fn mode_name(m: RefMode) -> &'static str {
    match m {
        RefMode::Up => "ToPositiveInfinity",
        RefMode::Down => "ToNegativeInfinity",
        RefMode::ToZero => "ToZero",
        RefMode::AwayFromZero => "AwayFromZero",
        RefMode::HalfToZero => "ToNearestMidpointTowardZero",
        RefMode::HalfAwayFromZero => "ToNearestMidpointAwayFromZero",
        RefMode::HalfEven => "ToNearestMidpointToEven",
    }
}

/// A value placed relative to the grid of multiples of `step`: aligned, one subunit off, on the
/// half step and one subunit around it, or anywhere inside a cell; the cell is small, random, or
/// one of the last cells before MAX / MIN.
fn gen_on_grid(g: &mut Gen, k: Kind, step: &BigInt) -> BigInt {
    if g.chance(1, 5) {
        return gen_value(g, k);
    }
    let max = k.max();
    let min = k.min();
    let cell = match g.weighted(&[4, 4, 3, 3]) {
        0 => BigInt::from(g.range(-60, 60) as i64),
        1 => gen_value(g, k).div_euclid_floor(step),
        2 => max.div_euclid_floor(step) - BigInt::from(g.below(3)),
        _ => min.div_euclid_floor(step) + BigInt::from(g.below(3)),
    };
    let half: BigInt = step >> 1u32;
    let off = match g.weighted(&[3, 2, 2, 6, 2, 2, 4]) {
        0 => BigInt::zero(),
        1 => BigInt::from(1),
        2 => step - 1,
        3 => half.clone(),
        4 => &half - 1,
        5 => &half + 1,
        _ => {
            // anywhere inside the cell
            let r = BigInt::from(g.u128()) * BigInt::from(g.u128());
            r % step
        }
    };
    let v = cell * step + off;
    if v > max {
        max
    } else if v < min {
        min
    } else {
        v
    }
}

trait DivFloor {
    fn div_euclid_floor(&self, d: &BigInt) -> BigInt;
}
impl DivFloor for BigInt {
    fn div_euclid_floor(&self, d: &BigInt) -> BigInt {
        floor_div(self, d)
    }
}

fn classify(g: &mut Gen, k: Kind, v: &BigInt, step: &BigInt, r: &BigInt, tie: bool) {
    let aligned = r == v;
    if aligned {
        g.label("already aligned");
    }
    if tie {
        g.label("exact tie");
        g.nontrivial();
    }
    if v.is_negative() && !aligned {
        g.label("negative non-aligned");
        g.nontrivial();
    }
    let near = |lim: &BigInt| (r - lim).abs() <= *step;
    if !aligned && (near(&k.max()) || near(&k.min()) || !k.fits(r)) {
        g.label("result within one step of a limit");
        g.nontrivial();
    }
    if !k.fits(r) {
        g.label("unrepresentable");
    }
}

fn round(g: &mut Gen) -> Outcome {
    let k = kind(g);
    g.label(k.name);
    let mode = *g.pick(&REF_MODES);
    g.label(mode_name(mode));
    // entry point: 0 checked_round, 1 checked_floor, 2 checked_ceiling, 3 for_withdrawal, 4 checked_truncate
    let entry = match (k == DEC, g.weighted(&[10, 1, 1, 3])) {
        (_, 0) => 0,
        (_, 1) => 1,
        (_, 2) => 2,
        (true, _) => 3,
        (false, _) => 4,
    };
    let (dp, mode) = match entry {
        1 => (0u32, RefMode::Down),
        2 => (0u32, RefMode::Up),
        4 => (18u32, mode),
        3 => (g.range_u64(0, 18) as u32, mode),
        _ => (g.range_u64(0, k.scale as u64) as u32, mode),
    };
    let step = pow10(k.scale - dp);
    let v = gen_on_grid(g, k, &step);
    let (r, tie) = round_to_multiple(&v, &step, mode);
    classify(g, k, &v, &step, &r, tie);
    let rm = real_mode(mode);
    match entry {
        0 => {
            g.label("checked_round");
            let expect = if k.fits(&r) { Some(r.clone()) } else { None };
            g.sample(|| format!("{}({} subunits).checked_round({}, {}) expected {:?}", k.name, v, dp, mode_name(mode), expect.as_ref().map(|x| x.to_string())));
            let got = if k == DEC {
                let d = big_to_dec(&v);
                catch(move || d.checked_round(dp as i32, rm).map(dec_to_big))
            } else {
                let d = big_to_pdec(&v);
                catch(move || d.checked_round(dp as i32, rm).map(pdec_to_big))
            };
            judge(&format!("{}::checked_round [{}]", k.name, mode_name(mode)), || format!("value {} subunits, {} decimal places", v, dp), &expect, got)
        }
        1 | 2 => {
            let name = if entry == 1 { "checked_floor" } else { "checked_ceiling" };
            g.label(name);
            let expect = if k.fits(&r) { Some(r.clone()) } else { None };
            g.sample(|| format!("{}({} subunits).{}() expected {:?}", k.name, v, name, expect.as_ref().map(|x| x.to_string())));
            let got = if k == DEC {
                let d = big_to_dec(&v);
                catch(move || (if entry == 1 { d.checked_floor() } else { d.checked_ceiling() }).map(dec_to_big))
            } else {
                let d = big_to_pdec(&v);
                catch(move || (if entry == 1 { d.checked_floor() } else { d.checked_ceiling() }).map(pdec_to_big))
            };
            judge(&format!("{}::{}", k.name, name), || format!("value {} subunits", v), &expect, got)
        }
        3 => {
            g.label("for_withdrawal");
            let exact_strategy = g.chance(1, 8);
            let expect = if exact_strategy {
                g.label("WithdrawStrategy::Exact");
                Some(v.clone())
            } else if k.fits(&r) {
                Some(r.clone())
            } else {
                None
            };
            g.sample(|| format!("Decimal({} subunits).for_withdrawal({}, {}) expected {:?}", v, dp, if exact_strategy { "Exact" } else { mode_name(mode) }, expect.as_ref().map(|x| x.to_string())));
            let d = big_to_dec(&v);
            let strategy = if exact_strategy { WithdrawStrategy::Exact } else { WithdrawStrategy::Rounded(rm) };
            let got = catch(move || d.for_withdrawal(dp as u8, strategy).map(dec_to_big));
            let entry_name = if exact_strategy { "Decimal::for_withdrawal [Exact]".to_string() } else { format!("Decimal::for_withdrawal [{}]", mode_name(mode)) };
            judge(&entry_name, || format!("value {} subunits, divisibility {}", v, dp), &expect, got)
        }
        _ => {
            g.label("checked_truncate");
            // PreciseDecimal -> Decimal: round at 18 places, then express in attos
            let q = trunc_div(&r, &step);
            debug_assert!(&q * &step == r);
            let expect = if DEC.fits(&q) { Some(q.clone()) } else { None };
            if expect.is_none() {
                g.label("outside the Decimal range");
            }
            g.sample(|| format!("PreciseDecimal({} subunits).checked_truncate({}) expected {:?} attos", v, mode_name(mode), expect.as_ref().map(|x| x.to_string())));
            let d = big_to_pdec(&v);
            let got = catch(move || d.checked_truncate(rm).map(dec_to_big));
            judge(&format!("PreciseDecimal::checked_truncate [{}]", mode_name(mode)), || format!("value {} precise subunits", v), &expect, got)
        }
    }
}

pub fn check() -> vf_core::Check {
    vf_core::Check::new(
        "C25",
        "Rounding follows the declared rounding modes",
        "A decimal-place count dp in 0..=18 (0..=36 for PreciseDecimal; the documented panic range is never entered), one of the seven modes, and a value placed relative to the grid of multiples of 10^-dp (aligned, +-1 subunit, exactly on the half step, half step +-1, anywhere inside; cell small, random, or one of the last three before MAX / MIN; 20% boundary-heavy random values) are generated; checked_round (2/3 of cases), checked_floor, checked_ceiling, Decimal::for_withdrawal (divisibility 0..=18, Exact and Rounded) and PreciseDecimal::checked_truncate must return the multiple selected by the mode's mathematical definition computed on bigints, None exactly when it is not representable, the value itself when aligned; no panic. Non-trivial = exact tie, or negative non-aligned value, or result within one step of a limit.",
    )
    .assume("the seven RoundingMode variants are mapped to mathematical modes by their doc comments")
    .part(Part::new("round", 20_000_000, 500_000_000, 128, round))
    .min_nontrivial_pct(30.0)
}
