//! Random schemas for C23: a plain intermediate representation (IR) of a schema, a generator of
//! valid schemas whose types are all reachable from the roots, labelled edits deriving a second
//! schema, and builders into the repository's `SchemaV1`.

use crate::typed::CustomTK;
use radix_common::data::scrypto::{OwnValidation, ReferenceValidation, ScryptoCustomSchema, ScryptoCustomTypeKind, ScryptoCustomTypeValidation};
use radix_rust::rust::collections::index_map_new;
use sbor::*;
use std::borrow::Cow;
use vf_core::Gen;

#[derive(Clone, Copy, Debug, PartialEq, Eq)]
pub enum TRef {
    WellKnown(u8),
    Local(usize),
}

#[derive(Clone, Debug, PartialEq, Eq)]
pub struct VariantIR {
    pub disc: u8,
    pub name: String,
    pub fields: Vec<TRef>,
    pub field_names: Option<Vec<String>>,
}

#[derive(Clone, Debug, PartialEq, Eq)]
pub enum KindIR {
    Any,
    Bool,
    I8,
    I16,
    I32,
    I64,
    I128,
    U8,
    U16,
    U32,
    U64,
    U128,
    String,
    Array(TRef),
    Tuple(Vec<TRef>),
    Enum(Vec<VariantIR>),
    Map(TRef, TRef),
    Custom(CustomTK),
}

#[derive(Clone, Debug, PartialEq, Eq)]
pub enum RefIR {
    IsGlobal,
    IsGlobalPackage,
    IsGlobalComponent,
    IsGlobalResourceManager,
    IsGlobalTyped(String),
    IsInternal,
    IsInternalTyped(String),
}

#[derive(Clone, Debug, PartialEq, Eq)]
pub enum OwnIR {
    IsBucket,
    IsProof,
    IsVault,
    IsKeyValueStore,
    IsGlobalAddressReservation,
    IsTypedObject(String),
}

#[derive(Clone, Debug, PartialEq, Eq)]
pub enum ValIR {
    None,
    /// numeric bounds (signed kinds use the i128 pair, unsigned kinds the u128 pair)
    Signed(Option<i128>, Option<i128>),
    Unsigned(Option<u128>, Option<u128>),
    Len(Option<u32>, Option<u32>),
    Ref(RefIR),
    Own(OwnIR),
}

#[derive(Clone, Debug, PartialEq, Eq)]
pub struct TypeIR {
    pub kind: KindIR,
    pub name: Option<String>,
    /// field names of a tuple
    pub field_names: Option<Vec<String>>,
    pub validation: ValIR,
}

#[derive(Clone, Debug, PartialEq, Eq)]
pub struct SchemaIR {
    pub types: Vec<TypeIR>,
    pub roots: Vec<(String, TRef)>,
}

impl KindIR {
    pub fn refs(&self) -> Vec<TRef> {
        match self {
            KindIR::Array(e) => vec![*e],
            KindIR::Tuple(f) => f.clone(),
            KindIR::Enum(v) => v.iter().flat_map(|x| x.fields.iter().copied()).collect(),
            KindIR::Map(k, v) => vec![*k, *v],
            _ => vec![],
        }
    }
    fn refs_mut(&mut self) -> Vec<&mut TRef> {
        match self {
            KindIR::Array(e) => vec![e],
            KindIR::Tuple(f) => f.iter_mut().collect(),
            KindIR::Enum(v) => v.iter_mut().flat_map(|x| x.fields.iter_mut()).collect(),
            KindIR::Map(k, v) => vec![k, v],
            _ => vec![],
        }
    }
    pub fn label(&self) -> &'static str {
        match self {
            KindIR::Any => "Any",
            KindIR::Bool => "Bool",
            KindIR::I8 | KindIR::I16 | KindIR::I32 | KindIR::I64 | KindIR::I128 => "signed int",
            KindIR::U8 | KindIR::U16 | KindIR::U32 | KindIR::U64 | KindIR::U128 => "unsigned int",
            KindIR::String => "String",
            KindIR::Array(_) => "Array",
            KindIR::Tuple(_) => "Tuple",
            KindIR::Enum(_) => "Enum",
            KindIR::Map(_, _) => "Map",
            KindIR::Custom(_) => "Custom",
        }
    }
}

impl SchemaIR {
    /// Drop local types unreachable from the roots and renumber (keeps discovery order stable).
    pub fn compact(&mut self) {
        let n = self.types.len();
        let mut reach = vec![false; n];
        let mut stack: Vec<usize> = self.roots.iter().filter_map(|(_, r)| if let TRef::Local(i) = r { Some(*i) } else { None }).collect();
        while let Some(i) = stack.pop() {
            if i >= n || reach[i] {
                continue;
            }
            reach[i] = true;
            for r in self.types[i].kind.refs() {
                if let TRef::Local(j) = r {
                    stack.push(j);
                }
            }
        }
        let mut map = vec![usize::MAX; n];
        let mut next = 0;
        for i in 0..n {
            if reach[i] {
                map[i] = next;
                next += 1;
            }
        }
        let mut out = Vec::with_capacity(next);
        for (i, mut t) in std::mem::take(&mut self.types).into_iter().enumerate() {
            if reach[i] {
                for r in t.kind.refs_mut() {
                    if let TRef::Local(j) = r {
                        *j = map[*j];
                    }
                }
                out.push(t);
            }
        }
        self.types = out;
        for (_, r) in self.roots.iter_mut() {
            if let TRef::Local(j) = r {
                *j = map[*j];
            }
        }
    }

    pub fn uses_custom(&self) -> bool {
        self.types.iter().any(|t| matches!(t.kind, KindIR::Custom(_)) || matches!(t.validation, ValIR::Ref(_) | ValIR::Own(_)))
            || self.all_refs().iter().any(|r| matches!(r, TRef::WellKnown(id) if *id >= 0x80))
    }

    fn all_refs(&self) -> Vec<TRef> {
        let mut v: Vec<TRef> = self.roots.iter().map(|(_, r)| *r).collect();
        for t in &self.types {
            v.extend(t.kind.refs());
        }
        v
    }

    pub fn render(&self) -> String {
        let mut s = String::new();
        use std::fmt::Write;
        let _ = write!(s, "roots {:?}; ", self.roots);
        for (i, t) in self.types.iter().enumerate() {
            let _ = write!(s, "#{}={:?}", i, t.kind);
            if let Some(n) = &t.name {
                let _ = write!(s, " name {}", n);
            }
            if let Some(n) = &t.field_names {
                let _ = write!(s, " fields {:?}", n);
            }
            if t.validation != ValIR::None {
                let _ = write!(s, " {:?}", t.validation);
            }
            s.push_str("; ");
            if s.len() > 1200 {
                s.push('…');
                break;
            }
        }
        s
    }
}

// ------------------------------------------------------------------------------------------------
// builders

pub trait CustomBuild: CustomSchema {
    fn custom_kind(k: CustomTK) -> Option<Self::CustomLocalTypeKind>;
    fn custom_validation(v: &ValIR) -> Option<Self::CustomTypeValidation>;
}

impl CustomBuild for NoCustomSchema {
    fn custom_kind(_: CustomTK) -> Option<Self::CustomLocalTypeKind> {
        None
    }
    fn custom_validation(_: &ValIR) -> Option<Self::CustomTypeValidation> {
        None
    }
}

impl CustomBuild for ScryptoCustomSchema {
    fn custom_kind(k: CustomTK) -> Option<Self::CustomLocalTypeKind> {
        Some(match k {
            CustomTK::Reference => ScryptoCustomTypeKind::Reference,
            CustomTK::Own => ScryptoCustomTypeKind::Own,
            CustomTK::Decimal => ScryptoCustomTypeKind::Decimal,
            CustomTK::PreciseDecimal => ScryptoCustomTypeKind::PreciseDecimal,
            CustomTK::NonFungibleLocalId => ScryptoCustomTypeKind::NonFungibleLocalId,
        })
    }
    fn custom_validation(v: &ValIR) -> Option<Self::CustomTypeValidation> {
        Some(match v {
            ValIR::Ref(r) => ScryptoCustomTypeValidation::Reference(match r {
                RefIR::IsGlobal => ReferenceValidation::IsGlobal,
                RefIR::IsGlobalPackage => ReferenceValidation::IsGlobalPackage,
                RefIR::IsGlobalComponent => ReferenceValidation::IsGlobalComponent,
                RefIR::IsGlobalResourceManager => ReferenceValidation::IsGlobalResourceManager,
                RefIR::IsGlobalTyped(n) => ReferenceValidation::IsGlobalTyped(None, n.clone()),
                RefIR::IsInternal => ReferenceValidation::IsInternal,
                RefIR::IsInternalTyped(n) => ReferenceValidation::IsInternalTyped(None, n.clone()),
            }),
            ValIR::Own(o) => ScryptoCustomTypeValidation::Own(match o {
                OwnIR::IsBucket => OwnValidation::IsBucket,
                OwnIR::IsProof => OwnValidation::IsProof,
                OwnIR::IsVault => OwnValidation::IsVault,
                OwnIR::IsKeyValueStore => OwnValidation::IsKeyValueStore,
                OwnIR::IsGlobalAddressReservation => OwnValidation::IsGlobalAddressReservation,
                OwnIR::IsTypedObject(n) => OwnValidation::IsTypedObject(None, n.clone()),
            }),
            _ => return None,
        })
    }
}

pub fn local_id(r: TRef) -> LocalTypeId {
    match r {
        TRef::WellKnown(i) => LocalTypeId::WellKnown(WellKnownTypeId::of(i)),
        TRef::Local(i) => LocalTypeId::SchemaLocalIndex(i),
    }
}

fn cow(s: &str) -> Cow<'static, str> {
    Cow::Owned(s.to_string())
}

fn named_fields(names: &Option<Vec<String>>) -> Option<ChildNames> {
    names.as_ref().map(|v| ChildNames::NamedFields(v.iter().map(|s| cow(s)).collect()))
}

/// Build the repository schema for an IR. `None` if the IR uses custom kinds the schema family
/// does not have.
pub fn build<S: CustomBuild>(ir: &SchemaIR) -> Option<SchemaV1<S>> {
    let mut type_kinds = Vec::new();
    let mut type_metadata = Vec::new();
    let mut type_validations = Vec::new();
    for t in &ir.types {
        let kind: LocalTypeKind<S> = match &t.kind {
            KindIR::Any => TypeKind::Any,
            KindIR::Bool => TypeKind::Bool,
            KindIR::I8 => TypeKind::I8,
            KindIR::I16 => TypeKind::I16,
            KindIR::I32 => TypeKind::I32,
            KindIR::I64 => TypeKind::I64,
            KindIR::I128 => TypeKind::I128,
            KindIR::U8 => TypeKind::U8,
            KindIR::U16 => TypeKind::U16,
            KindIR::U32 => TypeKind::U32,
            KindIR::U64 => TypeKind::U64,
            KindIR::U128 => TypeKind::U128,
            KindIR::String => TypeKind::String,
            KindIR::Array(e) => TypeKind::Array { element_type: local_id(*e) },
            KindIR::Tuple(f) => TypeKind::Tuple { field_types: f.iter().map(|r| local_id(*r)).collect() },
            KindIR::Enum(vs) => {
                let mut m = index_map_new();
                for v in vs {
                    m.insert(v.disc, v.fields.iter().map(|r| local_id(*r)).collect::<Vec<_>>());
                }
                TypeKind::Enum { variants: m }
            }
            KindIR::Map(k, v) => TypeKind::Map { key_type: local_id(*k), value_type: local_id(*v) },
            KindIR::Custom(c) => TypeKind::Custom(S::custom_kind(*c)?),
        };
        let metadata = match &t.kind {
            KindIR::Enum(vs) => {
                let mut m = index_map_new();
                for v in vs {
                    m.insert(v.disc, TypeMetadata { type_name: Some(cow(&v.name)), child_names: named_fields(&v.field_names) });
                }
                TypeMetadata { type_name: t.name.as_deref().map(cow), child_names: Some(ChildNames::EnumVariants(m)) }
            }
            KindIR::Tuple(_) => TypeMetadata { type_name: t.name.as_deref().map(cow), child_names: named_fields(&t.field_names) },
            _ => TypeMetadata { type_name: t.name.as_deref().map(cow), child_names: None },
        };
        macro_rules! num {
            ($variant:ident, $t:ty, $lo:expr, $hi:expr) => {
                TypeValidation::$variant(NumericValidation::with_bounds($lo.map(|x| x as $t), $hi.map(|x| x as $t)))
            };
        }
        let validation: TypeValidation<S::CustomTypeValidation> = match (&t.kind, &t.validation) {
            (_, ValIR::None) => TypeValidation::None,
            (KindIR::I8, ValIR::Signed(lo, hi)) => num!(I8, i8, lo, hi),
            (KindIR::I16, ValIR::Signed(lo, hi)) => num!(I16, i16, lo, hi),
            (KindIR::I32, ValIR::Signed(lo, hi)) => num!(I32, i32, lo, hi),
            (KindIR::I64, ValIR::Signed(lo, hi)) => num!(I64, i64, lo, hi),
            (KindIR::I128, ValIR::Signed(lo, hi)) => num!(I128, i128, lo, hi),
            (KindIR::U8, ValIR::Unsigned(lo, hi)) => num!(U8, u8, lo, hi),
            (KindIR::U16, ValIR::Unsigned(lo, hi)) => num!(U16, u16, lo, hi),
            (KindIR::U32, ValIR::Unsigned(lo, hi)) => num!(U32, u32, lo, hi),
            (KindIR::U64, ValIR::Unsigned(lo, hi)) => num!(U64, u64, lo, hi),
            (KindIR::U128, ValIR::Unsigned(lo, hi)) => num!(U128, u128, lo, hi),
            (KindIR::String, ValIR::Len(lo, hi)) => TypeValidation::String(LengthValidation { min: *lo, max: *hi }),
            (KindIR::Array(_), ValIR::Len(lo, hi)) => TypeValidation::Array(LengthValidation { min: *lo, max: *hi }),
            (KindIR::Map(_, _), ValIR::Len(lo, hi)) => TypeValidation::Map(LengthValidation { min: *lo, max: *hi }),
            (KindIR::Custom(_), v @ (ValIR::Ref(_) | ValIR::Own(_))) => TypeValidation::Custom(S::custom_validation(v)?),
            _ => return None,
        };
        type_kinds.push(kind);
        type_metadata.push(metadata);
        type_validations.push(validation);
    }
    Some(SchemaV1 { type_kinds, type_metadata, type_validations })
}

// ------------------------------------------------------------------------------------------------
// generator

const TYPE_NAMES: &[&str] = &["Alpha", "Beta", "Gamma", "Delta", "Item", "Node", "Config", "State", "Kind", "Payload", "Entry", "T1", "My_Type"];
const FIELD_NAMES: &[&str] = &["a", "b", "c", "id", "value", "amount", "owner", "items", "next", "flag", "x1", "some_field"];
const VARIANT_NAMES: &[&str] = &["None", "Some", "A", "B", "C", "First", "Second", "Empty", "Leaf", "Branch", "V1", "V2", "Other"];

pub struct SchemaGenCfg {
    pub allow_custom: bool,
    /// well-known ids that resolve in the target schema family
    pub well_known: Vec<u8>,
    pub max_types: usize,
}

const SCALAR_WELL_KNOWN: &[u8] = &[0x07, 0x01, 0x02, 0x03, 0x04, 0x05, 0x06, 0x08, 0x09, 0x0a, 0x0b, 0x0c, 0x40, 0x41, 0x42];

pub struct SchemaGen<'a, 'b> {
    pub g: &'a mut Gen<'b>,
    pub cfg: &'a SchemaGenCfg,
    types: Vec<Option<TypeIR>>,
}

fn distinct_names(g: &mut Gen, pool: &[&str], n: usize) -> Vec<String> {
    let start = g.index(pool.len());
    (0..n).map(|i| if i < pool.len() { pool[(start + i) % pool.len()].to_string() } else { format!("{}{}", pool[(start + i) % pool.len()], i) }).collect()
}

pub fn gen_validation(g: &mut Gen, kind: &KindIR) -> ValIR {
    fn bounds_i(g: &mut Gen, lo: i128, hi: i128) -> (Option<i128>, Option<i128>) {
        let pts = [lo, lo + 1, -100, -1, 0, 1, 2, 5, 100, hi - 1, hi];
        let mut a = *g.pick(&pts);
        let mut b = *g.pick(&pts);
        a = a.clamp(lo, hi);
        b = b.clamp(lo, hi);
        if a > b {
            std::mem::swap(&mut a, &mut b);
        }
        match g.weighted(&[3, 2, 2]) {
            0 => (Some(a), Some(b)),
            1 => (Some(a), None),
            _ => (None, Some(b)),
        }
    }
    fn bounds_u(g: &mut Gen, hi: u128) -> (Option<u128>, Option<u128>) {
        let pts = [0u128, 1, 2, 5, 32, 100, 200, hi - 1, hi];
        let mut a = (*g.pick(&pts)).min(hi);
        let mut b = (*g.pick(&pts)).min(hi);
        if a > b {
            std::mem::swap(&mut a, &mut b);
        }
        match g.weighted(&[3, 2, 2]) {
            0 => (Some(a), Some(b)),
            1 => (Some(a), None),
            _ => (None, Some(b)),
        }
    }
    fn len(g: &mut Gen) -> ValIR {
        let a = g.index(4) as u32;
        let b = a + g.index(4) as u32;
        match g.weighted(&[3, 2, 2, 1]) {
            0 => ValIR::Len(Some(a), Some(b)),
            1 => ValIR::Len(Some(a), None),
            2 => ValIR::Len(None, Some(b)),
            _ => ValIR::Len(Some(a), Some(a)),
        }
    }
    let name = |g: &mut Gen| (*g.pick(TYPE_NAMES)).to_string();
    match kind {
        KindIR::I8 => {
            let (a, b) = bounds_i(g, i8::MIN as i128, i8::MAX as i128);
            ValIR::Signed(a, b)
        }
        KindIR::I16 => {
            let (a, b) = bounds_i(g, i16::MIN as i128, i16::MAX as i128);
            ValIR::Signed(a, b)
        }
        KindIR::I32 => {
            let (a, b) = bounds_i(g, i32::MIN as i128, i32::MAX as i128);
            ValIR::Signed(a, b)
        }
        KindIR::I64 => {
            let (a, b) = bounds_i(g, i64::MIN as i128, i64::MAX as i128);
            ValIR::Signed(a, b)
        }
        KindIR::I128 => {
            let (a, b) = bounds_i(g, i128::MIN, i128::MAX);
            ValIR::Signed(a, b)
        }
        KindIR::U8 => {
            let (a, b) = bounds_u(g, u8::MAX as u128);
            ValIR::Unsigned(a, b)
        }
        KindIR::U16 => {
            let (a, b) = bounds_u(g, u16::MAX as u128);
            ValIR::Unsigned(a, b)
        }
        KindIR::U32 => {
            let (a, b) = bounds_u(g, u32::MAX as u128);
            ValIR::Unsigned(a, b)
        }
        KindIR::U64 => {
            let (a, b) = bounds_u(g, u64::MAX as u128);
            ValIR::Unsigned(a, b)
        }
        KindIR::U128 => {
            let (a, b) = bounds_u(g, u128::MAX);
            ValIR::Unsigned(a, b)
        }
        KindIR::String | KindIR::Array(_) | KindIR::Map(_, _) => len(g),
        KindIR::Custom(CustomTK::Reference) => ValIR::Ref(match g.index(7) {
            0 => RefIR::IsGlobal,
            1 => RefIR::IsGlobalPackage,
            2 => RefIR::IsGlobalComponent,
            3 => RefIR::IsGlobalResourceManager,
            4 => RefIR::IsGlobalTyped(name(g)),
            5 => RefIR::IsInternal,
            _ => RefIR::IsInternalTyped(name(g)),
        }),
        KindIR::Custom(CustomTK::Own) => ValIR::Own(match g.index(6) {
            0 => OwnIR::IsBucket,
            1 => OwnIR::IsProof,
            2 => OwnIR::IsVault,
            3 => OwnIR::IsKeyValueStore,
            4 => OwnIR::IsGlobalAddressReservation,
            _ => OwnIR::IsTypedObject(name(g)),
        }),
        _ => ValIR::None,
    }
}

const INT_KINDS: &[KindIR] = &[KindIR::U8, KindIR::I8, KindIR::I16, KindIR::I32, KindIR::I64, KindIR::I128, KindIR::U16, KindIR::U32, KindIR::U64, KindIR::U128];

impl<'a, 'b> SchemaGen<'a, 'b> {
    pub fn new(g: &'a mut Gen<'b>, cfg: &'a SchemaGenCfg) -> Self {
        SchemaGen { g, cfg, types: Vec::new() }
    }

    fn well_known_ref(&mut self) -> TRef {
        let id = if self.g.chance(3, 4) { *self.g.pick(SCALAR_WELL_KNOWN) } else { *self.g.pick(&self.cfg.well_known) };
        TRef::WellKnown(id)
    }

    pub fn gen_ref(&mut self, depth: usize) -> TRef {
        let can_new = self.types.len() < self.cfg.max_types && depth < 5;
        let has_existing = !self.types.is_empty();
        match self.g.weighted(&[4, if can_new { 5 } else { 0 }, if has_existing { 1 } else { 0 }]) {
            0 => self.well_known_ref(),
            1 => TRef::Local(self.new_type(depth)),
            _ => TRef::Local(self.g.index(self.types.len())),
        }
    }

    fn opt_name(&mut self) -> Option<String> {
        if self.g.chance(2, 3) {
            Some((*self.g.pick(TYPE_NAMES)).to_string())
        } else {
            None
        }
    }

    fn opt_field_names(&mut self, n: usize) -> Option<Vec<String>> {
        if self.g.bool() {
            Some(distinct_names(self.g, FIELD_NAMES, n))
        } else {
            None
        }
    }

    pub fn new_type(&mut self, depth: usize) -> usize {
        let idx = self.types.len();
        self.types.push(None);
        let w_custom = if self.cfg.allow_custom { 2 } else { 0 };
        // roots are mostly composite, so that schemas have several types
        let w_leaf = if depth == 0 { 1 } else { 3 };
        let t = match self.g.weighted(&[w_leaf, 2, 3, 3, 1, if depth == 0 { 0 } else { w_custom }, if depth == 0 { 0 } else { 1 }, if depth == 0 { 0 } else { 1 }]) {
            0 => {
                let kind = self.g.pick(INT_KINDS).clone();
                let validation = if self.g.chance(3, 4) { gen_validation(self.g, &kind) } else { ValIR::None };
                TypeIR { kind, name: self.opt_name(), field_names: None, validation }
            }
            1 => {
                // arrays of owned nodes / bytes are the shapes manifest expressions and blobs stand for
                let e = match self.g.weighted(&[6, if self.cfg.allow_custom { 2 } else { 0 }, 1]) {
                    0 => self.gen_ref(depth + 1),
                    1 => {
                        if self.types.len() < self.cfg.max_types && self.g.bool() {
                            let i = self.types.len();
                            let kind = KindIR::Custom(CustomTK::Own);
                            let validation = if self.g.bool() { gen_validation(self.g, &kind) } else { ValIR::None };
                            let name = self.opt_name();
                            self.types.push(Some(TypeIR { kind, name, field_names: None, validation }));
                            TRef::Local(i)
                        } else {
                            // well-known Own types (bucket, proof, vault, ...)
                            let owns: Vec<u8> = self.cfg.well_known.iter().copied().filter(|i| (0xa0..0xc0).contains(i)).collect();
                            if owns.is_empty() {
                                self.gen_ref(depth + 1)
                            } else {
                                TRef::WellKnown(*self.g.pick(&owns))
                            }
                        }
                    }
                    _ => TRef::WellKnown(0x07),
                };
                let kind = KindIR::Array(e);
                let validation = if self.g.bool() { gen_validation(self.g, &kind) } else { ValIR::None };
                TypeIR { kind, name: self.opt_name(), field_names: None, validation }
            }
            2 => {
                let n = self.g.index(4);
                let fields: Vec<TRef> = (0..n).map(|_| self.gen_ref(depth + 1)).collect();
                TypeIR { kind: KindIR::Tuple(fields), name: self.opt_name(), field_names: self.opt_field_names(n), validation: ValIR::None }
            }
            3 => {
                let nv = self.g.index(6);
                let names = distinct_names(self.g, VARIANT_NAMES, nv);
                let mut discs: Vec<u8> = Vec::new();
                let mut variants = Vec::new();
                for name in names.into_iter() {
                    let mut d = if self.g.chance(3, 4) { discs.len() as u8 } else { self.g.u8() };
                    while discs.contains(&d) {
                        d = d.wrapping_add(1);
                    }
                    discs.push(d);
                    let nf = self.g.index(3);
                    let fields: Vec<TRef> = (0..nf).map(|_| self.gen_ref(depth + 1)).collect();
                    let field_names = self.opt_field_names(nf);
                    variants.push(VariantIR { disc: d, name, fields, field_names });
                }
                let name = Some((*self.g.pick(TYPE_NAMES)).to_string());
                TypeIR { kind: KindIR::Enum(variants), name, field_names: None, validation: ValIR::None }
            }
            4 => {
                let k = self.gen_ref(depth + 1);
                let v = self.gen_ref(depth + 1);
                let kind = KindIR::Map(k, v);
                let validation = if self.g.bool() { gen_validation(self.g, &kind) } else { ValIR::None };
                TypeIR { kind, name: self.opt_name(), field_names: None, validation }
            }
            5 => {
                let c = *self.g.pick(&[CustomTK::Reference, CustomTK::Own, CustomTK::Decimal, CustomTK::PreciseDecimal, CustomTK::NonFungibleLocalId]);
                let kind = KindIR::Custom(c);
                let validation = if self.g.chance(3, 4) { gen_validation(self.g, &kind) } else { ValIR::None };
                TypeIR { kind, name: self.opt_name(), field_names: None, validation }
            }
            6 => {
                let kind = KindIR::String;
                let validation = if self.g.chance(3, 4) { gen_validation(self.g, &kind) } else { ValIR::None };
                TypeIR { kind, name: self.opt_name(), field_names: None, validation }
            }
            _ => {
                let kind = if self.g.bool() { KindIR::Any } else { KindIR::Bool };
                TypeIR { kind, name: self.opt_name(), field_names: None, validation: ValIR::None }
            }
        };
        self.types[idx] = Some(t);
        idx
    }

    /// A schema with `n_roots` named roots; every local type is reachable from a root.
    pub fn schema(mut self, n_roots: usize) -> SchemaIR {
        let mut roots = Vec::new();
        let names = distinct_names(self.g, &["root", "Main", "Event", "Input", "Output"], n_roots);
        for name in names {
            let r = if self.types.len() < self.cfg.max_types { TRef::Local(self.new_type(0)) } else { self.gen_ref(0) };
            roots.push((name, r));
        }
        let types = self.types.into_iter().map(|t| t.expect("type filled")).collect();
        SchemaIR { types, roots }
    }
}

// ------------------------------------------------------------------------------------------------
// edits

#[derive(Clone, Copy, Debug, PartialEq, Eq)]
pub enum EditClass {
    Compatible,
    Breaking,
    Rename,
}

pub struct Edit {
    pub label: &'static str,
    pub class: EditClass,
}

fn pick_type<'x>(g: &mut Gen, ir: &'x SchemaIR, pred: impl Fn(&TypeIR) -> bool) -> Option<usize> {
    let v: Vec<usize> = ir.types.iter().enumerate().filter(|(_, t)| pred(t)).map(|(i, _)| i).collect();
    if v.is_empty() {
        None
    } else {
        Some(v[g.index(v.len())])
    }
}

fn other_scalar_ref(g: &mut Gen, not: TRef) -> TRef {
    for _ in 0..6 {
        let r = TRef::WellKnown(*g.pick(&[0x01u8, 0x07, 0x09, 0x0c, 0x05, 0x42, 0x41]));
        if r != not {
            return r;
        }
    }
    if not == TRef::WellKnown(0x0a) {
        TRef::WellKnown(0x0b)
    } else {
        TRef::WellKnown(0x0a)
    }
}

fn widen(g: &mut Gen, kind: &KindIR, v: &ValIR) -> Option<ValIR> {
    let (smin, smax, umax) = kind_limits(kind);
    Some(match v {
        ValIR::None => return None,
        ValIR::Signed(lo, hi) => match g.index(4) {
            0 => ValIR::None,
            1 => ValIR::Signed(None, *hi),
            2 => ValIR::Signed(*lo, None),
            _ => ValIR::Signed(lo.map(|x| x.saturating_sub(1).max(smin)), hi.map(|x| x.saturating_add(1).min(smax))),
        },
        ValIR::Unsigned(lo, hi) => match g.index(4) {
            0 => ValIR::None,
            1 => ValIR::Unsigned(None, *hi),
            2 => ValIR::Unsigned(*lo, None),
            _ => ValIR::Unsigned(lo.map(|x| x.saturating_sub(1)), hi.map(|x| x.saturating_add(1).min(umax))),
        },
        ValIR::Len(lo, hi) => match g.index(4) {
            0 => ValIR::None,
            1 => ValIR::Len(None, *hi),
            2 => ValIR::Len(*lo, None),
            _ => ValIR::Len(lo.map(|x| x.saturating_sub(1)), hi.map(|x| x.saturating_add(1))),
        },
        ValIR::Ref(r) => match r {
            RefIR::IsGlobal | RefIR::IsInternal => ValIR::None,
            RefIR::IsGlobalPackage | RefIR::IsGlobalComponent | RefIR::IsGlobalResourceManager | RefIR::IsGlobalTyped(_) => {
                if g.bool() {
                    ValIR::Ref(RefIR::IsGlobal)
                } else {
                    ValIR::None
                }
            }
            RefIR::IsInternalTyped(_) => {
                if g.bool() {
                    ValIR::Ref(RefIR::IsInternal)
                } else {
                    ValIR::None
                }
            }
        },
        ValIR::Own(_) => ValIR::None,
    })
}

/// Bounds of the numeric kind as (signed min, signed max) / unsigned max.
fn kind_limits(k: &KindIR) -> (i128, i128, u128) {
    match k {
        KindIR::I8 => (i8::MIN as i128, i8::MAX as i128, 0),
        KindIR::I16 => (i16::MIN as i128, i16::MAX as i128, 0),
        KindIR::I32 => (i32::MIN as i128, i32::MAX as i128, 0),
        KindIR::I64 => (i64::MIN as i128, i64::MAX as i128, 0),
        KindIR::I128 => (i128::MIN, i128::MAX, 0),
        KindIR::U8 => (0, 0, u8::MAX as u128),
        KindIR::U16 => (0, 0, u16::MAX as u128),
        KindIR::U32 => (0, 0, u32::MAX as u128),
        KindIR::U64 => (0, 0, u64::MAX as u128),
        KindIR::U128 => (0, 0, u128::MAX),
        _ => (0, 0, 0),
    }
}

fn narrow(g: &mut Gen, kind: &KindIR, v: &ValIR) -> Option<ValIR> {
    let (smin, smax, umax) = kind_limits(kind);
    Some(match v {
        ValIR::None => {
            let nv = gen_validation(g, kind);
            // a fresh validation that really excludes something
            match &nv {
                ValIR::None => return None,
                ValIR::Signed(lo, hi) if lo.unwrap_or(smin) <= smin && hi.unwrap_or(smax) >= smax => ValIR::Signed(Some(smin + 1), *hi),
                ValIR::Unsigned(lo, hi) if lo.unwrap_or(0) == 0 && hi.unwrap_or(umax) >= umax => ValIR::Unsigned(Some(1), *hi),
                ValIR::Len(lo, hi) if lo.unwrap_or(0) == 0 && hi.is_none() => ValIR::Len(Some(1), None),
                _ => nv,
            }
        }
        ValIR::Signed(lo, hi) => {
            let l = lo.unwrap_or(smin);
            let h = hi.unwrap_or(smax);
            if l >= h {
                return None;
            }
            if g.bool() {
                ValIR::Signed(Some(l + 1), *hi)
            } else {
                ValIR::Signed(*lo, Some(h - 1))
            }
        }
        ValIR::Unsigned(lo, hi) => {
            let l = lo.unwrap_or(0);
            let h = hi.unwrap_or(umax);
            if l >= h {
                return None;
            }
            if g.bool() {
                ValIR::Unsigned(Some(l + 1), *hi)
            } else {
                ValIR::Unsigned(*lo, Some(h - 1))
            }
        }
        ValIR::Len(lo, hi) => {
            let l = lo.unwrap_or(0);
            let h = hi.unwrap_or(u32::MAX);
            if l >= h {
                return None;
            }
            if g.bool() {
                ValIR::Len(Some(l + 1), *hi)
            } else {
                ValIR::Len(*lo, Some(h - 1))
            }
        }
        ValIR::Ref(r) => match r {
            RefIR::IsGlobal => ValIR::Ref(if g.bool() { RefIR::IsGlobalPackage } else { RefIR::IsGlobalComponent }),
            RefIR::IsInternal => ValIR::Ref(RefIR::IsInternalTyped("Vault".into())),
            RefIR::IsGlobalComponent => ValIR::Ref(RefIR::IsGlobalPackage),
            _ => ValIR::Ref(RefIR::IsInternal),
        },
        ValIR::Own(o) => ValIR::Own(if *o == OwnIR::IsVault { OwnIR::IsKeyValueStore } else { OwnIR::IsVault }),
    })
}

/// Apply one random edit to `ir`. Returns `None` if the drawn edit does not apply to this schema.
pub fn apply_edit(g: &mut Gen, ir: &mut SchemaIR, cfg: &SchemaGenCfg) -> Option<Edit> {
    let choice = g.weighted(&[4, 4, 3, 2, 3, 2, 2, 2, 2, 2, 2, 1, 2]);
    match choice {
        0 => {
            // add an enum variant
            let i = pick_type(g, ir, |t| matches!(t.kind, KindIR::Enum(_)))?;
            let KindIR::Enum(vs) = &mut ir.types[i].kind else { return None };
            if vs.len() >= 250 {
                return None;
            }
            let mut d = if g.bool() { vs.len() as u8 } else { g.u8() };
            while vs.iter().any(|v| v.disc == d) {
                d = d.wrapping_add(1);
            }
            let mut name = format!("New{}", d);
            while vs.iter().any(|v| v.name == name) {
                name.push('x');
            }
            let nf = g.index(3);
            let fields: Vec<TRef> = (0..nf).map(|_| TRef::WellKnown(*g.pick(SCALAR_WELL_KNOWN))).collect();
            let field_names = if g.bool() { Some(distinct_names(g, FIELD_NAMES, nf)) } else { None };
            let at = g.index(vs.len() + 1);
            vs.insert(at, VariantIR { disc: d, name, fields, field_names });
            Some(Edit { label: "add enum variant", class: EditClass::Compatible })
        }
        1 => {
            let i = pick_type(g, ir, |t| t.validation != ValIR::None)?;
            let kind = ir.types[i].kind.clone();
            let nv = widen(g, &kind, &ir.types[i].validation)?;
            if nv == ir.types[i].validation {
                return None;
            }
            ir.types[i].validation = nv;
            Some(Edit { label: "widen validation", class: EditClass::Compatible })
        }
        2 => {
            let i = pick_type(g, ir, |t| t.kind != KindIR::Any)?;
            let t = &mut ir.types[i];
            t.kind = KindIR::Any;
            t.validation = ValIR::None;
            t.field_names = None;
            Some(Edit { label: "replace with Any", class: EditClass::Compatible })
        }
        3 => {
            // add a root type (type collections)
            let mut sg = SchemaGen { g, cfg, types: std::mem::take(&mut ir.types).into_iter().map(Some).collect() };
            let r = if sg.types.len() < cfg.max_types + 2 { TRef::Local(sg.new_type(3)) } else { sg.well_known_ref() };
            ir.types = sg.types.into_iter().map(|t| t.expect("filled")).collect();
            let mut name = "Extra".to_string();
            while ir.roots.iter().any(|(n, _)| *n == name) {
                name.push('x');
            }
            ir.roots.push((name, r));
            Some(Edit { label: "add root type", class: EditClass::Compatible })
        }
        4 => {
            // rename something
            match g.index(3) {
                0 => {
                    let i = pick_type(g, ir, |_| true)?;
                    let t = &mut ir.types[i];
                    match (&t.name, &t.kind) {
                        (Some(n), KindIR::Enum(_)) => t.name = Some(format!("{}2", n)),
                        (Some(n), _) => t.name = if g.bool() { Some(format!("{}2", n)) } else { None },
                        (None, _) => t.name = Some("Added".into()),
                    }
                    Some(Edit { label: "change type name", class: EditClass::Rename })
                }
                1 => {
                    let i = pick_type(g, ir, |t| matches!(&t.kind, KindIR::Tuple(f) if !f.is_empty()))?;
                    let KindIR::Tuple(f) = &ir.types[i].kind else { return None };
                    let n = f.len();
                    let t = &mut ir.types[i];
                    match &mut t.field_names {
                        Some(names) => {
                            let j = g.index(n);
                            names[j] = format!("{}_r", names[j]);
                        }
                        None => t.field_names = Some((0..n).map(|j| format!("n{}", j)).collect()),
                    }
                    Some(Edit { label: "change field name", class: EditClass::Rename })
                }
                _ => {
                    let i = pick_type(g, ir, |t| matches!(&t.kind, KindIR::Enum(v) if !v.is_empty()))?;
                    let KindIR::Enum(vs) = &mut ir.types[i].kind else { return None };
                    let j = g.index(vs.len());
                    let mut name = format!("{}R", vs[j].name);
                    while vs.iter().any(|v| v.name == name) {
                        name.push('x');
                    }
                    vs[j].name = name;
                    Some(Edit { label: "change variant name", class: EditClass::Rename })
                }
            }
        }
        5 => {
            let i = pick_type(g, ir, |t| matches!(&t.kind, KindIR::Enum(v) if !v.is_empty()))?;
            let KindIR::Enum(vs) = &mut ir.types[i].kind else { return None };
            let j = g.index(vs.len());
            vs.remove(j);
            Some(Edit { label: "remove enum variant", class: EditClass::Breaking })
        }
        6 => {
            let i = pick_type(g, ir, |t| matches!(&t.kind, KindIR::Enum(v) if !v.is_empty()))?;
            let KindIR::Enum(vs) = &mut ir.types[i].kind else { return None };
            let j = g.index(vs.len());
            let mut d = vs[j].disc.wrapping_add(1 + g.index(3) as u8);
            while vs.iter().any(|v| v.disc == d) {
                d = d.wrapping_add(1);
            }
            vs[j].disc = d;
            Some(Edit { label: "renumber enum variant", class: EditClass::Breaking })
        }
        7 => {
            // change the type of a field
            let i = pick_type(g, ir, |t| match &t.kind {
                KindIR::Tuple(f) => !f.is_empty(),
                KindIR::Enum(v) => v.iter().any(|x| !x.fields.is_empty()),
                _ => false,
            })?;
            match &mut ir.types[i].kind {
                KindIR::Tuple(f) => {
                    let j = g.index(f.len());
                    f[j] = other_scalar_ref(g, f[j]);
                }
                KindIR::Enum(vs) => {
                    let cands: Vec<usize> = vs.iter().enumerate().filter(|(_, x)| !x.fields.is_empty()).map(|(k, _)| k).collect();
                    let v = &mut vs[cands[g.index(cands.len())]];
                    let j = g.index(v.fields.len());
                    v.fields[j] = other_scalar_ref(g, v.fields[j]);
                }
                _ => return None,
            }
            Some(Edit { label: "change field type", class: EditClass::Breaking })
        }
        8 => {
            // change the number of fields
            let i = pick_type(g, ir, |t| matches!(&t.kind, KindIR::Tuple(_) | KindIR::Enum(_)))?;
            let add = g.bool();
            let extra = TRef::WellKnown(*g.pick(SCALAR_WELL_KNOWN));
            let t = &mut ir.types[i];
            match &mut t.kind {
                KindIR::Tuple(f) => {
                    if add {
                        f.push(extra);
                        if let Some(n) = &mut t.field_names {
                            n.push(format!("added{}", n.len()));
                        }
                    } else {
                        if f.is_empty() {
                            return None;
                        }
                        f.pop();
                        if let Some(n) = &mut t.field_names {
                            n.pop();
                        }
                    }
                }
                KindIR::Enum(vs) => {
                    if vs.is_empty() {
                        return None;
                    }
                    let j = g.index(vs.len());
                    let v = &mut vs[j];
                    if add {
                        v.fields.push(extra);
                        if let Some(n) = &mut v.field_names {
                            n.push(format!("added{}", n.len()));
                        }
                    } else {
                        if v.fields.is_empty() {
                            return None;
                        }
                        v.fields.pop();
                        if let Some(n) = &mut v.field_names {
                            n.pop();
                        }
                    }
                }
                _ => return None,
            }
            Some(Edit { label: "change field count", class: EditClass::Breaking })
        }
        9 => {
            let i = pick_type(g, ir, |t| {
                matches!(
                    t.kind,
                    KindIR::I8
                        | KindIR::I16
                        | KindIR::I32
                        | KindIR::I64
                        | KindIR::I128
                        | KindIR::U8
                        | KindIR::U16
                        | KindIR::U32
                        | KindIR::U64
                        | KindIR::U128
                        | KindIR::String
                        | KindIR::Array(_)
                        | KindIR::Map(_, _)
                        | KindIR::Custom(CustomTK::Reference)
                        | KindIR::Custom(CustomTK::Own)
                )
            })?;
            let kind = ir.types[i].kind.clone();
            let nv = narrow(g, &kind, &ir.types[i].validation)?;
            if nv == ir.types[i].validation {
                return None;
            }
            ir.types[i].validation = nv;
            Some(Edit { label: "narrow validation", class: EditClass::Breaking })
        }
        10 => {
            let i = pick_type(g, ir, |t| matches!(&t.kind, KindIR::Map(k, v) if k != v))?;
            let KindIR::Map(k, v) = &mut ir.types[i].kind else { return None };
            std::mem::swap(k, v);
            Some(Edit { label: "swap map key and value", class: EditClass::Breaking })
        }
        11 => {
            let i = pick_type(g, ir, |t| matches!(&t.kind, KindIR::Array(_)))?;
            let KindIR::Array(e) = &mut ir.types[i].kind else { return None };
            *e = other_scalar_ref(g, *e);
            Some(Edit { label: "change array element type", class: EditClass::Breaking })
        }
        _ => {
            // change the kind of a whole type to another scalar kind
            let i = pick_type(g, ir, |t| !matches!(t.kind, KindIR::Enum(_)))?;
            let nk = g.pick(INT_KINDS).clone();
            if nk == ir.types[i].kind {
                return None;
            }
            let t = &mut ir.types[i];
            t.kind = nk;
            t.validation = ValIR::None;
            t.field_names = None;
            Some(Edit { label: "change type kind", class: EditClass::Breaking })
        }
    }
}
