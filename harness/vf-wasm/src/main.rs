fn main() {
    vf_core::main_with(vf_wasm::checks());
}
