//! C04 Total supply always equals the sum of all vaults (history invariant).

use crate::judge::*;
use crate::mgen::*;
use crate::session::*;
use radix_engine::system::checkers::*;
use vf_core::{catch, ensure, Check, Gen, Outcome, Part};
use vf_world::*;

fn case(g: &mut Gen, max_len: u64) -> Outcome {
    with_world(WORLD_KEY, no_genesis, build, |w| {
        let mut s = Session::new(w);
        let ext = s.ext();
        let len = 5 + g.below(max_len - 4);
        let prof = Profile::mixed();
        let (mut failed, mut burns, mut epochs, mut opaque_ok, mut rejected, mut recalls, mut nf_burns) = (0u32, 0u32, 0u32, 0u32, 0u32, 0u32, 0u32);
        let mut log: Vec<String> = Vec::new();
        let mut replay = ext.base_replay.clone();
        let mut applied_upto = ext.base_events;
        for step in 0..len {
            let (what, obs) = match g.weighted(&[12, 5, 3]) {
                0 => {
                    let (plan, obs, _) = s.step(g, &prof);
                    if obs.run.is_success() {
                        if !plan.burned_f.is_empty() || !plan.burned_n.is_empty() {
                            burns += 1;
                        }
                        if !plan.burned_n.is_empty() {
                            nf_burns += 1;
                        }
                        if plan.cats.contains(&C_RECALL) {
                            recalls += 1;
                        }
                    }
                    (plan.render(), obs)
                }
                1 => {
                    let (op, obs) = s.opaque(g);
                    if let Err(f) = opaque_expectation(&op, &obs) {
                        return Outcome::Fail(f);
                    }
                    if matches!(op, Opaque::ProtectedWithdraw { .. }) {
                        g.label("has_protected_withdraw");
                    }
                    if obs.run.is_success() {
                        opaque_ok += 1;
                    }
                    (format!("{:?}", op), obs)
                }
                _ => {
                    epochs += 1;
                    ("next_round".to_string(), s.next_round())
                }
            };
            let o = match obs.outcome() {
                Ok(o) => o,
                Err(f) => return Outcome::Fail(f),
            };
            match o {
                Outcome3::Failure => failed += 1,
                Outcome3::Rejected => rejected += 1,
                _ => {}
            }
            log.push(format!("{} -> {}", what, match o { Outcome3::Success => "ok", Outcome3::Failure => "failed", Outcome3::Rejected => "rejected" }));
            let ctx = |log: &Vec<String>| {
                let from = log.len().saturating_sub(6);
                format!("history of {} transactions, last: {}", log.len(), log[from..].join(" || "))
            };
            if o == Outcome3::Rejected {
                ensure!(obs.before == obs.after, "rejected transaction changed vaults or supplies", "{}", ctx(&log));
                continue;
            }
            // after every commit: supply == sum of vaults, no negative balance, nf count == ids stored
            let problems = s.totals.supply_problems();
            ensure!(problems.is_empty(), "after a commit: total supply != sum of vaults, negative balance, or non-fungible count != ids stored", "{:?}; {}", &problems[..problems.len().min(4)], ctx(&log));
            // the event model, fed only with the simulator's collected events
            let last = step + 1 == len;
            if last || g.chance(1, 4) {
                let events = s.w.sim.collected_events();
                for tx in &events[applied_upto..] {
                    for e in tx {
                        replay.apply(e);
                    }
                }
                applied_upto = events.len();
                let diff = replay.diff(&s.totals);
                ensure!(diff.is_empty(), "replaying all mint / burn / vault events does not reproduce the stored supplies and balances", "{:?}; {}", &diff[..diff.len().min(4)], ctx(&log));
                g.count("event_replays", 1);
            }
        }
        // second opinion: the repository's own checkers (disagreement with the scan = harness bug).
        // ResourceDatabaseChecker has `todo!()` arms for stored FreezeStatus fields, so it cannot
        // be run on a ledger holding a freezable fungible resource (the standard world has one);
        // the event checker can, and is compared with the scan the way ResourceReconciler does.
        if g.chance(1, 3) {
            let sim = &s.w.sim;
            let r = catch(|| sim.check_events::<ResourceEventChecker>().map_err(|e| format!("{:?}", e)));
            match r {
                Ok(Ok(ev)) => {
                    for (v, amount) in ev.vault_amounts.iter().filter(|(_, a)| a.is_positive()) {
                        let mine = s.totals.fungible_vaults.get(v).map(|x| x.1).or(s.totals.non_fungible_vaults.get(v).map(|x| x.1));
                        ensure!(mine == Some(*amount), "harness: scan and ResourceEventChecker disagree on a vault", "{:?}: {:?} vs {}", v, mine, amount);
                    }
                    let mine_positive = s.totals.fungible_vaults.values().filter(|x| x.1.is_positive()).count() + s.totals.non_fungible_vaults.values().filter(|x| x.1.is_positive()).count();
                    let theirs_positive = ev.vault_amounts.values().filter(|a| a.is_positive()).count();
                    ensure!(mine_positive == theirs_positive, "harness: scan and ResourceEventChecker see different sets of non-empty vaults", "{} vs {}", mine_positive, theirs_positive);
                    for (res, supply) in ev.total_supply.iter().filter(|(_, a)| a.is_positive()) {
                        ensure!(s.totals.held(res) == *supply, "harness: scan and ResourceEventChecker disagree on a supply", "{:?}: {} vs {}", res, s.totals.held(res), supply);
                    }
                }
                Ok(Err(e)) => return Outcome::fail("the repository's event checker rejects a history the harness accepts", format!("{} ; {}", e, log.join(" || "))),
                Err(p) => return Outcome::fail("the repository's event checker panics on a history the harness accepts", format!("{} ; {}", p, log.join(" || "))),
            }
            g.count("repo_checker_runs", 1);
        }
        g.count("transactions", len);
        g.count("failed_commits", failed as u64);
        g.count("rejected", rejected as u64);
        g.count("epoch_changes", epochs as u64);
        if failed > 0 {
            g.label("has_failed_commit");
        }
        if rejected > 0 {
            g.label("has_rejection");
        }
        if burns > 0 {
            g.label("has_burn");
        }
        if nf_burns > 0 {
            g.label("has_nf_burn");
        }
        if recalls > 0 {
            g.label("has_recall");
        }
        if epochs > 0 {
            g.label("has_epoch_change");
        }
        if opaque_ok > 0 {
            g.label("has_stake_or_pool");
        }
        if failed > 0 && burns > 0 && (epochs > 0 || opaque_ok > 0) {
            g.nontrivial();
        }
        g.sample(|| log.join(" || "));
        Outcome::Pass
    })
}

pub fn check() -> Check {
    Check::new(
        "C04",
        "Total supply always equals the sum of all vaults",
        "Histories of 5-30 (quick) / 5-60 (thorough) transactions on the standard world: generated manifests (as in C03, succeeding and failing), validator stake / unstake / claim, pool contribute / redeem, rejected transactions (fee lock too small, no fee lock), consensus rounds ending the epoch with emissions. After every commit the harness's own full scan (every vault and resource manager decoded from raw substates) must show supply == sum of vaults for every supply-tracking resource, no negative balance, non-fungible count == ids stored, no id in two vaults; on a sample of steps and always at the end a second model fed only with the simulator's collected events from genesis on (mint / burn / deposit / withdraw / recall / pay-fee) must reproduce every stored vault balance or id set, every recorded supply and, for every resource (also XRD, whose supply is not recorded), the sum of its vaults. A third of the histories is also given to the repository's ResourceDatabaseChecker / ResourceEventChecker / ResourceReconciler as a second opinion. Non-trivial = history with a failed commit, a burn, and an epoch change or stake/pool operation.",
    )
    .part(Part::new("history", 150, 0, 3000, |g| case(g, 30)))
    .part(Part::new("long_history", 0, 5000, 6000, |g| case(g, 60)))
    .min_nontrivial_pct(20.0)
}
