#!/opt/veriftools/pyvenv/bin/python
import json, jsonschema, sys, glob
m=json.load(open('/verif/MANIFEST.json')); s=json.load(open('/root/.vp/MANIFEST.schema.json'))
jsonschema.validate(m,s); print("manifest ok:", len(m["checks"]), "checks")
s=json.load(open('/root/.vp/EVIDENCE.schema.json'))
bad=0
for c in m["checks"]:
    f='/verif/'+c["evidence_file"]
    try:
        e=json.load(open(f)); jsonschema.validate(e,s)
        assert e["level"]==c["level_claimed"]["category"], "level mismatch"
    except Exception as ex:
        bad+=1; print("EVIDENCE PROBLEM", f, str(ex)[:200])
print("evidence files bad:", bad)
sys.exit(1 if bad else 0)
