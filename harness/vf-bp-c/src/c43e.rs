//! C43, part "empty-data": the same property on non-fungible resources whose data type has no
//! fields (`()`), Integer and String ids, all roles open. Created by this part's own world
//! `build_fn`; histories of mint / burn / re-mint / update / get / exists judged by a model
//! {ever-minted set, live set}.

use scrypto_test::prelude::*;
use std::collections::{BTreeMap, BTreeSet};
use vf_core::{Gen, Outcome, Part};
use vf_world::*;

type Id = NonFungibleLocalId;

#[derive(Clone)]
struct EmptyRes {
    resources: Vec<(ResourceAddress, NonFungibleIdType)>,
}

/// 6 ids per resource: the first three are minted at world creation (account 0), the others never.
fn pool(t: NonFungibleIdType) -> Vec<Id> {
    match t {
        NonFungibleIdType::Integer => vec![Id::integer(1), Id::integer(2), Id::integer(3), Id::integer(100), Id::integer(101), Id::integer(102)],
        _ => vec![
            Id::string("e1").unwrap(),
            Id::string("e2").unwrap(),
            Id::string("e3").unwrap(),
            Id::string("x").unwrap(),
            Id::string("y").unwrap(),
            Id::string("z").unwrap(),
        ],
    }
}

fn build(w: &mut World) {
    let a0 = w.accounts[0].address;
    let mut resources = Vec::new();
    for id_type in [NonFungibleIdType::Integer, NonFungibleIdType::String] {
        let roles = NonFungibleResourceRoles {
            mint_roles: mint_roles! { minter => rule!(allow_all); minter_updater => rule!(deny_all); },
            burn_roles: burn_roles! { burner => rule!(allow_all); burner_updater => rule!(deny_all); },
            non_fungible_data_update_roles: non_fungible_data_update_roles! {
                non_fungible_data_updater => rule!(allow_all);
                non_fungible_data_updater_updater => rule!(deny_all);
            },
            ..Default::default()
        };
        let entries: BTreeMap<Id, ()> = pool(id_type).into_iter().take(3).map(|id| (id, ())).collect();
        let manifest = ManifestBuilder::new()
            .lock_fee_from_faucet()
            .create_non_fungible_resource(OwnerRole::None, id_type, true, roles, metadata!(), Some(entries))
            .try_deposit_entire_worktop_or_abort(a0, None)
            .build();
        let receipt = w.sim.execute_manifest(manifest, vec![]);
        let address = receipt.expect_commit(true).new_resource_addresses()[0];
        resources.push((address, id_type));
    }
    w.set_ext(EmptyRes { resources });
}

/// Live ids of the raw data partition (entries with a value) + decoding problems.
fn read_raw(db: &InMemorySubstateDatabase, res: ResourceAddress) -> (BTreeSet<Id>, Vec<String>) {
    let mut live = BTreeSet::new();
    let mut problems = Vec::new();
    let partition = MAIN_BASE_PARTITION.at_offset(PartitionOffset(1u8)).unwrap();
    for (key, entry) in db.list_map_values::<KeyValueEntrySubstate<ScryptoValue>>(res.as_node_id(), partition, None::<&MapKey>) {
        let id = match scrypto_decode::<Id>(&key) {
            Ok(id) => id,
            Err(e) => {
                problems.push(format!("data partition key {} is not a local id: {:?}", hex::encode(&key), e));
                continue;
            }
        };
        if let Some(v) = entry.into_value() {
            if scrypto_decode::<()>(&scrypto_encode(&v).unwrap()).is_err() {
                problems.push(format!("data of {} is not the empty tuple: {:?}", id, v));
            }
            live.insert(id);
        }
    }
    (live, problems)
}

fn pick_id(g: &mut Gen, pool: &[Id], other: &[Id], ever: &BTreeSet<Id>, live: &BTreeMap<Id, bool>) -> Id {
    match g.weighted(&[6, 4, 1]) {
        0 => g.pick(pool).clone(),
        1 => {
            let burned: Vec<&Id> = ever.iter().filter(|id| !live.contains_key(*id)).collect();
            if burned.is_empty() {
                g.pick(pool).clone()
            } else {
                (*g.pick(&burned)).clone()
            }
        }
        _ => g.pick(other).clone(),
    }
}

enum Q {
    Exists(Id, bool),
    Unit(Id),
}

fn query_instruction_indexes(m: &TransactionManifestV1) -> Vec<usize> {
    m.instructions
        .iter()
        .enumerate()
        .filter_map(|(i, ins)| match ins {
            InstructionV1::CallMethod(c)
                if c.method_name == NON_FUNGIBLE_RESOURCE_MANAGER_GET_NON_FUNGIBLE_IDENT || c.method_name == NON_FUNGIBLE_RESOURCE_MANAGER_EXISTS_IDENT =>
            {
                Some(i)
            }
            _ => None,
        })
        .collect()
}

fn run_case(g: &mut Gen, w: &mut World) -> Outcome {
    let ext = w.ext::<EmptyRes>().clone();
    let a0 = w.accounts[0].address;
    let proofs = vec![w.accounts[0].badge()];
    let ri = g.index(ext.resources.len());
    let (addr, id_type) = ext.resources[ri];
    let own_pool = pool(id_type);
    let other_pool = pool(if id_type == NonFungibleIdType::Integer { NonFungibleIdType::String } else { NonFungibleIdType::Integer });
    g.label(if id_type == NonFungibleIdType::Integer { "empty data, Integer ids" } else { "empty data, String ids" });

    // model: ever-minted set; live ids (true = currently on the worktop of the transaction being built)
    let mut ever: BTreeSet<Id> = own_pool.iter().take(3).cloned().collect();
    let mut live: BTreeMap<Id, bool> = ever.iter().map(|id| (id.clone(), false)).collect();
    {
        let (raw_live, problems) = read_raw(w.db(), addr);
        if !problems.is_empty() || raw_live != ever {
            return Outcome::fail("harness: the frozen world's empty-data resource is not its initial supply", format!("{:?} {:?}", raw_live, problems));
        }
    }
    let mut log: Vec<String> = Vec::new();
    let mut budget = 1 + g.len(19);
    let mut txs = 0u64;
    while budget > 0 {
        let k = (1 + g.index(3)).min(budget);
        let mut t_ever = ever.clone();
        let mut t_live = live.clone();
        let mut b = ManifestBuilder::new().lock_fee_from_faucet();
        let mut queries: Vec<Q> = Vec::new();
        let mut expected_failure: Option<&'static str> = None;
        let mut rendered: Vec<String> = Vec::new();
        let mut n = 0usize;
        for _ in 0..k {
            budget -= 1;
            let mut kind = g.weighted(&[2, 1, 6, 5, 2]);
            if kind == 3 && t_live.is_empty() {
                kind = 0;
            }
            let verdict: Result<(), &'static str> = match kind {
                0 => {
                    let id = pick_id(g, &own_pool, &other_pool, &t_ever, &t_live);
                    rendered.push(format!("non_fungible_exists {}", id));
                    b = b.call_method(addr, NON_FUNGIBLE_RESOURCE_MANAGER_EXISTS_IDENT, NonFungibleResourceManagerExistsInput { id: id.clone() });
                    let e = t_live.contains_key(&id);
                    g.label(if e {
                        "ok: non_fungible_exists of a live id"
                    } else if t_ever.contains(&id) {
                        "ok: non_fungible_exists of a burned id"
                    } else {
                        "ok: non_fungible_exists of a never-minted id"
                    });
                    queries.push(Q::Exists(id, e));
                    Ok(())
                }
                1 => {
                    let id = pick_id(g, &own_pool, &other_pool, &t_ever, &t_live);
                    rendered.push(format!("get_non_fungible {}", id));
                    b = b.call_method(addr, NON_FUNGIBLE_RESOURCE_MANAGER_GET_NON_FUNGIBLE_IDENT, NonFungibleResourceManagerGetNonFungibleInput { id: id.clone() });
                    if t_live.contains_key(&id) {
                        queries.push(Q::Unit(id));
                        Ok(())
                    } else {
                        Err("get_non_fungible of an id that is not live")
                    }
                }
                2 => {
                    let mut ids: Vec<Id> = vec![pick_id(g, &own_pool, &other_pool, &t_ever, &t_live)];
                    if g.chance(1, 4) {
                        let second = pick_id(g, &own_pool, &other_pool, &t_ever, &t_live);
                        if !ids.contains(&second) {
                            ids.push(second);
                        }
                    }
                    rendered.push(format!("mint {{{}}}", ids.iter().map(|i| i.to_string()).collect::<Vec<_>>().join(", ")));
                    b = b.mint_non_fungible(addr, ids.iter().cloned().map(|id| (id, ())));
                    let mut v = Ok(());
                    for id in &ids {
                        if id.id_type() != id_type {
                            v = Err("mint of an id of the wrong id type");
                            break;
                        }
                        if t_live.contains_key(id) {
                            v = Err("mint of a live id");
                            break;
                        }
                        if t_ever.contains(id) {
                            v = Err("re-mint of a burned id");
                            g.nontrivial();
                            g.label(if ever.contains(id) && !live.contains_key(id) {
                                "re-mint of an id burned in an earlier transaction"
                            } else {
                                "re-mint of an id burned in the same transaction"
                            });
                            break;
                        }
                        t_ever.insert(id.clone());
                        t_live.insert(id.clone(), true);
                    }
                    if v.is_ok() {
                        g.label("ok: mint of fresh explicit ids");
                    }
                    v
                }
                3 => {
                    let cands: Vec<Id> = t_live.keys().cloned().collect();
                    let id = g.pick(&cands).clone();
                    let on_worktop = t_live[&id];
                    if !on_worktop && g.bool() {
                        rendered.push(format!("burn-in-vault {}", id));
                        b = b.burn_non_fungibles_in_account(a0, addr, [id.clone()]);
                        g.label("ok: burn inside a vault");
                    } else {
                        rendered.push(format!("burn-bucket {}{}", id, if on_worktop { " (from the worktop)" } else { "" }));
                        if !on_worktop {
                            b = b.withdraw_non_fungibles_from_account(a0, addr, [id.clone()]);
                        }
                        n += 1;
                        let name = format!("burn{}", n);
                        b = b.take_non_fungibles_from_worktop(addr, [id.clone()], &name).burn_resource(&name);
                        g.label("ok: burn from a bucket");
                    }
                    t_live.remove(&id);
                    Ok(())
                }
                _ => {
                    let id = pick_id(g, &own_pool, &other_pool, &t_ever, &t_live);
                    let field = *g.pick(&["a", "b", "", "0"]);
                    rendered.push(format!("update {} .{:?} = 5", id, field));
                    b = b.update_non_fungible_data(addr, id, field, 5u64);
                    Err("update of an unknown field")
                }
            };
            if let Err(reason) = verdict {
                g.label(reason);
                expected_failure = Some(reason);
                break;
            }
        }
        txs += 1;
        log.push(format!("tx{}[{}]", txs, rendered.join("; ")));
        let manifest = b.try_deposit_entire_worktop_or_abort(a0, None).build();
        let qidx = query_instruction_indexes(&manifest);
        let run = w.run(manifest, proofs.clone());
        let hist = format!("{:?} ids, empty data; history: {}", id_type, log.join(" | "));
        if let Some(p) = &run.panic {
            return Outcome::fail("host panic while executing a non-fungible resource transaction", format!("{}; {}", p, hist));
        }
        if !run.is_commit() {
            return Outcome::fail("harness: generated transaction was not committed", format!("{}; {}", run.outcome_string(), hist));
        }
        match (expected_failure, run.is_success()) {
            (Some(reason), true) => {
                let sig = match reason {
                    "mint of a live id" | "re-mint of a burned id" => "mint of an id that was minted before succeeds",
                    "mint of an id of the wrong id type" => "mint with an id of another type than the resource's id type succeeds",
                    "update of an unknown field" => "update_non_fungible_data of a field that is not declared mutable succeeds",
                    _ => "get_non_fungible of an id that is not live succeeds",
                };
                return Outcome::fail(sig, format!("expected failure ({}) of the last instruction, got CommitSuccess; {}", reason, hist));
            }
            (Some(_), false) => {}
            (None, false) => {
                return Outcome::fail("transaction of operations the model allows fails", format!("{}; {}", run.outcome_string(), hist));
            }
            (None, true) => {
                let outputs: Vec<InstructionOutput> = match &run.commit().unwrap().outcome {
                    TransactionOutcome::Success(o) => o.clone(),
                    _ => unreachable!(),
                };
                if qidx.len() != queries.len() {
                    return Outcome::fail("harness: query bookkeeping", format!("{} vs {}", qidx.len(), queries.len()));
                }
                for (q, ix) in queries.iter().zip(qidx.iter()) {
                    let bytes = match outputs.get(*ix) {
                        Some(InstructionOutput::CallReturn(b)) => b.clone(),
                        other => return Outcome::fail("harness: query instruction without output", format!("{:?}", other)),
                    };
                    match q {
                        Q::Exists(id, e) => {
                            let got: Result<bool, _> = scrypto_decode(&bytes);
                            if got.as_ref().ok() != Some(e) {
                                return Outcome::fail(
                                    "non_fungible_exists disagrees with the model's live set",
                                    format!("id {}: expected {}, got {:?}; {}", id, e, got, hist),
                                );
                            }
                        }
                        Q::Unit(id) => {
                            let got: Result<(), _> = scrypto_decode(&bytes);
                            if got.is_err() {
                                return Outcome::fail("get_non_fungible disagrees with the model's data", format!("id {}: expected (), got {:?}; {}", id, got, hist));
                            }
                        }
                    }
                }
                ever = t_ever;
                live = t_live.into_keys().map(|id| (id, false)).collect();
            }
        }
        // stored state equals the model (after a failed transaction: the unchanged model)
        let (raw_live, problems) = read_raw(w.db(), addr);
        if !problems.is_empty() {
            return Outcome::fail("non-fungible data partition holds an entry that does not decode", format!("{:?}; {}", problems, hist));
        }
        let model_live: BTreeSet<Id> = live.keys().cloned().collect();
        if raw_live != model_live {
            return Outcome::fail(
                "stored non-fungible data differs from the model {ever-minted, live, data}",
                format!("stored {:?}, model {:?}; {}", raw_live, model_live, hist),
            );
        }
        if raw_live.iter().any(|id| id.id_type() != id_type) {
            return Outcome::fail("non-fungible data partition holds an id of another id type than the resource's", format!("{:?}; {}", raw_live, hist));
        }
        let scan = Totals::scan(w.db());
        if !scan.problems.is_empty() {
            return Outcome::fail("ledger scan: a non-fungible is held twice or a vault is inconsistent", format!("{:?}; {}", scan.problems, hist));
        }
        let in_vaults = scan.non_fungible_ids.get(&addr).cloned().unwrap_or_default();
        if in_vaults != model_live {
            return Outcome::fail("ids held in vaults differ from the live ids of the model", format!("in vaults {:?}, model {:?}; {}", in_vaults, model_live, hist));
        }
    }
    g.count("transactions", txs);
    g.sample(|| format!("{:?} ids, empty data: {}", id_type, log.join(" | ")));
    Outcome::Pass
}

fn case(g: &mut Gen) -> Outcome {
    with_world("c43-empty-data", no_genesis, build, |w| run_case(g, w))
}

pub fn part() -> Part {
    Part::new("empty-data", 1_500, 90_000, 300, case)
}
