//! R5 — sparse-Merkle reference commitment.
//!
//! `state_root(model)` recomputes, from nothing but the current set of substates, the commitment
//! that the 3-tier Jellyfish Merkle tree of `/repo/radix-substate-store-impls/src/state_tree`
//! maintains incrementally. Derived by reading `types.rs` (`LeafNode::leaf_hash`,
//! `InternalNode::merkle_hash`, `SPARSE_MERKLE_PLACEHOLDER_HASH`) and the three tier files:
//!
//! * one tier = binary sparse Merkle tree over the bits (MSB first) of the leaf key bytes:
//!   no leaf → 32 zero bytes; exactly one leaf below a position → `blake2b256(key ‖ value_hash)`
//!   (the leaf sits at the highest position where it is alone); otherwise
//!   `blake2b256(left ‖ right)`;
//! * substate tier: key = db sort key, value hash = `blake2b256(substate value)`;
//!   partition tier: key = the one partition byte, value hash = root of the substate tier;
//!   entity tier: key = db node key, value hash = root of the partition tier;
//!   an empty lower tier has no leaf in the upper tier.
//!
//! The recursion never builds nodes, versions or batches, uses the `blake2` crate directly and
//! shares no code with `radix_common::hash` or the tree.
//!
//! Precondition (same as the tree's, see `LeafKey` in `types.rs` and [`crate::model::KeyRegime`]):
//! within one tier no key is a proper prefix of another. `tier_root` panics when it is violated.

use crate::model::ModelDb;
use blake2::digest::consts::U32;
use blake2::{Blake2b, Digest};

pub type H = [u8; 32];
pub const ZERO: H = [0u8; 32];

pub fn blake2b256(parts: &[&[u8]]) -> H {
    let mut h = Blake2b::<U32>::new();
    for p in parts {
        h.update(p);
    }
    h.finalize().into()
}

fn bit(key: &[u8], i: usize) -> bool {
    assert!(i / 8 < key.len(), "sparse-Merkle reference: a leaf key is a prefix of another (precondition violated)");
    (key[i / 8] >> (7 - i % 8)) & 1 == 1
}

/// Root of one tier. `leaves` sorted by key (ascending, byte-lexicographic), keys distinct and prefix-free.
pub fn tier_root(leaves: &[(Vec<u8>, H)]) -> H {
    fn rec(leaves: &[(Vec<u8>, H)], depth: usize) -> H {
        match leaves {
            [] => ZERO,
            [(key, value_hash)] => blake2b256(&[key, value_hash]),
            _ => {
                let split = leaves.partition_point(|(k, _)| !bit(k, depth));
                blake2b256(&[&rec(&leaves[..split], depth + 1), &rec(&leaves[split..], depth + 1)])
            }
        }
    }
    rec(leaves, 0)
}

/// The state root committing to exactly the substates of `model` (all-zero for the empty state).
pub fn state_root(model: &ModelDb) -> H {
    let mut entities: Vec<(Vec<u8>, H)> = Vec::new();
    let mut partitions: Vec<(Vec<u8>, H)> = Vec::new();
    let mut current: Option<&Vec<u8>> = None;
    for ((node_key, partition_num), substates) in &model.parts {
        if current != Some(node_key) {
            if let Some(prev) = current {
                entities.push((prev.clone(), tier_root(&partitions)));
                partitions.clear();
            }
            current = Some(node_key);
        }
        let leaves: Vec<(Vec<u8>, H)> = substates.iter().map(|(k, v)| (k.clone(), blake2b256(&[v]))).collect();
        partitions.push((vec![*partition_num], tier_root(&leaves)));
    }
    if let Some(prev) = current {
        entities.push((prev.clone(), tier_root(&partitions)));
    }
    tier_root(&entities)
}

/// `{(node key, partition, sort key) ↦ blake2b256(value)}` of the model.
pub fn value_hashes(model: &ModelDb) -> std::collections::BTreeMap<(Vec<u8>, u8, Vec<u8>), H> {
    let mut out = std::collections::BTreeMap::new();
    for ((n, p), substates) in &model.parts {
        for (k, v) in substates {
            out.insert((n.clone(), *p, k.clone()), blake2b256(&[v]));
        }
    }
    out
}

/// True when no key of the (sorted, distinct) list is a proper prefix of another.
pub fn prefix_free(sorted_keys: &[Vec<u8>]) -> bool {
    sorted_keys.windows(2).all(|w| !w[1].starts_with(&w[0]))
}

#[cfg(test)]
mod tests {
    use super::*;

    #[test]
    fn blake2b256_known_vector() {
        // BLAKE2b-256("abc") from the reference implementation's test vectors
        assert_eq!(
            hex::encode(blake2b256(&[b"abc"])),
            "bddd813c634239723171ef3fee98579b94964e3bb1cb3e427262c8c068d52319"
        );
    }

    #[test]
    fn shapes() {
        assert_eq!(tier_root(&[]), ZERO);
        let a = (vec![0x00u8], [1u8; 32]);
        let b = (vec![0x80u8], [2u8; 32]);
        let la = blake2b256(&[&a.0, &a.1]);
        let lb = blake2b256(&[&b.0, &b.1]);
        assert_eq!(tier_root(&[a.clone()]), la);
        assert_eq!(tier_root(&[a.clone(), b.clone()]), blake2b256(&[&la, &lb]));
        // two keys sharing the first bit: one more level, empty sibling is the zero hash
        let c = (vec![0x40u8], [3u8; 32]);
        let lc = blake2b256(&[&c.0, &c.1]);
        let inner = blake2b256(&[&la, &lc]);
        assert_eq!(tier_root(&[a, c]), blake2b256(&[&inner, &ZERO]));
    }
}
