//! C33 Only valid signatures authorize a transaction.

use crate::payload::{render_partial, render_v2};
use crate::refhash;
use crate::txgen::*;
use radix_common::prelude::*;
use radix_transactions::prelude::*;
use radix_transactions::validation::*;
use std::collections::BTreeSet;
use vf_core::{catch, ensure, Check, Gen, Outcome, Part};

pub fn validator() -> TransactionValidator {
    TransactionValidator::new_with_static_config(TransactionValidationConfig::latest(), NETWORK)
}

// ---- reference validator --------------------------------------------------------------------

fn key_bytes(k: &PublicKey) -> Vec<u8> {
    match k {
        PublicKey::Secp256k1(p) => {
            let mut v = vec![0u8];
            v.extend_from_slice(&p.0);
            v
        }
        PublicKey::Ed25519(p) => {
            let mut v = vec![1u8];
            v.extend_from_slice(&p.0);
            v
        }
    }
}

type KeySet = BTreeSet<Vec<u8>>;

fn keyset<'a>(keys: impl IntoIterator<Item = &'a PublicKey>) -> KeySet {
    keys.into_iter().map(key_bytes).collect()
}

/// Which key (if any) does this signature prove over `h`, using the primitives directly.
fn ref_recover(h: &Hash, s: &SignatureWithPublicKeyV1) -> Option<PublicKey> {
    match s {
        SignatureWithPublicKeyV1::Secp256k1 { signature } => {
            // NB: recovery yields *some* key for almost every (r, s, id) - the key under which the
            // signature is valid by construction; it is the signer only for an untouched signature.
            // (Recovery does not require a low-S signature, unlike verify_secp256k1, so the
            // recovered key is not re-verified here.)
            let pk = verify_and_recover_secp256k1(h, signature)?;
            Some(PublicKey::Secp256k1(pk))
        }
        SignatureWithPublicKeyV1::Ed25519 { public_key, signature } => {
            if verify_ed25519(h, public_key, signature) {
                Some(PublicKey::Ed25519(*public_key))
            } else {
                None
            }
        }
    }
}

fn ref_verify(h: &Hash, k: &PublicKey, s: &SignatureV1) -> bool {
    match (k, s) {
        (PublicKey::Secp256k1(k), SignatureV1::Secp256k1(s)) => verify_secp256k1(h, k, s),
        (PublicKey::Ed25519(k), SignatureV1::Ed25519(s)) => verify_ed25519(h, k, s),
        _ => false,
    }
}

struct NotaryView<'a> {
    key: &'a PublicKey,
    is_signatory: bool,
    signature: &'a SignatureV1,
    signed_hash: Hash,
    /// V1 lets a signatory notary also appear among the signers; V2 does not.
    may_duplicate_signer: bool,
}

/// Ok(signer key sets per intent, root first) or the reason the signatures do not authorize.
fn reference(root: (&Hash, &[IntentSignatureV1]), subs: &[(Hash, &[IntentSignatureV1])], notary: Option<NotaryView>) -> Result<Vec<KeySet>, &'static str> {
    let mut out = Vec::new();
    let per_intent = |h: &Hash, sigs: &[IntentSignatureV1]| -> Result<KeySet, &'static str> {
        let mut set = KeySet::new();
        for s in sigs {
            let k = ref_recover(h, &s.0).ok_or("an intent signature does not verify over its intent hash")?;
            if !set.insert(key_bytes(&k)) {
                return Err("duplicate signer");
            }
        }
        Ok(set)
    };
    let mut root_set = per_intent(root.0, root.1)?;
    if let Some(n) = notary {
        if !ref_verify(&n.signed_hash, n.key, n.signature) {
            return Err("the notary signature does not verify over the signed intent hash");
        }
        if n.is_signatory && !root_set.insert(key_bytes(n.key)) && !n.may_duplicate_signer {
            return Err("signatory notary is also a signer");
        }
    }
    out.push(root_set);
    for (h, sigs) in subs {
        out.push(per_intent(h, sigs)?);
    }
    Ok(out)
}

// ---- signature plans ------------------------------------------------------------------------

#[derive(Clone, Debug)]
enum HashSel {
    Random([u8; 32]),
    SignedIntent,
    Root,
    Sub(usize),
}

#[derive(Clone, Debug)]
enum SigSpec {
    Good(KeyRef),
    OverHash(KeyRef, HashSel),
    /// ed25519 signature by `.0` carrying the public key of `.1`
    EdClaims(u8, u8),
    /// secp256k1 signature by key idx with the recovery-id byte replaced
    RecId(u8, u8),
    Corrupt(KeyRef, usize, u8),
}

impl SigSpec {
    fn is_fault(&self) -> bool {
        !matches!(self, SigSpec::Good(_))
    }
}

struct Hashes {
    root: Hash,
    subs: Vec<Hash>,
    /// signed-intent hash of the *correctly signed* transaction (a plausible wrong hash to sign)
    signed: Hash,
}

fn select(h: &Hashes, sel: &HashSel) -> Hash {
    match sel {
        HashSel::Random(b) => Hash(*b),
        HashSel::SignedIntent => h.signed,
        HashSel::Root => h.root,
        HashSel::Sub(i) => h.subs.get(*i).copied().unwrap_or(h.signed),
    }
}

fn make_sig(spec: &SigSpec, own: &Hash, h: &Hashes) -> SignatureWithPublicKeyV1 {
    match spec {
        SigSpec::Good(k) => k.sign_with_public_key(own),
        SigSpec::OverHash(k, sel) => k.sign_with_public_key(&select(h, sel)),
        SigSpec::EdClaims(signer, claimed) => {
            let sig = keys().ed[*signer as usize].0.sign(own);
            SignatureWithPublicKeyV1::Ed25519 { public_key: keys().ed[*claimed as usize].1, signature: sig }
        }
        SigSpec::RecId(k, id) => {
            let mut sig = keys().secp[*k as usize].0.sign(own);
            sig.0[0] = *id;
            SignatureWithPublicKeyV1::Secp256k1 { signature: sig }
        }
        SigSpec::Corrupt(k, pos, bit) => {
            let mut s = k.sign_with_public_key(own);
            match &mut s {
                SignatureWithPublicKeyV1::Secp256k1 { signature } => {
                    // keep the recovery id byte out of it (RecId covers that)
                    let p = 1 + pos % 64;
                    signature.0[p] ^= 1 << (bit % 8);
                }
                SignatureWithPublicKeyV1::Ed25519 { public_key, signature } => {
                    let p = pos % 96;
                    if p < 64 {
                        signature.0[p] ^= 1 << (bit % 8);
                    } else {
                        public_key.0[p - 64] ^= 1 << (bit % 8);
                    }
                }
            }
            s
        }
    }
}

/// Draws the signature list of one intent. `own_index`: None = root, Some(i) = subintent i.
fn gen_specs(g: &mut Gen, faulty: bool, own_index: Option<usize>, n_subs: usize, notary: Option<KeyRef>, max: usize) -> Vec<SigSpec> {
    let mut n = g.len(max);
    if faulty && n == 0 {
        n = 1;
    }
    let mut specs: Vec<SigSpec> = Vec::new();
    let mut used: Vec<KeyRef> = Vec::new();
    for _ in 0..n {
        let fresh = {
            let mut ex = used.clone();
            if let Some(nk) = notary {
                ex.push(nk);
            }
            draw_distinct_keys(g, 1, &ex).first().copied().unwrap_or(KeyRef { ed: false, idx: 0 })
        };
        let spec = if !faulty {
            SigSpec::Good(fresh)
        } else {
            match g.weighted(&[8, 3, 2, 2, 2, 2, 2]) {
                0 => SigSpec::Good(fresh),
                1 => {
                    // over a different hash
                    let sel = match g.below(4) {
                        0 => HashSel::Random(g.array::<32>()),
                        1 => HashSel::SignedIntent,
                        2 if own_index.is_some() => HashSel::Root,
                        _ => {
                            if n_subs == 0 {
                                HashSel::SignedIntent
                            } else {
                                let mut j = g.index(n_subs);
                                if Some(j) == own_index {
                                    j = (j + 1) % n_subs;
                                }
                                if Some(j) == own_index {
                                    HashSel::SignedIntent
                                } else {
                                    HashSel::Sub(j)
                                }
                            }
                        }
                    };
                    SigSpec::OverHash(fresh, sel)
                }
                2 => {
                    let a = g.below(POOL as u64) as u8;
                    let mut b = g.below(POOL as u64) as u8;
                    if a == b {
                        b = (b + 1) % POOL as u8;
                    }
                    SigSpec::EdClaims(a, b)
                }
                3 => SigSpec::RecId(
                    g.below(POOL as u64) as u8,
                    match g.below(4) {
                        0 => g.below(4) as u8,
                        1 => 4,
                        2 => 0xff,
                        _ => g.u8(),
                    },
                ),
                4 => SigSpec::Corrupt(fresh, g.below(96) as usize, g.below(8) as u8),
                5 => {
                    // duplicate an earlier signer (or the fresh one if none)
                    match used.first() {
                        Some(k) => SigSpec::Good(*k),
                        None => SigSpec::Good(fresh),
                    }
                }
                _ => match notary {
                    Some(nk) => SigSpec::Good(nk),
                    None => SigSpec::Good(fresh),
                },
            }
        };
        if let SigSpec::Good(k) = &spec {
            used.push(*k);
        }
        specs.push(spec);
    }
    specs
}

#[derive(Clone, Debug)]
enum NotarySpec {
    Good,
    OverIntentHash,
    OverRandom([u8; 32]),
    ByOtherKey(KeyRef),
    Corrupt(usize, u8),
    /// recovery id byte replaced (secp256k1 notary only; 0..=3 do not matter to verify_secp256k1)
    RecId(u8),
}

fn make_notary_sig(spec: &NotarySpec, notary: KeyRef, signed: &Hash, intent: &Hash) -> SignatureV1 {
    match spec {
        NotarySpec::Good => notary.sign(signed),
        NotarySpec::OverIntentHash => notary.sign(intent),
        NotarySpec::OverRandom(b) => notary.sign(&Hash(*b)),
        NotarySpec::ByOtherKey(k) => k.sign(signed),
        NotarySpec::Corrupt(pos, bit) => {
            let mut s = notary.sign(signed);
            match &mut s {
                SignatureV1::Secp256k1(x) => x.0[1 + pos % 64] ^= 1 << (bit % 8),
                SignatureV1::Ed25519(x) => x.0[pos % 64] ^= 1 << (bit % 8),
            }
            s
        }
        NotarySpec::RecId(id) => {
            let mut s = notary.sign(signed);
            if let SignatureV1::Secp256k1(x) = &mut s {
                x.0[0] = *id;
            }
            s
        }
    }
}

fn gen_notary_spec(g: &mut Gen, faulty: bool, notary: KeyRef) -> NotarySpec {
    if !faulty || g.chance(2, 3) {
        return NotarySpec::Good;
    }
    match g.below(5) {
        0 => NotarySpec::OverIntentHash,
        1 => NotarySpec::OverRandom(g.array::<32>()),
        2 => {
            let k = draw_distinct_keys(g, 1, &[notary]);
            NotarySpec::ByOtherKey(k[0])
        }
        3 => NotarySpec::Corrupt(g.below(64) as usize, g.below(8) as u8),
        _ => NotarySpec::RecId(match g.below(3) {
            0 => g.below(4) as u8,
            1 => 4,
            _ => g.u8(),
        }),
    }
}

// ---- observed result ------------------------------------------------------------------------

#[derive(Clone, Debug, PartialEq, Eq)]
struct Observed {
    intent_hashes: Vec<Hash>,
    instructions: Vec<Vec<u8>>,
    signers: Vec<KeySet>,
    /// whether any intent's IndexSet had a different length than its key set (cannot happen for a set)
    executable_proofs: Vec<BTreeSet<NonFungibleGlobalId>>,
}

fn observe_user(v: ValidatedUserTransaction) -> Observed {
    match v {
        ValidatedUserTransaction::V1(v) => {
            let ih = v.prepared.transaction_intent_hash().0;
            let signers = vec![keyset(v.signer_keys.iter())];
            let instructions = vec![v.encoded_instructions.clone()];
            let ex = v.create_executable();
            Observed { intent_hashes: vec![ih], instructions, signers, executable_proofs: ex.all_intents().map(|i| i.auth_zone_init.initial_non_fungible_id_proofs.clone()).collect() }
        }
        ValidatedUserTransaction::V2(v) => {
            let mut intent_hashes = vec![v.prepared.transaction_intent_hash().0];
            intent_hashes.extend(v.prepared.non_root_subintent_hashes().iter().map(|h| h.0));
            let mut signers = vec![keyset(v.transaction_intent_info.signer_keys.iter())];
            signers.extend(v.non_root_subintents_info.iter().map(|i| keyset(i.signer_keys.iter())));
            let mut instructions = vec![v.transaction_intent_info.encoded_instructions.clone()];
            instructions.extend(v.non_root_subintents_info.iter().map(|i| i.encoded_instructions.clone()));
            let ex = v.create_executable();
            Observed { intent_hashes, instructions, signers, executable_proofs: ex.all_intents().map(|i| i.auth_zone_init.initial_non_fungible_id_proofs.clone()).collect() }
        }
    }
}

fn validate_raw(raw: &[u8], v: &TransactionValidator) -> Result<Result<Observed, String>, String> {
    let raw = RawNotarizedTransaction::from_vec(raw.to_vec());
    catch(|| raw.validate(v).map(observe_user).map_err(|e| format!("{:?}", e)))
}

fn proofs_of(sets: &[KeySet]) -> Vec<BTreeSet<NonFungibleGlobalId>> {
    sets.iter()
        .map(|s| {
            s.iter()
                .map(|kb| {
                    let k = if kb[0] == 0 { PublicKey::Secp256k1(Secp256k1PublicKey(kb[1..].try_into().unwrap())) } else { PublicKey::Ed25519(Ed25519PublicKey(kb[1..].try_into().unwrap())) };
                    NonFungibleGlobalId::from_public_key(&k)
                })
                .collect()
        })
        .collect()
}

fn compare(entry: &str, expect: &Result<Vec<KeySet>, &'static str>, got: &Result<Observed, String>, expected_hashes: &[Hash], detail: &dyn Fn() -> String) -> Outcome {
    match (expect, got) {
        (Ok(sets), Ok(obs)) => {
            ensure!(
                &obs.signers == sets,
                format!("{}: signer keys of an accepted transaction are not exactly the keys whose signatures verified", entry),
                "expected {:?}\nactual {:?}\n{}",
                sets,
                obs.signers,
                detail()
            );
            ensure!(
                obs.executable_proofs == proofs_of(sets),
                format!("{}: the executable's initial signature proofs are not exactly the verified signer set", entry),
                "expected {:?}\nactual {:?}\n{}",
                proofs_of(sets),
                obs.executable_proofs,
                detail()
            );
            ensure!(
                obs.intent_hashes == expected_hashes,
                format!("{}: intent hashes of the validated transaction differ from the reference hashes", entry),
                "expected {:?} actual {:?}\n{}",
                expected_hashes,
                obs.intent_hashes,
                detail()
            );
            Outcome::Pass
        }
        (Err(_), Err(_)) => Outcome::Pass,
        (Err(why), Ok(obs)) => Outcome::fail(
            format!("{}: accepted although {}", entry, why),
            format!("validation returned signer sets {:?}\n{}", obs.signers, detail()),
        ),
        (Ok(_), Err(e)) => Outcome::fail(format!("{}: a transaction whose signatures all verify is rejected", entry), format!("error {}\n{}", e, detail())),
    }
}

// ---- part 1: generated signature lists ------------------------------------------------------

fn sig_case_v1(g: &mut Gen) -> Outcome {
    let o = Opts { max_body: 2, ..Opts::default() };
    let notary = KeyRef::draw(g);
    let intent = gen_intent_v1(g, notary, &o);
    let faulty = g.chance(3, 5);
    let ih = refhash::v1_intent(&intent);
    // hash a correctly signed twin would have (a plausible wrong hash to sign)
    let specs = gen_specs(g, faulty, None, 0, Some(notary), 3);
    let hashes = Hashes { root: ih, subs: vec![], signed: refhash::h(&ih.0) };
    let signatures: Vec<IntentSignatureV1> = specs.iter().map(|s| IntentSignatureV1(make_sig(s, &ih, &hashes))).collect();
    let signed_intent = SignedIntentV1 { intent, intent_signatures: IntentSignaturesV1 { signatures } };
    let sh = refhash::v1_signed(&signed_intent);
    let nspec = gen_notary_spec(g, faulty, notary);
    let tx = NotarizedTransactionV1 { signed_intent, notary_signature: NotarySignatureV1(make_notary_sig(&nspec, notary, &sh, &ih)) };
    g.label("v1");
    let any_fault = specs.iter().any(|s| s.is_fault()) || !matches!(nspec, NotarySpec::Good);
    let header = &tx.signed_intent.intent.header;
    let notary_signs = specs.iter().any(|s| matches!(s, SigSpec::Good(k) if *k == notary));
    if notary_signs {
        g.label(if header.notary_is_signatory { "notary signs and is signatory" } else { "notary signs, not signatory" });
        g.nontrivial();
    }
    if any_fault {
        g.label("has incorrect signature");
        g.nontrivial();
    }
    // both live configurations let a signatory V1 notary also sign; the switch is exercised both ways
    let allow_dup = !g.chance(1, 4);
    let v1_validator = TransactionValidator::new_with_static_config(
        TransactionValidationConfig { v1_transactions_allow_notary_to_duplicate_signer: allow_dup, ..TransactionValidationConfig::latest() },
        NETWORK,
    );
    if !allow_dup {
        g.label("config: v1 notary may not duplicate a signer");
    }
    let expect = reference(
        (&ih, &tx.signed_intent.intent_signatures.signatures),
        &[],
        Some(NotaryView { key: &header.notary_public_key, is_signatory: header.notary_is_signatory, signature: &tx.notary_signature.0, signed_hash: sh, may_duplicate_signer: allow_dup }),
    );
    g.label(if expect.is_ok() { "reference: valid" } else { "reference: invalid" });
    let raw = tx.to_raw().unwrap().to_vec();
    g.sample(|| format!("V1: signatures {:?}, notary {} {:?} signatory={}; reference verdict {:?}", specs, notary.short(), nspec, header.notary_is_signatory, expect.as_ref().map(|_| "valid")));
    let got = match validate_raw(&raw, &v1_validator) {
        Ok(r) => r,
        Err(p) => return Outcome::fail("validate (v1) panics", format!("{}\npayload {}", p, hex::encode(&raw))),
    };
    compare("validate v1", &expect, &got, &[ih], &|| format!("signatures {:?} notary {:?}\npayload {}", specs, nspec, hex::encode(&raw)))
}

fn sig_case_v2(g: &mut Gen) -> Outcome {
    let o = Opts { max_body: 2, max_subintents: 3, ..Opts::default() };
    let plan = gen_tree(g, o.max_subintents, o.max_depth);
    let c = gen_common(g);
    let tree = build_tree(g, &plan, None, c, &o);
    let notary = KeyRef::draw(g);
    let transaction_header = gen_transaction_header_v2(g, notary);
    let intent = TransactionIntentV2 { transaction_header, root_intent_core: tree.root_core, non_root_subintents: NonRootSubintentsV2(tree.subintents) };
    let (ih, subs) = refhash::v2_intent(&intent);
    let faulty = g.chance(3, 5);
    let n = plan.len();
    // at most one or two intents get faulty lists, so that single causes dominate
    let faulty_intent = if faulty { g.index(n + 2) } else { usize::MAX };
    let root_specs = gen_specs(g, faulty_intent == 0, None, n, Some(notary), 3);
    let sub_specs: Vec<Vec<SigSpec>> = (0..n).map(|i| gen_specs(g, faulty_intent == i + 1, Some(i), n, None, 2)).collect();
    let hashes = Hashes { root: ih, subs: subs.clone(), signed: refhash::h(&ih.0) };
    let transaction_intent_signatures = IntentSignaturesV2 { signatures: root_specs.iter().map(|s| IntentSignatureV1(make_sig(s, &ih, &hashes))).collect() };
    let mut by_subintent: Vec<IntentSignaturesV2> =
        sub_specs.iter().enumerate().map(|(i, ss)| IntentSignaturesV2 { signatures: ss.iter().map(|s| IntentSignatureV1(make_sig(s, &subs[i], &hashes))).collect() }).collect();
    // misplaced batches: swap the signature batches of two subintents
    let mut swapped = false;
    if faulty && n >= 2 && g.chance(1, 6) {
        by_subintent.swap(0, n - 1);
        swapped = by_subintent[0] != by_subintent[n - 1];
    }
    let signed = SignedTransactionIntentV2 { transaction_intent: intent, transaction_intent_signatures, non_root_subintent_signatures: NonRootSubintentSignaturesV2 { by_subintent } };
    let (sh, _, _) = refhash::v2_signed(&signed);
    let nspec = gen_notary_spec(g, faulty_intent == n + 1, notary);
    let tx = NotarizedTransactionV2 { signed_transaction_intent: signed, notary_signature: NotarySignatureV2(make_notary_sig(&nspec, notary, &sh, &ih)) };
    g.label("v2");
    let any_fault = swapped || root_specs.iter().any(|s| s.is_fault()) || sub_specs.iter().any(|ss| ss.iter().any(|s| s.is_fault())) || !matches!(nspec, NotarySpec::Good);
    let st = &tx.signed_transaction_intent;
    let header = &st.transaction_intent.transaction_header;
    let notary_signs = root_specs.iter().any(|s| matches!(s, SigSpec::Good(k) if *k == notary));
    if notary_signs {
        g.label(if header.notary_is_signatory { "notary signs and is signatory" } else { "notary signs, not signatory" });
        g.nontrivial();
    }
    if swapped {
        g.label("swapped signature batches");
    }
    if any_fault {
        g.label("has incorrect signature");
        if n >= 1 {
            g.nontrivial();
        }
    }
    if n >= 1 {
        g.label("has subintents");
    }
    let sub_views: Vec<(Hash, &[IntentSignatureV1])> = subs.iter().zip(st.non_root_subintent_signatures.by_subintent.iter()).map(|(h, b)| (*h, b.signatures.as_slice())).collect();
    let expect = reference(
        (&ih, &st.transaction_intent_signatures.signatures),
        &sub_views,
        Some(NotaryView { key: &header.notary_public_key, is_signatory: header.notary_is_signatory, signature: &tx.notary_signature.0, signed_hash: sh, may_duplicate_signer: false }),
    );
    g.label(if expect.is_ok() { "reference: valid" } else { "reference: invalid" });
    let raw = tx.to_raw().unwrap().to_vec();
    g.sample(|| {
        format!(
            "V2 parents={:?}: root signatures {:?}, subintent signatures {:?}{}, notary {} {:?} signatory={}; reference verdict {:?}",
            plan.parent,
            root_specs,
            sub_specs,
            if swapped { " (batches swapped)" } else { "" },
            notary.short(),
            nspec,
            header.notary_is_signatory,
            expect.as_ref().map(|_| "valid")
        )
    });
    let got = match validate_raw(&raw, &validator()) {
        Ok(r) => r,
        Err(p) => return Outcome::fail("validate (v2) panics", format!("{}\npayload {}", p, hex::encode(&raw))),
    };
    let mut expected_hashes = vec![ih];
    expected_hashes.extend(subs.iter().cloned());
    compare("validate v2", &expect, &got, &expected_hashes, &|| {
        format!("root {:?} subs {:?} swapped={} notary {:?}\npayload {}", root_specs, sub_specs, swapped, nspec, hex::encode(&raw))
    })
}

fn sig_case_partial(g: &mut Gen) -> Outcome {
    let o = Opts { max_body: 2, max_subintents: 3, ..Opts::default() };
    let plan = gen_tree(g, o.max_subintents, o.max_depth - 1);
    let c = gen_common(g);
    let tree = build_tree(g, &plan, Some(1), c, &o);
    let p = PartialTransactionV2 { root_subintent: SubintentV2 { intent_core: tree.root_core }, non_root_subintents: NonRootSubintentsV2(tree.subintents) };
    let (rh, subs) = refhash::partial(&p);
    let n = plan.len();
    let faulty = g.chance(3, 5);
    let faulty_intent = if faulty { g.index(n + 1) } else { usize::MAX };
    let root_specs = gen_specs(g, faulty_intent == 0, None, n, None, 3);
    let sub_specs: Vec<Vec<SigSpec>> = (0..n).map(|i| gen_specs(g, faulty_intent == i + 1, Some(i), n, None, 2)).collect();
    let hashes = Hashes { root: rh, subs: subs.clone(), signed: refhash::h(&rh.0) };
    let tx = SignedPartialTransactionV2 {
        partial_transaction: p,
        root_subintent_signatures: IntentSignaturesV2 { signatures: root_specs.iter().map(|s| IntentSignatureV1(make_sig(s, &rh, &hashes))).collect() },
        non_root_subintent_signatures: NonRootSubintentSignaturesV2 {
            by_subintent: sub_specs.iter().enumerate().map(|(i, ss)| IntentSignaturesV2 { signatures: ss.iter().map(|s| IntentSignatureV1(make_sig(s, &subs[i], &hashes))).collect() }).collect(),
        },
    };
    g.label("partial");
    let any_fault = root_specs.iter().any(|s| s.is_fault()) || sub_specs.iter().any(|ss| ss.iter().any(|s| s.is_fault()));
    if any_fault {
        g.label("has incorrect signature");
        if n >= 1 {
            g.nontrivial();
        }
    }
    let sub_views: Vec<(Hash, &[IntentSignatureV1])> = subs.iter().zip(tx.non_root_subintent_signatures.by_subintent.iter()).map(|(h, b)| (*h, b.signatures.as_slice())).collect();
    let expect = reference((&rh, &tx.root_subintent_signatures.signatures), &sub_views, None);
    g.label(if expect.is_ok() { "reference: valid" } else { "reference: invalid" });
    g.sample(|| format!("partial parents={:?}: root signatures {:?}, subintent signatures {:?}; reference verdict {:?}", plan.parent, root_specs, sub_specs, expect.as_ref().map(|_| "valid")));
    let v = validator();
    let got = catch(|| {
        tx.prepare_and_validate(&v)
            .map(|v| {
                let mut intent_hashes = vec![v.prepared.subintent_hash().0];
                intent_hashes.extend(v.prepared.non_root_subintent_hashes().map(|h| h.0));
                let mut signers = vec![keyset(v.root_subintent_info.signer_keys.iter())];
                signers.extend(v.non_root_subintents_info.iter().map(|i| keyset(i.signer_keys.iter())));
                let mut instructions = vec![v.root_subintent_info.encoded_instructions.clone()];
                instructions.extend(v.non_root_subintents_info.iter().map(|i| i.encoded_instructions.clone()));
                let executable_proofs = proofs_of(&signers);
                Observed { intent_hashes, instructions, signers, executable_proofs }
            })
            .map_err(|e| format!("{:?}", e))
    });
    let got = match got {
        Ok(r) => r,
        Err(p) => return Outcome::fail("validate (signed partial) panics", format!("{}\npayload {}", p, hex::encode(tx.to_raw().unwrap().as_slice()))),
    };
    let mut expected_hashes = vec![rh];
    expected_hashes.extend(subs.iter().cloned());
    compare("validate signed partial", &expect, &got, &expected_hashes, &|| format!("root {:?} subs {:?}\npayload {}", root_specs, sub_specs, hex::encode(tx.to_raw().unwrap().as_slice())))
}

fn signatures(g: &mut Gen) -> Outcome {
    match g.weighted(&[3, 6, 2]) {
        0 => sig_case_v1(g),
        1 => sig_case_v2(g),
        _ => sig_case_partial(g),
    }
}

// ---- part 2: exhaustive single-byte mutation sweeps -----------------------------------------

/// Byte ranges of the raw payload that hold signature / public key material (located by searching
/// for the known byte strings).
fn crypto_ranges(raw: &[u8], needles: &[Vec<u8>]) -> Vec<(usize, usize)> {
    let mut out = Vec::new();
    for n in needles {
        if n.is_empty() || n.len() > raw.len() {
            continue;
        }
        let mut i = 0;
        while i + n.len() <= raw.len() {
            if &raw[i..i + n.len()] == n.as_slice() {
                out.push((i, i + n.len()));
                i += n.len();
            } else {
                i += 1;
            }
        }
    }
    out
}

fn sig_bytes(s: &SignatureWithPublicKeyV1) -> Vec<Vec<u8>> {
    match s {
        SignatureWithPublicKeyV1::Secp256k1 { signature } => vec![signature.0.to_vec()],
        SignatureWithPublicKeyV1::Ed25519 { public_key, signature } => vec![signature.0.to_vec(), public_key.0.to_vec()],
    }
}

fn sweep(g: &mut Gen) -> Outcome {
    let o = Opts { max_body: 1, max_subintents: 2, max_signers: 2, ..Opts::default() };
    let (raw, needles, render, intents) = if g.chance(2, 5) {
        let b = gen_v1(g, &o);
        let mut needles: Vec<Vec<u8>> = b.tx.signed_intent.intent_signatures.signatures.iter().flat_map(|s| sig_bytes(&s.0)).collect();
        needles.push(match &b.tx.notary_signature.0 {
            SignatureV1::Secp256k1(s) => s.0.to_vec(),
            SignatureV1::Ed25519(s) => s.0.to_vec(),
        });
        needles.push(key_bytes(&b.tx.signed_intent.intent.header.notary_public_key)[1..].to_vec());
        (b.tx.to_raw().unwrap().to_vec(), needles, crate::payload::case_v1(crate::payload::Kind::NotarizedV1, &b).render, 1)
    } else {
        let b = gen_v2(g, &o);
        let st = &b.tx.signed_transaction_intent;
        let mut needles: Vec<Vec<u8>> = st.transaction_intent_signatures.signatures.iter().flat_map(|s| sig_bytes(&s.0)).collect();
        for batch in &st.non_root_subintent_signatures.by_subintent {
            needles.extend(batch.signatures.iter().flat_map(|s| sig_bytes(&s.0)));
        }
        needles.push(match &b.tx.notary_signature.0 {
            SignatureV1::Secp256k1(s) => s.0.to_vec(),
            SignatureV1::Ed25519(s) => s.0.to_vec(),
        });
        needles.push(key_bytes(&st.transaction_intent.transaction_header.notary_public_key)[1..].to_vec());
        (b.tx.to_raw().unwrap().to_vec(), needles, render_v2(&b), 1 + b.plan.len())
    };
    let v = validator();
    let base = match validate_raw(&raw, &v) {
        Ok(Ok(o)) => o,
        Ok(Err(e)) => return Outcome::fail("validate: a correctly signed generated transaction is rejected", format!("{}\n{}\npayload {}", e, render, hex::encode(&raw))),
        Err(p) => return Outcome::fail("validate panics", format!("{}\npayload {}", p, hex::encode(&raw))),
    };
    let ranges = crypto_ranges(&raw, &needles);
    let in_crypto = |i: usize| ranges.iter().any(|(a, b)| i >= *a && i < *b);
    let seed = g.u8();
    g.label(if intents > 1 { "sweep: v2 with subintents" } else { "sweep: single intent" });
    g.nontrivial();
    g.sample(|| format!("exhaustive single-byte sweep over {} bytes ({} bytes of signature/key material) of {}", raw.len(), (0..raw.len()).filter(|i| in_crypto(*i)).count(), render));
    let mut accepted = 0u64;
    let mut crypto_hits = 0u64;
    let mut total_mutants = 0u64;
    let mut m = raw.clone();
    for i in 0..raw.len() {
        let bit = (seed as usize + i * 5) % 8;
        let variants = [raw[i] ^ (1 << bit), raw[i].wrapping_add(1), raw[i] ^ 0xff];
        let n_var = if in_crypto(i) { 3 } else { 2 };
        for (vi, val) in variants.iter().take(n_var).enumerate() {
            if vi > 0 && variants[..vi].contains(val) {
                continue;
            }
            m[i] = *val;
            total_mutants += 1;
            if in_crypto(i) {
                crypto_hits += 1;
            }
            match validate_raw(&m, &v) {
                Err(p) => return Outcome::fail("validate panics on a single-byte mutant", format!("{}\noffset {} value {:#04x}\noriginal {}", p, i, val, hex::encode(&raw))),
                Ok(Err(_)) => {}
                Ok(Ok(obs)) => {
                    accepted += 1;
                    ensure!(
                        obs.intent_hashes == base.intent_hashes && obs.instructions == base.instructions && obs.signers == base.signers && obs.executable_proofs == base.executable_proofs,
                        "validate: a single-byte mutant of a valid transaction is accepted with different content or signer set",
                        "offset {} ({}) byte {:#04x} -> {:#04x}\noriginal {}\nsigners before {:?}\nsigners after  {:?}\nintent hashes before {:?}\nintent hashes after  {:?}\n{}",
                        i,
                        if in_crypto(i) { "inside signature/key material" } else { "outside signature/key material" },
                        raw[i],
                        val,
                        hex::encode(&raw),
                        base.signers,
                        obs.signers,
                        base.intent_hashes,
                        obs.intent_hashes,
                        render
                    );
                }
            }
        }
        m[i] = raw[i];
    }
    g.count("single-byte mutants", total_mutants);
    g.count("mutants inside signature/key material", crypto_hits);
    g.count("mutants accepted unchanged", accepted);
    Outcome::Pass
}

pub fn check() -> Check {
    let _ = render_partial;
    Check::new(
        "C33",
        "Only valid signatures authorize a transaction",
        "part signatures: V1 / V2 (0-3 nested subintents) / signed partial transactions whose per-intent signature lists are drawn from: correct signatures, signatures over another hash (random, signed-intent, root, sibling/parent subintent), ed25519 signatures carrying another key, secp256k1 signatures with recovery id 0-3 / invalid, one flipped bit in signature or key, duplicated signers, the notary also signing (notary_is_signatory both ways), swapped subintent signature batches, and notary signatures that are correct / over the intent hash / over a random hash / by another key / corrupted / with altered recovery id. A reference validator calls the curve primitives directly over the harness's reference hashes and decides validity and the exact signer key set per intent; validate() must agree in both directions, and the executable's initial proofs must be exactly that set. part sweep: for small valid notarized transactions every byte offset is mutated (2-3 values per offset): the mutant is rejected, or intent hashes, encoded instructions, signer key sets and executable proofs are all unchanged. Non-trivial = transaction with >= 2 intents and an incorrect or misplaced signature, or the notary among the signers, or a sweep (every sweep hits signature/key bytes).",
    )
    .assume("the curve primitives of radix-common are the reference for single-signature validity (C48 checks them)")
    .assume("sweeps cover notarized transactions only: a signed partial transaction has no notary, and flipping a secp256k1 recovery id there yields a valid signature of an unrelated key by construction of ECDSA recovery")
    .part(Part::new("signatures", 120_000, 5_000_000, 1500, signatures))
    .part(Part::new("sweep", 3_000, 100_000, 1500, sweep))
    .min_nontrivial_pct(20.0)
}
