//! R6: the engine world. Built once per thread and per key from `LedgerSimulatorBuilder`
//! (latest protocol, in-memory database, puppet extension), populated with accounts / resources /
//! puppet packages, snapshotted; every case restores the snapshot and runs its history.

use crate::puppet::*;
use radix_transactions::manifest::BuildableManifest;
use scrypto_test::prelude::*;
use std::any::Any;
use std::cell::RefCell;
use std::collections::HashMap;

pub type Sim = LedgerSimulator<PuppetExtension, InMemorySubstateDatabase>;

#[derive(Clone, Debug)]
pub enum Key {
    /// public key + private key bytes (the repo's private key types are not Clone)
    Secp(Secp256k1PublicKey, Vec<u8>),
    Ed(Ed25519PublicKey, Vec<u8>),
}

impl Key {
    pub fn public(&self) -> PublicKey {
        match self {
            Key::Secp(p, _) => PublicKey::Secp256k1(*p),
            Key::Ed(p, _) => PublicKey::Ed25519(*p),
        }
    }
    pub fn badge(&self) -> NonFungibleGlobalId {
        NonFungibleGlobalId::from_public_key(&self.public())
    }
    pub fn secp_private(&self) -> Option<Secp256k1PrivateKey> {
        match self {
            Key::Secp(_, b) => Secp256k1PrivateKey::from_bytes(b).ok(),
            _ => None,
        }
    }
    pub fn ed_private(&self) -> Option<Ed25519PrivateKey> {
        match self {
            Key::Ed(_, b) => Ed25519PrivateKey::from_bytes(b).ok(),
            _ => None,
        }
    }
}

#[derive(Clone, Debug)]
pub struct Account {
    pub address: ComponentAddress,
    pub key: Key,
    pub preallocated: bool,
}

impl Account {
    pub fn badge(&self) -> NonFungibleGlobalId {
        self.key.badge()
    }
}

#[derive(Clone, Copy, Debug, PartialEq, Eq)]
pub enum Gate {
    /// rule!(allow_all)
    Open,
    /// rule!(require(world.badge)) — the fungible badge held by account 0
    Badge,
    /// rule!(deny_all) / role absent
    Closed,
}

#[derive(Clone, Debug)]
pub struct Fungible {
    pub address: ResourceAddress,
    pub divisibility: u8,
    pub mint: Gate,
    pub burn: Gate,
    pub recall: Gate,
    pub freeze: Gate,
}

#[derive(Clone, Debug)]
pub struct NonFungible {
    pub address: ResourceAddress,
    pub id_type: NonFungibleIdType,
    pub mint: Gate,
    pub burn: Gate,
    pub recall: Gate,
    pub update_data: Gate,
    /// ids minted at world creation, in account order (a few per account); empty for RUID resources'
    /// unknown ids until read from the ledger
    pub initial_ids: Vec<(usize, NonFungibleLocalId)>,
}

/// Non-fungible data used by every world NF resource: one immutable and two mutable fields.
#[derive(ScryptoSbor, ManifestSbor, NonFungibleData, Clone, Debug, PartialEq, Eq)]
pub struct NfData {
    pub a: u64,
    #[mutable]
    pub b: String,
    #[mutable]
    pub c: u64,
}

pub struct World {
    pub sim: Sim,
    snapshot: Option<LedgerSimulatorSnapshot>,
    pub accounts: Vec<Account>,
    /// fungible badge (divisibility 0, supply 10) held by account 0; gates `Gate::Badge` roles
    pub badge: ResourceAddress,
    pub fungibles: Vec<Fungible>,
    pub non_fungibles: Vec<NonFungible>,
    pub puppet_p: PackageAddress,
    pub puppet_q: PackageAddress,
    /// per-check additions made by the `build` callback (set with `set_ext`)
    ext: Option<Box<dyn Any>>,
}

pub struct Run {
    pub receipt: Option<TransactionReceipt>,
    /// host panic message, if executing the transaction panicked
    pub panic: Option<String>,
}

impl Run {
    pub fn receipt(&self) -> &TransactionReceipt {
        self.receipt.as_ref().expect("transaction panicked")
    }
    pub fn is_success(&self) -> bool {
        self.receipt.as_ref().map(|r| r.is_commit_success()).unwrap_or(false)
    }
    pub fn is_commit(&self) -> bool {
        self.receipt.as_ref().map(|r| matches!(r.result, TransactionResult::Commit(_))).unwrap_or(false)
    }
    pub fn commit(&self) -> Option<&CommitResult> {
        match &self.receipt.as_ref()?.result {
            TransactionResult::Commit(c) => Some(c),
            _ => None,
        }
    }
    /// Short description of the outcome (for messages).
    pub fn outcome_string(&self) -> String {
        match (&self.panic, &self.receipt) {
            (Some(p), _) => format!("HOST PANIC: {}", p),
            (None, Some(r)) => match &r.result {
                TransactionResult::Commit(c) => match &c.outcome {
                    TransactionOutcome::Success(_) => "CommitSuccess".to_string(),
                    TransactionOutcome::Failure(e) => format!("CommitFailure({:?})", e),
                },
                TransactionResult::Reject(r) => format!("Reject({:?})", r.reason),
                TransactionResult::Abort(a) => format!("Abort({:?})", a.reason),
            },
            _ => "no receipt".into(),
        }
    }
    pub fn failure(&self) -> Option<&RuntimeError> {
        match &self.commit()?.outcome {
            TransactionOutcome::Failure(e) => Some(e),
            _ => None,
        }
    }
}

fn gate_rule(g: Gate, badge: ResourceAddress) -> AccessRule {
    match g {
        Gate::Open => rule!(allow_all),
        Gate::Badge => rule!(require(badge)),
        Gate::Closed => rule!(deny_all),
    }
}

impl World {
    /// Bare world: genesis only (optionally custom genesis settings), no accounts or resources.
    pub fn bare(genesis: Option<BabylonSettings>) -> World {
        let mut builder = LedgerSimulatorBuilder::new().with_custom_extension(PuppetExtension).without_kernel_trace().without_receipt_substate_check();
        if let Some(g) = genesis {
            builder = builder.with_custom_genesis(g);
        }
        let sim = builder.build();
        World {
            sim,
            snapshot: None,
            accounts: vec![],
            badge: XRD,
            fungibles: vec![],
            non_fungibles: vec![],
            puppet_p: PACKAGE_PACKAGE,
            puppet_q: PACKAGE_PACKAGE,
            ext: None,
        }
    }

    /// The standard world (see module docs of `lib.rs`).
    pub fn standard(genesis: Option<BabylonSettings>) -> World {
        let mut w = World::bare(genesis);
        w.populate();
        w
    }

    fn populate(&mut self) {
        // accounts: 0,1 secp preallocated; 2 ed25519 preallocated; 3 secp allocated (owner = signature)
        for i in 0..4 {
            let acct = match i {
                0 | 1 => {
                    let (pk, sk, a) = self.sim.new_preallocated_account();
                    Account { address: a, key: Key::Secp(pk, sk.to_bytes()), preallocated: true }
                }
                2 => {
                    let (pk, sk, a) = self.sim.new_ed25519_preallocated_account();
                    Account { address: a, key: Key::Ed(pk, sk.to_bytes()), preallocated: true }
                }
                _ => {
                    let (pk, sk, a) = self.sim.new_allocated_account();
                    Account { address: a, key: Key::Secp(pk, sk.to_bytes()), preallocated: false }
                }
            };
            self.accounts.push(acct);
        }
        let a0 = self.accounts[0].address;
        self.badge = self.sim.create_fungible_resource(dec!(10), 0, a0);
        let badge = self.badge;

        // fungibles
        let specs: [(u8, Gate, Gate, Gate, Gate); 5] = [
            (18, Gate::Open, Gate::Open, Gate::Closed, Gate::Closed),
            (0, Gate::Badge, Gate::Badge, Gate::Badge, Gate::Badge),
            (6, Gate::Closed, Gate::Closed, Gate::Closed, Gate::Closed),
            (1, Gate::Open, Gate::Badge, Gate::Closed, Gate::Closed),
            (17, Gate::Badge, Gate::Open, Gate::Badge, Gate::Closed),
        ];
        for (div, mint, burn, recall, freeze) in specs {
            let roles = FungibleResourceRoles {
                mint_roles: mint_roles! { minter => gate_rule(mint, badge); minter_updater => rule!(deny_all); },
                burn_roles: burn_roles! { burner => gate_rule(burn, badge); burner_updater => rule!(deny_all); },
                recall_roles: recall_roles! { recaller => gate_rule(recall, badge); recaller_updater => rule!(deny_all); },
                freeze_roles: freeze_roles! { freezer => gate_rule(freeze, badge); freezer_updater => rule!(deny_all); },
                ..Default::default()
            };
            let manifest = ManifestBuilder::new()
                .lock_fee_from_faucet()
                .create_fungible_resource(OwnerRole::None, true, div, roles, metadata!(), Some(dec!(100000)))
                .try_deposit_entire_worktop_or_abort(a0, None)
                .build();
            let receipt = self.sim.execute_manifest(manifest, vec![]);
            let address = receipt.expect_commit(true).new_resource_addresses()[0];
            self.fungibles.push(Fungible { address, divisibility: div, mint, burn, recall, freeze });
        }
        // spread fungibles to accounts 1..3
        for i in 1..self.accounts.len() {
            let mut b = ManifestBuilder::new().lock_fee_from_faucet();
            for f in &self.fungibles {
                b = b.withdraw_from_account(a0, f.address, dec!(10000));
            }
            let manifest = b.try_deposit_entire_worktop_or_abort(self.accounts[i].address, None).build();
            self.sim.execute_manifest(manifest, vec![self.accounts[0].badge()]).expect_commit_success();
        }

        // non-fungibles
        let nf_specs: [(NonFungibleIdType, Gate, Gate, Gate, Gate); 4] = [
            (NonFungibleIdType::Integer, Gate::Open, Gate::Open, Gate::Closed, Gate::Open),
            (NonFungibleIdType::String, Gate::Badge, Gate::Badge, Gate::Badge, Gate::Badge),
            (NonFungibleIdType::Bytes, Gate::Open, Gate::Open, Gate::Closed, Gate::Closed),
            (NonFungibleIdType::RUID, Gate::Open, Gate::Open, Gate::Closed, Gate::Open),
        ];
        for (id_type, mint, burn, recall, update) in nf_specs {
            let roles = NonFungibleResourceRoles {
                mint_roles: mint_roles! { minter => gate_rule(mint, badge); minter_updater => rule!(deny_all); },
                burn_roles: burn_roles! { burner => gate_rule(burn, badge); burner_updater => rule!(deny_all); },
                recall_roles: recall_roles! { recaller => gate_rule(recall, badge); recaller_updater => rule!(deny_all); },
                non_fungible_data_update_roles: non_fungible_data_update_roles! {
                    non_fungible_data_updater => gate_rule(update, badge);
                    non_fungible_data_updater_updater => rule!(deny_all);
                },
                ..Default::default()
            };
            let n_accounts = self.accounts.len();
            let mut initial_ids = Vec::new();
            let builder = ManifestBuilder::new().lock_fee_from_faucet();
            let builder = if id_type == NonFungibleIdType::RUID {
                let entries: Vec<NfData> = (0..(3 * n_accounts) as u64).map(|i| NfData { a: i, b: format!("b{}", i), c: i }).collect();
                builder.create_ruid_non_fungible_resource(OwnerRole::None, true, metadata!(), roles, Some(entries))
            } else {
                let mut entries = BTreeMap::new();
                for acct in 0..n_accounts {
                    for j in 0..3u64 {
                        let n = (acct as u64) * 10 + j + 1;
                        let id = match id_type {
                            NonFungibleIdType::Integer => NonFungibleLocalId::integer(n),
                            NonFungibleIdType::String => NonFungibleLocalId::string(format!("id_{}", n)).unwrap(),
                            _ => NonFungibleLocalId::bytes(vec![n as u8, 0xAB]).unwrap(),
                        };
                        initial_ids.push((acct, id.clone()));
                        entries.insert(id, NfData { a: n, b: format!("b{}", n), c: n });
                    }
                }
                builder.create_non_fungible_resource(OwnerRole::None, id_type, true, roles, metadata!(), Some(entries))
            };
            let manifest = builder.try_deposit_entire_worktop_or_abort(a0, None).build();
            let receipt = self.sim.execute_manifest(manifest, vec![]);
            let address = receipt.expect_commit(true).new_resource_addresses()[0];
            if id_type == NonFungibleIdType::RUID {
                // learn the generated ids from account 0's vault, assign 3 per account in id order
                let vault = self.sim.get_component_vaults(a0, address)[0];
                let ids: Vec<NonFungibleLocalId> = self
                    .sim
                    .inspect_non_fungible_vault(vault)
                    .map(|(_, it)| it.collect())
                    .unwrap_or_default();
                let mut ids = ids;
                ids.sort();
                for (k, id) in ids.into_iter().enumerate() {
                    initial_ids.push((k / 3, id));
                }
            }
            // move ids to their accounts
            for acct in 1..n_accounts {
                let ids: Vec<NonFungibleLocalId> =
                    initial_ids.iter().filter(|(a, _)| *a == acct).map(|(_, id)| id.clone()).collect();
                if ids.is_empty() {
                    continue;
                }
                let manifest = ManifestBuilder::new()
                    .lock_fee_from_faucet()
                    .withdraw_non_fungibles_from_account(a0, address, ids)
                    .try_deposit_entire_worktop_or_abort(self.accounts[acct].address, None)
                    .build();
                self.sim.execute_manifest(manifest, vec![self.accounts[0].badge()]).expect_commit_success();
            }
            self.non_fungibles.push(NonFungible { address, id_type, mint, burn, recall, update_data: update, initial_ids });
        }

        // puppet packages
        self.puppet_p = self.sim.publish_native_package(PUPPET_CODE_P, puppet_definition(PuppetAuth::default()));
        self.puppet_q = self.sim.publish_native_package(PUPPET_CODE_Q, puppet_definition(PuppetAuth::default()));
    }

    pub fn set_ext<T: Any>(&mut self, v: T) {
        self.ext = Some(Box::new(v));
    }
    pub fn ext<T: Any>(&self) -> &T {
        self.ext.as_ref().expect("world has no ext").downcast_ref::<T>().expect("world ext has another type")
    }

    /// Freeze the current state as the state every case starts from.
    pub fn freeze(&mut self) {
        self.snapshot = Some(self.sim.create_snapshot());
    }
    /// Back to the frozen state.
    pub fn reset(&mut self) {
        let s = self.snapshot.as_ref().expect("world not frozen").clone();
        self.sim.restore_snapshot(s);
    }

    pub fn db(&self) -> &InMemorySubstateDatabase {
        self.sim.substate_db()
    }

    /// Execute and commit a manifest as a test transaction with the given initial proofs (signer
    /// badges). Free credit is zero for test transactions. Host panics are caught.
    pub fn run(&mut self, manifest: TransactionManifestV1, proofs: Vec<NonFungibleGlobalId>) -> Run {
        let sim = &mut self.sim;
        match vf_core::catch(move || sim.execute_manifest(manifest, proofs)) {
            Ok(r) => Run { receipt: Some(r), panic: None },
            Err(p) => Run { receipt: None, panic: Some(p) },
        }
    }
    pub fn run_any(&mut self, manifest: impl BuildableManifest, proofs: Vec<NonFungibleGlobalId>) -> Run {
        let sim = &mut self.sim;
        match vf_core::catch(move || sim.execute_manifest(manifest, proofs)) {
            Ok(r) => Run { receipt: Some(r), panic: None },
            Err(p) => Run { receipt: None, panic: Some(p) },
        }
    }
    pub fn run_with_config(
        &mut self,
        manifest: TransactionManifestV1,
        proofs: Vec<NonFungibleGlobalId>,
        config: ExecutionConfig,
    ) -> Run {
        let sim = &mut self.sim;
        match vf_core::catch(move || sim.execute_manifest_with_execution_config(manifest, proofs, config)) {
            Ok(r) => Run { receipt: Some(r), panic: None },
            Err(p) => Run { receipt: None, panic: Some(p) },
        }
    }
    pub fn run_system(&mut self, manifest: SystemTransactionManifestV1, proofs: Vec<NonFungibleGlobalId>) -> Run {
        let sim = &mut self.sim;
        match vf_core::catch(move || sim.execute_system_transaction(manifest, proofs)) {
            Ok(r) => Run { receipt: Some(r), panic: None },
            Err(p) => Run { receipt: None, panic: Some(p) },
        }
    }
    pub fn run_notarized(&mut self, raw: RawNotarizedTransaction) -> Run {
        let sim = &mut self.sim;
        match vf_core::catch(move || {
            let validated = raw.validate(sim.transaction_validator());
            match validated {
                Ok(v) => Ok(sim.execute_transaction(
                    v.create_executable(),
                    ExecutionConfig::for_notarized_transaction(NetworkDefinition::simulator()),
                )),
                Err(e) => Err(format!("{:?}", e)),
            }
        }) {
            Ok(Ok(r)) => Run { receipt: Some(r), panic: None },
            Ok(Err(e)) => Run { receipt: None, panic: Some(format!("VALIDATION: {}", e)) },
            Err(p) => Run { receipt: None, panic: Some(p) },
        }
    }

    /// Calls a puppet function `run(script)` of package `pkg` inside a faucet-fee-locked manifest.
    pub fn puppet_manifest(&self, pkg: PackageAddress, script: &Script) -> TransactionManifestV1 {
        ManifestBuilder::new()
            .lock_fee_from_faucet()
            .call_function(pkg, PUPPET_BLUEPRINT, PUPPET_RUN, (script.clone_as_manifest_value(),))
            .build()
    }
}

impl Script {
    /// The script as a manifest value (scripts contain no buckets/proofs, so the Scrypto encoding
    /// re-read as a manifest value is faithful).
    pub fn clone_as_manifest_value(&self) -> ManifestValue {
        let bytes = scrypto_encode(self).unwrap();
        let v: ScryptoValue = scrypto_decode(&bytes).unwrap();
        radix_common::data::conversions::scrypto_value_to_manifest_value(v).expect("script has no owned nodes")
    }
}

thread_local! {
    static WORLDS: RefCell<HashMap<&'static str, World>> = RefCell::new(HashMap::new());
}

/// Run `f` on this thread's world for `key`, reset to its frozen state first. The world is created
/// on first use: `World::standard(genesis())` then `build(&mut world)` then frozen.
pub fn with_world<R>(
    key: &'static str,
    genesis: fn() -> Option<BabylonSettings>,
    build: fn(&mut World),
    f: impl FnOnce(&mut World) -> R,
) -> R {
    WORLDS.with(|cell| {
        let mut map = cell.borrow_mut();
        if !map.contains_key(key) {
            let mut w = World::standard(genesis());
            build(&mut w);
            w.freeze();
            map.insert(key, w);
        }
        let w = map.get_mut(key).unwrap();
        w.reset();
        f(w)
    })
}

pub fn no_genesis() -> Option<BabylonSettings> {
    None
}
pub fn no_build(_: &mut World) {}
