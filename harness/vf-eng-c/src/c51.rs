//! C51 Locked state stays locked forever.
//!
//! A case is a history: two set-up transactions create a global `Puppet` component `c` (three
//! fields, four key-value entries — some locked at creation —, metadata entries, royalty module,
//! owner role `Updatable` / `Fixed` / `None`) and a fungible resource `r` (one metadata entry locked
//! at creation, role `minter` with updater deny-all, role `burner` with an updater the owner
//! satisfies). Then 5–40 transactions, each aimed at one *item* (a field, a KV entry, a metadata
//! entry of `c` or `r`, a royalty setting, an owner role, a role entry): a lock operation by the
//! proper authority, or an update / removal / re-lock / unlock-like attempt, through the owning
//! blueprint's code (`act` scripts) or the module methods (`set`, `remove`, `lock`, `set_royalty`,
//! `lock_royalty`, `set_owner_role`, `lock_owner_role`, `set_role`), presenting no badge, the owner's
//! badge, or every badge of the world; epochs change in between.
//!
//! Oracle (a model of "locked" kept by the harness + raw substates):
//!  * an item is locked once a lock operation on it committed successfully, or when its raw
//!    substate carries the lock flag (locked at creation), or — for role entries — when its updater
//!    role is deny-all; after a committed lock operation the raw substate must carry the lock flag;
//!  * after every later commit the raw substate of every locked item is byte-identical to what it
//!    was when the item became locked;
//!  * a transaction whose operation is aimed at a locked item never commits successfully;
//!  * a well-formed update of an unlocked item by an authorised caller commits successfully.

use crate::env::*;
use crate::pup::*;
use crate::scan::hexn;
use radix_engine::system::system_substates::{FieldSubstate, KeyValueEntrySubstate, LockStatus};
use scrypto_test::prelude::*;
use std::collections::BTreeMap;
use vf_core::{Check, Gen, Outcome, Part};
use vf_world::*;

#[derive(Clone, PartialEq, Eq, PartialOrd, Ord, Debug)]
enum Item {
    Field(u8),
    Kv(u32),
    Meta(bool, String), // on the resource?
    Royalty(String),
    Owner(bool),
    Role(String), // main-module role of the resource
}

#[derive(Clone, Copy, PartialEq, Eq, Debug)]
enum Who {
    Nobody,
    Owner,
    Everyone,
}

#[derive(Clone, Copy, PartialEq, Eq, Debug)]
enum How {
    /// write / set a new value
    Update,
    Remove,
    Lock,
    /// lock and write through the same handle (leaves the item unlocked)
    LockThenWrite,
    /// write through a read-only handle
    WriteReadOnlyHandle,
    /// open with UNMODIFIED_BASE / FORCE_WRITE flags
    BadFlags,
}

struct Targets {
    c: ComponentAddress,
    r: ResourceAddress,
    owner_kind: u8, // 0 updatable, 1 fixed, 2 none
}

impl Targets {
    fn locate(&self, it: &Item) -> (NodeId, u8, DbSortKey) {
        let c = self.c.into_node_id();
        let r = self.r.into_node_id();
        let map = |b: Vec<u8>| SpreadPrefixKeyMapper::map_to_db_sort_key(&b);
        match it {
            Item::Field(f) => (c, 64, SpreadPrefixKeyMapper::field_to_db_sort_key(f)),
            Item::Kv(k) => (c, 65, map(enc(&v_u32(*k)))),
            Item::Meta(on_r, key) => (if *on_r { r } else { c }, 2, map(scrypto_encode(key).unwrap())),
            Item::Royalty(m) => (c, 4, map(scrypto_encode(m).unwrap())),
            Item::Owner(on_r) => (if *on_r { r } else { c }, 5, SpreadPrefixKeyMapper::field_to_db_sort_key(&0u8)),
            Item::Role(name) => (r, 6, map(scrypto_encode(&ModuleRoleKey::new(ModuleId::Main, name.as_str())).unwrap())),
        }
    }
}

fn raw(w: &World, t: &Targets, it: &Item) -> Option<Vec<u8>> {
    let (n, p, k) = t.locate(it);
    w.db().get_raw_substate_by_db_key(&SpreadPrefixKeyMapper::to_db_partition_key(&n, PartitionNumber(p)), &k)
}

fn flag_set(it: &Item, bytes: &Option<Vec<u8>>) -> bool {
    let Some(b) = bytes else { return false };
    match it {
        Item::Field(_) | Item::Owner(_) => scrypto_decode::<FieldSubstate<ScryptoValue>>(b).map(|f| matches!(f.lock_status(), LockStatus::Locked)).unwrap_or(false),
        _ => scrypto_decode::<KeyValueEntrySubstate<ScryptoValue>>(b).map(|e| e.is_locked()).unwrap_or(false),
    }
}

fn proofs(w: &World, who: Who) -> Vec<NonFungibleGlobalId> {
    match who {
        Who::Nobody => vec![],
        Who::Owner => vec![w.accounts[0].badge()],
        Who::Everyone => w.accounts.iter().map(|a| a.badge()).collect(),
    }
}

fn all_items() -> Vec<Item> {
    let mut v = vec![];
    for f in 0..3 {
        v.push(Item::Field(f));
    }
    for k in 1..=4 {
        v.push(Item::Kv(k));
    }
    for m in ["m1", "m2", "m3"] {
        v.push(Item::Meta(false, m.into()));
    }
    for m in ["name", "sym"] {
        v.push(Item::Meta(true, m.into()));
    }
    v.push(Item::Royalty(PUPPET_ACT.into()));
    v.push(Item::Royalty(PUPPET_PEEK.into()));
    v.push(Item::Owner(false));
    v.push(Item::Owner(true));
    v.push(Item::Role("minter".into()));
    v.push(Item::Role("minter_updater".into()));
    v.push(Item::Role("burner".into()));
    v
}

/// The transaction for (item, how, who); `None` when the combination does not exist.
fn attempt(w: &World, t: &Targets, it: &Item, how: How, who: Who, salt: u32) -> Option<(TransactionManifestV1, String)> {
    let mut mb = ManifestBuilder::new().lock_fee_from_faucet();
    if who == Who::Everyone {
        mb = mb.create_proof_from_account_of_amount(w.accounts[0].address, w.badge, dec!(1));
    }
    let newv = v_tuple(vec![v_u32(salt), v_str("new")]);
    let owner_rule = rule!(require(w.accounts[0].badge()));
    let text;
    let m = match it {
        Item::Field(f) => {
            let mut b = B::new();
            match how {
                How::Update => {
                    let h = b.op(Op::ActorOpenField { state: 0, field: *f, flags: 1 }, 1);
                    b.op(Op::FieldWrite(h, enc(&newv)), 1);
                    b.op(Op::FieldClose(h), 1);
                }
                How::Remove => return None,
                How::Lock => {
                    let h = b.op(Op::ActorOpenField { state: 0, field: *f, flags: 1 }, 1);
                    b.op(Op::FieldLock(h), 1);
                    b.op(Op::FieldClose(h), 1);
                }
                How::LockThenWrite => {
                    let h = b.op(Op::ActorOpenField { state: 0, field: *f, flags: 1 }, 1);
                    b.op(Op::FieldLock(h), 1);
                    b.op(Op::FieldWrite(h, enc(&newv)), 1);
                    b.op(Op::FieldClose(h), 1);
                }
                How::WriteReadOnlyHandle => {
                    let h = b.op(Op::ActorOpenField { state: 0, field: *f, flags: 0 }, 1);
                    if salt % 2 == 0 {
                        b.op(Op::FieldWrite(h, enc(&newv)), 1);
                    } else {
                        b.op(Op::FieldLock(h), 1);
                    }
                    b.op(Op::FieldClose(h), 1);
                }
                How::BadFlags => {
                    let h = b.op(Op::ActorOpenField { state: 0, field: *f, flags: [3u32, 5, 7][salt as usize % 3] }, 1);
                    b.op(Op::FieldWrite(h, enc(&newv)), 1);
                    b.op(Op::FieldClose(h), 1);
                }
            }
            text = format!("c.act:\n{}", render_ops(&b.ops));
            mb.call_method_raw(t.c, PUPPET_ACT, script_manifest_args(&b.script())).build()
        }
        Item::Kv(k) => {
            let key = enc(&v_u32(*k));
            let mut b = B::new();
            match how {
                How::Update => {
                    let h = b.op(Op::ActorOpenKv { state: 0, collection: PUPPET_COLL_KV, key, flags: 1 }, 1);
                    b.op(Op::KvSet(h, enc(&newv)), 1);
                    b.op(Op::KvClose(h), 1);
                }
                How::Remove => {
                    if salt % 2 == 0 {
                        b.op(Op::ActorRemoveKv { state: 0, collection: PUPPET_COLL_KV, key }, 1);
                    } else {
                        let h = b.op(Op::ActorOpenKv { state: 0, collection: PUPPET_COLL_KV, key, flags: 1 }, 1);
                        b.op(Op::KvRemove(h), 1);
                        b.op(Op::KvClose(h), 1);
                    }
                }
                How::Lock => {
                    let h = b.op(Op::ActorOpenKv { state: 0, collection: PUPPET_COLL_KV, key, flags: 1 }, 1);
                    b.op(Op::KvLock(h), 1);
                    b.op(Op::KvClose(h), 1);
                }
                How::LockThenWrite => {
                    let h = b.op(Op::ActorOpenKv { state: 0, collection: PUPPET_COLL_KV, key, flags: 1 }, 1);
                    b.op(Op::KvLock(h), 1);
                    b.op(Op::KvSet(h, enc(&newv)), 1);
                    b.op(Op::KvClose(h), 1);
                }
                How::WriteReadOnlyHandle => {
                    let h = b.op(Op::ActorOpenKv { state: 0, collection: PUPPET_COLL_KV, key, flags: 0 }, 1);
                    match salt % 3 {
                        0 => b.op(Op::KvSet(h, enc(&newv)), 1),
                        1 => b.op(Op::KvRemove(h), 1),
                        _ => b.op(Op::KvLock(h), 1),
                    };
                    b.op(Op::KvClose(h), 1);
                }
                How::BadFlags => {
                    let h = b.op(Op::ActorOpenKv { state: 0, collection: PUPPET_COLL_KV, key, flags: [3u32, 5, 7][salt as usize % 3] }, 1);
                    b.op(Op::KvSet(h, enc(&newv)), 1);
                    b.op(Op::KvClose(h), 1);
                }
            }
            text = format!("c.act:\n{}", render_ops(&b.ops));
            mb.call_method_raw(t.c, PUPPET_ACT, script_manifest_args(&b.script())).build()
        }
        Item::Meta(on_r, key) => {
            let target: GlobalAddress = if *on_r { t.r.into() } else { t.c.into() };
            text = format!("metadata {:?} of {} key {:?}", how, if *on_r { "r" } else { "c" }, key);
            match how {
                How::Update => mb.set_metadata(target, key.as_str(), MetadataValue::String(format!("v{}", salt))).build(),
                How::Remove => mb.set_metadata(target, key.as_str(), None::<MetadataValue>).build(),
                How::Lock => mb.lock_metadata(target, key.as_str()).build(),
                _ => return None,
            }
        }
        Item::Royalty(method) => {
            text = format!("royalty {:?} of c method {:?}", how, method);
            match how {
                How::Update => mb.set_component_royalty(t.c, method.as_str(), RoyaltyAmount::Xrd(Decimal::from(1 + salt % 3))).build(),
                How::Lock => mb.lock_component_royalty(t.c, method.as_str()).build(),
                _ => return None,
            }
        }
        Item::Owner(on_r) => {
            let target: GlobalAddress = if *on_r { t.r.into() } else { t.c.into() };
            text = format!("owner role {:?} of {}", how, if *on_r { "r" } else { "c" });
            match how {
                // every rule used is satisfied by the badge of account 0, so "the owner" stays the same caller
                How::Update => mb
                    .set_owner_role(target, if salt % 2 == 0 { owner_rule.clone() } else { rule!(require_any_of(vec![w.accounts[0].badge(), w.accounts[1].badge()])) })
                    .build(),
                How::Lock => mb.lock_owner_role(target).build(),
                _ => return None,
            }
        }
        Item::Role(name) => {
            text = format!("set_role(r, Main, {:?})", name);
            match how {
                How::Update => mb.set_role(t.r, ModuleId::Main, name.as_str(), if salt % 2 == 0 { rule!(allow_all) } else { rule!(require(w.badge)) }).build(),
                _ => return None,
            }
        }
    };
    Some((m, format!("{:?} {:?} by {:?}: {}", how, it, who, text)))
}

/// Would this attempt succeed on an unlocked item? (None: no prediction.)
fn authorised(t: &Targets, it: &Item, how: How, who: Who) -> Option<bool> {
    if matches!(how, How::WriteReadOnlyHandle | How::BadFlags) {
        return Some(false);
    }
    let has_owner = who != Who::Nobody;
    match it {
        // `act` is public
        Item::Field(_) | Item::Kv(_) => Some(true),
        Item::Meta(false, _) | Item::Royalty(_) => Some(has_owner && t.owner_kind != 2),
        Item::Meta(true, _) => Some(has_owner),
        Item::Owner(false) => Some(has_owner && t.owner_kind == 0),
        Item::Owner(true) => Some(has_owner),
        Item::Role(n) => match n.as_str() {
            "burner" => Some(has_owner),
            _ => Some(false),
        },
    }
}

fn case(g: &mut Gen) -> Outcome {
    with_world(WORLD_KEY, no_genesis, build, |w| {
        let mut log: Vec<String> = Vec::new();
        let owner_rule = rule!(require(w.accounts[0].badge()));
        // ---- set-up 1: the component
        let owner_kind = g.weighted(&[6, 2, 1]) as u8;
        let owner = match owner_kind {
            0 => OwnerSpec::Updatable(owner_rule.clone()),
            1 => OwnerSpec::Fixed(owner_rule.clone()),
            _ => OwnerSpec::None,
        };
        let mut b = B::new();
        let fields: Vec<(u8, Vec<u8>, bool)> = (0..3u8).map(|i| (i, enc(&v_u32(100 + i as u32)), g.chance(1, 5))).collect();
        let kv: Vec<(u8, Vec<u8>, Vec<u8>, bool)> = (1..=3u32).map(|k| (PUPPET_COLL_KV, enc(&v_u32(k)), enc(&v_u32(200 + k)), g.chance(1, 5))).collect();
        let created_locked: Vec<String> = fields.iter().filter(|f| f.2).map(|f| format!("field {}", f.0)).chain(kv.iter().enumerate().filter(|(_, e)| e.3).map(|(i, _)| format!("kv {}", i + 1))).collect();
        let o = b.op(Op::NewObject { blueprint: PUPPET_BLUEPRINT.into(), fields, kv }, 1);
        b.op(Op::Globalize { object: N::Slot(o), owner: owner.clone(), reservation: None, with_royalty: true }, 1);
        let run = w.run(puppet_call_manifest(w.puppet_p, &b.script()), vec![]);
        let Some(c) = run.commit().filter(|_| run.is_success()).and_then(|c| c.new_component_addresses().first().cloned()) else {
            return Outcome::fail("C51 harness: set-up of the component failed", run.outcome_string());
        };
        // ---- set-up 2: the resource, and metadata of the component
        let roles = FungibleResourceRoles {
            mint_roles: mint_roles! { minter => rule!(allow_all); minter_updater => rule!(deny_all); },
            burn_roles: burn_roles! { burner => rule!(allow_all); burner_updater => owner_rule.clone(); },
            ..Default::default()
        };
        let mut mb = ManifestBuilder::new().lock_fee_from_faucet().create_fungible_resource(
            OwnerRole::Updatable(owner_rule.clone()),
            true,
            18,
            roles,
            metadata!(init { "name" => "R".to_string(), locked; "sym" => "S".to_string(), updatable; }),
            None,
        );
        if owner_kind != 2 {
            mb = mb.set_metadata(c, "m1", MetadataValue::String("one".into())).set_metadata(c, "m2", MetadataValue::U32(2));
        }
        let run = w.run(mb.build(), vec![w.accounts[0].badge()]);
        let Some(r) = run.commit().filter(|_| run.is_success()).and_then(|c| c.new_resource_addresses().first().cloned()) else {
            return Outcome::fail("C51 harness: set-up of the resource failed", run.outcome_string());
        };
        let t = Targets { c, r, owner_kind };
        log.push(format!("set-up: c={} owner={:?} locked at creation: {:?}; r={}", hexn(c.as_node_id()), owner, created_locked, hexn(r.as_node_id())));

        // ---- the model: item → raw substate at the time it became locked
        let items = all_items();
        let mut locked: BTreeMap<Item, Option<Vec<u8>>> = BTreeMap::new();
        let static_locked = |it: &Item| matches!(it, Item::Role(n) if n == "minter" || n == "minter_updater");
        for it in &items {
            let bytes = raw(w, &t, it);
            if flag_set(it, &bytes) || static_locked(it) {
                locked.insert(it.clone(), bytes);
            }
        }
        if owner_kind == 1 && !locked.contains_key(&Item::Owner(false)) {
            return Outcome::fail("C51 a Fixed owner role is not stored locked", log.join("\n"));
        }

        let n_steps = 5 + g.below(36) as usize;
        let (mut attempts_on_locked, mut by_owner_on_locked, mut sibling_updates, mut lock_ops) = (0u32, 0u32, 0u32, 0u32);
        for step in 0..n_steps {
            if g.chance(1, 8) {
                let e = w.sim.get_current_epoch();
                w.sim.set_current_epoch(e.next().unwrap());
                log.push(format!("epoch -> {}", e.number() + 1));
            }
            // choose the item: half of the time a locked one (if any)
            let locked_items: Vec<Item> = locked.keys().cloned().collect();
            let it = if !locked_items.is_empty() && g.chance(1, 2) { locked_items[g.index(locked_items.len())].clone() } else { items[g.index(items.len())].clone() };
            let how = [How::Update, How::Update, How::Remove, How::Lock, How::LockThenWrite, How::WriteReadOnlyHandle, How::BadFlags][g.weighted(&[6, 3, 3, if step * 3 < n_steps { 10 } else { 3 }, 1, 1, 1])];
            let who = [Who::Owner, Who::Everyone, Who::Nobody][g.weighted(&[4, 3, 2])];
            let salt = g.below(1000) as u32;
            let Some((manifest, text)) = attempt(w, &t, &it, how, who, salt) else {
                g.count("skipped combinations", 1);
                continue;
            };
            let was_locked = locked.contains_key(&it);
            let run = w.run(manifest, proofs(w, who));
            log.push(format!("tx{} {}{} => {}", step, if was_locked { "[locked] " } else { "" }, text, run.outcome_string()));
            if let Some(p) = &run.panic {
                return Outcome::fail("C51 host panic while executing a generated transaction", format!("{}\npanic: {}", log.join("\n"), p));
            }
            if !run.is_commit() {
                return Outcome::fail("C51 harness: generated transaction was rejected", log.join("\n"));
            }
            let ok = run.is_success();
            let class = match &it {
                Item::Field(_) => "object field",
                Item::Kv(_) => "key-value entry",
                Item::Meta(..) => "metadata entry",
                Item::Royalty(_) => "royalty setting",
                Item::Owner(_) => "owner role",
                Item::Role(_) => "role entry",
            };
            if was_locked {
                attempts_on_locked += 1;
                if who != Who::Nobody {
                    by_owner_on_locked += 1;
                }
                g.label(match class {
                    "object field" => "attempt on a locked object field",
                    "key-value entry" => "attempt on a locked key-value entry",
                    "metadata entry" => "attempt on a locked metadata entry",
                    "royalty setting" => "attempt on a locked royalty setting",
                    "owner role" => "attempt on a locked owner role",
                    _ => "attempt on a role entry whose updater is deny-all",
                });
                if ok {
                    return Outcome::fail(format!("C51 transaction aimed at a locked {} committed successfully", class), log.join("\n"));
                }
            } else {
                match authorised(&t, &it, how, who) {
                    Some(true) => {
                        if !ok {
                            return Outcome::fail(format!("C51 authorised {} of an unlocked {} was refused", if matches!(how, How::Lock) { "lock" } else { "update" }, class), log.join("\n"));
                        }
                        if matches!(how, How::Lock) {
                            lock_ops += 1;
                        } else {
                            sibling_updates += 1;
                        }
                    }
                    Some(false) => {
                        if ok {
                            return Outcome::fail(format!("C51 unauthorised or ill-formed operation on a {} committed successfully", class), log.join("\n"));
                        }
                    }
                    None => {}
                }
                if ok && matches!(how, How::Lock) {
                    let bytes = raw(w, &t, &it);
                    if !flag_set(&it, &bytes) {
                        return Outcome::fail(
                            format!("C51 committed lock of a {} left no lock flag in the stored substate", class),
                            format!("{}\nsubstate now: {:?}", log.join("\n"), bytes.as_ref().map(hex::encode)),
                        );
                    }
                    locked.insert(it.clone(), bytes);
                    g.label(match class {
                        "object field" => "locked: object field",
                        "key-value entry" => "locked: key-value entry",
                        "metadata entry" => "locked: metadata entry",
                        "royalty setting" => "locked: royalty setting",
                        _ => "locked: owner role",
                    });
                }
            }
            // every locked item is byte-identical and still flagged
            for (li, bytes) in &locked {
                let now = raw(w, &t, li);
                if &now != bytes {
                    return Outcome::fail(
                        format!("C51 stored substate of a locked {} changed", match li {
                            Item::Field(_) => "object field",
                            Item::Kv(_) => "key-value entry",
                            Item::Meta(..) => "metadata entry",
                            Item::Royalty(_) => "royalty setting",
                            Item::Owner(_) => "owner role",
                            Item::Role(_) => "role entry (updater deny-all)",
                        }),
                        format!("{}\nitem {:?}: was {:?} now {:?}", log.join("\n"), li, bytes.as_ref().map(hex::encode), now.as_ref().map(hex::encode)),
                    );
                }
            }
            // items that carry the flag without the model knowing (e.g. locked by the last write?) join the set
            for it2 in &items {
                if !locked.contains_key(it2) {
                    let bytes = raw(w, &t, it2);
                    if flag_set(it2, &bytes) {
                        return Outcome::fail("C51 an item became locked without a lock operation", format!("{}\nitem {:?}", log.join("\n"), it2));
                    }
                }
            }
        }
        g.count("attempts on locked items", attempts_on_locked as u64);
        g.count("successful updates of unlocked siblings", sibling_updates as u64);
        g.count("successful lock operations", lock_ops as u64);
        if sibling_updates > 0 {
            g.label("unlocked sibling updated");
        }
        g.set_nontrivial(by_owner_on_locked > 0);
        g.sample(|| log.join("\n"));
        Outcome::Pass
    })
}

pub fn check() -> Check {
    Check::new(
        "C51",
        "Locked state stays locked forever",
        "histories: set-up of a puppet component and a resource with some items locked at creation, then 5-40 transactions each locking or trying to change one item (field, KV entry, metadata entry, royalty setting, owner role, role entry) by nobody / the owner / every badge, across epoch changes; non-trivial = an update attempt on a locked item by a caller presenting the owner's badge",
    )
    .assume("'locked' for role entries means the role's updater role is deny-all (there is no lock flag on role entries)")
    .assume("lock-then-write through one handle in the same transaction leaves the item unlocked (field_write / key_value_entry_set build an unlocked substate); the property speaks of later transactions, so this is not judged")
    .min_nontrivial_pct(40.0)
    .part(Part::new("histories", 2500, 100_000, 400, case))
}
