//! Raw-state readers shared by C39 / C40: everything here decodes substates straight from the
//! database (no engine logic, no receipt summaries).

use radix_engine::object_modules::role_assignment::RoleAssignmentAccessRuleEntryPayload;
use scrypto_test::prelude::*;
use std::collections::{BTreeMap, BTreeSet};
use vf_world::Totals;

/// What a vault holds, read from the raw scan.
#[derive(Clone, Debug, PartialEq, Eq)]
pub enum Holding {
    F(Decimal),
    N(BTreeSet<NonFungibleLocalId>),
}

impl Holding {
    pub fn is_empty(&self) -> bool {
        match self {
            Holding::F(d) => d.is_zero(),
            Holding::N(s) => s.is_empty(),
        }
    }
    pub fn show(&self) -> String {
        match self {
            Holding::F(d) => format!("{}", d),
            Holding::N(s) => format!("{{{}}}", s.iter().map(|i| i.to_string()).collect::<Vec<_>>().join(",")),
        }
    }
}

/// Holding of one vault in a scan (None when the vault does not exist in that scan).
pub fn holding(t: &Totals, vault: &NodeId) -> Option<(ResourceAddress, Holding)> {
    if let Some((r, b)) = t.fungible_vaults.get(vault) {
        return Some((*r, Holding::F(*b)));
    }
    if let Some((r, _, ids)) = t.non_fungible_vaults.get(vault) {
        return Some((*r, Holding::N(ids.clone())));
    }
    None
}

/// Every vault node in a scan.
pub fn vault_nodes(t: &Totals) -> BTreeSet<NodeId> {
    t.fungible_vaults.keys().chain(t.non_fungible_vaults.keys()).copied().collect()
}

/// The account's resource -> vault map, read from its `ResourceVaultKeyValue` collection
/// (collection 0 of the account blueprint: main partition offset 1). An account that is not on
/// ledger (never instantiated) has no entries.
pub fn account_vaults<D: SubstateDatabase>(db: &D, account: &ComponentAddress) -> BTreeMap<ResourceAddress, NodeId> {
    let partition = MAIN_BASE_PARTITION.at_offset(PartitionOffset(1u8)).unwrap();
    let mut out = BTreeMap::new();
    for (res, value) in db.list_map_entries::<ResourceAddress, ScryptoValue>(account.as_node_id(), partition, None::<&MapKey>) {
        let indexed = IndexedScryptoValue::from_scrypto_value(value);
        if let Some(own) = indexed.owned_nodes().first() {
            out.insert(res, *own);
        }
    }
    out
}

/// The access rule assigned to a main-module role of a global component, from its role-assignment
/// module partition. None when no entry is stored.
pub fn role_rule<D: SubstateDatabase>(db: &D, component: &ComponentAddress, role: &str) -> Option<AccessRule> {
    let partition = ROLE_ASSIGNMENT_BASE_PARTITION.at_offset(ROLE_ASSIGNMENT_ROLE_DEF_PARTITION_OFFSET).unwrap();
    let key = ModuleRoleKey::new(ModuleId::Main, RoleKey::new(role));
    let entry: KeyValueEntrySubstate<RoleAssignmentAccessRuleEntryPayload> =
        db.get_substate(component.as_node_id(), partition, SubstateKey::Map(scrypto_encode(&key).unwrap()))?;
    entry.into_value().map(|v| v.fully_update_and_into_latest_version())
}

pub fn err_is_account_error(e: &RuntimeError) -> bool {
    matches!(e, RuntimeError::ApplicationError(ApplicationError::AccountError(_)))
}

pub fn err_is_auth_error(e: &RuntimeError) -> bool {
    matches!(
        e,
        RuntimeError::SystemModuleError(SystemModuleError::AuthError(_)) | RuntimeError::SystemError(SystemError::AssertAccessRuleFailed)
    )
}
