//! C01 Transaction execution is deterministic.
//!
//! A generated history of 1–12 transactions is committed on the standard world; then one generated
//! probe transaction is executed WITHOUT committing under many diagnostic configurations
//! ({kernel trace, cost breakdown, execution trace None/Some(1)/Some(MAX), debug information}),
//! each on a cold (`VmModules` created for that one execution) and on a warm (already executed the
//! history and the probe) code cache, and on 8 threads at once sharing one cold `VmModules`.
//! Oracle: byte equality of the SBOR encodings of every receipt part the property speaks about
//! (`exec::parts`). Finally the whole history is replayed from the snapshot on a cold cache under
//! another diagnostic configuration; every receipt and the final database must be identical.

use crate::exec::*;
use crate::mgen::*;
use scrypto_test::prelude::*;
use vf_core::{Check, Gen, Outcome, Part};
use vf_world::*;

#[derive(Clone, Copy, Debug, PartialEq, Eq)]
pub struct Diag {
    pub kernel_trace: bool,
    pub cost_breakdown: bool,
    /// 0 = None, 1 = Some(1), 2 = Some(MAX_EXECUTION_TRACE_DEPTH)
    pub execution_trace: u8,
    pub debug_information: bool,
}

impl Diag {
    pub const BASE: Diag = Diag { kernel_trace: false, cost_breakdown: false, execution_trace: 0, debug_information: false };

    pub fn from_index(i: usize) -> Diag {
        Diag { kernel_trace: i & 1 != 0, cost_breakdown: i & 2 != 0, debug_information: i & 4 != 0, execution_trace: ((i >> 3) % 3) as u8 }
    }
    pub const COUNT: usize = 24;

    pub fn config(&self) -> ExecutionConfig {
        let mut c = ExecutionConfig::for_test_transaction();
        c.enable_kernel_trace = self.kernel_trace;
        c.enable_cost_breakdown = self.cost_breakdown;
        c.enable_debug_information = self.debug_information;
        c.execution_trace = match self.execution_trace {
            0 => None,
            1 => Some(1),
            _ => Some(MAX_EXECUTION_TRACE_DEPTH),
        };
        c
    }
    pub fn flags_differing(&self, o: &Diag) -> usize {
        (self.kernel_trace != o.kernel_trace) as usize
            + (self.cost_breakdown != o.cost_breakdown) as usize
            + (self.execution_trace != o.execution_trace) as usize
            + (self.debug_information != o.debug_information) as usize
    }
    pub fn show(&self) -> String {
        format!(
            "{{kernel_trace:{}, cost_breakdown:{}, execution_trace:{}, debug_information:{}}}",
            self.kernel_trace,
            self.cost_breakdown,
            match self.execution_trace {
                0 => "None",
                1 => "Some(1)",
                _ => "Some(MAX)",
            },
            self.debug_information
        )
    }
}

struct Step {
    exe: ExecutableTransaction,
    wire: Wire,
    parts: Vec<(&'static str, Vec<u8>)>,
    text: String,
    outcome: String,
}

const SIG_PANIC: &str = "execute_transaction: host panic on a generated transaction";
const SIG_PREDICT: &str = "harness/mgen: outcome of a generated transaction differs from the generator's expectation";

fn sig_diff(what: &str, part: &str) -> String {
    format!("execute_transaction: {} differs between {}", part, what)
}

fn case(g: &mut Gen) -> Outcome {
    with_world("c01", no_genesis, build_world, |w| run_case(g, w))
}

fn run_case(g: &mut Gen, w: &mut World) -> Outcome {
    let mut model = Model::new(w);
    let n_hist = 1 + g.weighted(&[6, 5, 4, 3, 3, 2, 2, 1, 1, 1, 1, 1]);
    let warm = new_modules();
    let hist_diag = Diag::from_index(2 * g.index(2) + 8 * g.index(3)); // kernel trace and debug information only on the probe (cost)
    let mut steps: Vec<Step> = Vec::new();
    let opts = Opts::history();
    let mut wasm_runs = 0u64;

    for _ in 0..n_hist {
        let plan = gen_plan(g, w, &model, &opts);
        let text = plan.describe(w);
        let nonce = w.sim.next_transaction_nonce();
        let manifest = plan.render(w);
        let wire: Wire = (manifest_encode(&manifest).unwrap(), nonce, plan.proofs(w));
        let exe = match executable(w, manifest, nonce, &plan.proofs(w)) {
            Ok(e) => e,
            Err(e) => return Outcome::fail("harness/mgen: generated manifest is not a valid executable", format!("{} :: {}", e, text)),
        };
        let receipt = match exec(w.db(), &warm, &hist_diag.config(), &exe) {
            Ok(r) => r,
            Err(p) => return Outcome::fail(SIG_PANIC, format!("history transaction {} panicked: {} :: {}", steps.len(), p, history_text(&steps, &text))),
        };
        if let Err(e) = plan.check_expect(&receipt) {
            return Outcome::fail(SIG_PREDICT, format!("{} :: {}", e, history_text(&steps, &text)));
        }
        if receipt.is_commit_success() {
            model = plan.commit_success(&receipt);
            for l in &plan.labels {
                g.label(l);
                if l.contains("WAT") || l.contains("WASM") {
                    wasm_runs += 1;
                }
            }
        } else {
            g.label(match &receipt.result {
                TransactionResult::Commit(_) => "history: failed commit",
                TransactionResult::Reject(_) => "history: rejected transaction",
                TransactionResult::Abort(_) => "history: aborted transaction",
            });
        }
        commit(w.sim.substate_db_mut(), &receipt);
        steps.push(Step { exe, wire, parts: parts(&receipt), text, outcome: outcome_string(&receipt) });
    }
    g.count("history transactions", steps.len() as u64);
    g.count("history transactions running WASM beyond the faucet", wasm_runs);
    // ---- the probe ----
    let plan = gen_plan(g, w, &model, &Opts { fail_pct: 25, ..Opts::history() });
    let probe_text = plan.describe(w);
    let nonce = w.sim.next_transaction_nonce();
    let probe_manifest = plan.render(w);
    let probe_wire: Wire = (manifest_encode(&probe_manifest).unwrap(), nonce, plan.proofs(w));
    let exe = match executable(w, probe_manifest, nonce, &plan.proofs(w)) {
        Ok(e) => e,
        Err(e) => return Outcome::fail("harness/mgen: generated manifest is not a valid executable", format!("{} :: {}", e, probe_text)),
    };
    let context = |steps: &Vec<Step>| format!("history [{}] ; probe {}", steps.iter().map(|s| format!("{} => {}", s.text, s.outcome)).collect::<Vec<_>>().join(" | "), probe_text);

    let base = match exec(w.db(), &warm, &Diag::BASE.config(), &exe) {
        Ok(r) => r,
        Err(p) => return Outcome::fail(SIG_PANIC, format!("probe panicked: {} :: {}", p, context(&steps))),
    };
    if let Err(e) = plan.check_expect(&base) {
        return Outcome::fail(SIG_PREDICT, format!("{} :: {}", e, context(&steps)));
    }
    let base_parts = parts(&base);
    let touched = match &base.result {
        TransactionResult::Commit(c) => touched_substates(c),
        _ => 0,
    };
    for l in &plan.labels {
        g.label(l);
    }
    g.label(match &base.result {
        TransactionResult::Commit(c) => match c.outcome {
            TransactionOutcome::Success(_) => "probe: commit success",
            TransactionOutcome::Failure(_) => "probe: commit failure",
        },
        TransactionResult::Reject(_) => "probe: rejected",
        TransactionResult::Abort(_) => "probe: aborted",
    });

    // configurations: the full cross product (24 x {cold, warm}) in one case out of sixteen; otherwise
    // the baseline on a cold cache, every single-flag toggle, everything but debug information, four
    // tape-chosen combinations without debug information, and one with it (debug information clones
    // every value read, WASM code included, and costs 10-1000 plain executions)
    let full = g.chance(1, 16);
    let mut configs: Vec<(Diag, bool)> = Vec::new();
    if full {
        g.label("full cross product of diagnostic settings x {cold, warm}");
        for i in 0..Diag::COUNT {
            configs.push((Diag::from_index(i), true));
            configs.push((Diag::from_index(i), false));
        }
    } else {
        configs.push((Diag::BASE, true));
        configs.push((Diag::from_index(19), g.bool()));
        for i in [1usize, 2, 8, 16] {
            configs.push((Diag::from_index(i), g.bool()));
        }
        for _ in 0..4 {
            let i = g.index(12);
            configs.push((Diag::from_index((i & 3) | ((i >> 2) << 3)), g.bool()));
        }
        let with_debug = if g.bool() { 4 } else { 4 | g.index(4) | (g.index(3) << 3) };
        configs.push((Diag::from_index(with_debug), g.bool()));
    }
    let mut max_flags = 0;
    let mut compared = 0u64;
    for (d, cold) in &configs {
        let fresh;
        let modules = if *cold {
            fresh = new_modules();
            &fresh
        } else {
            &warm
        };
        let r = match exec(w.db(), modules, &d.config(), &exe) {
            Ok(r) => r,
            Err(p) => {
                return Outcome::fail(
                    SIG_PANIC,
                    format!("probe panicked under {} on a {} code cache: {} :: {}", d.show(), if *cold { "cold" } else { "warm" }, p, context(&steps)),
                )
            }
        };
        compared += 1;
        max_flags = max_flags.max(d.flags_differing(&Diag::BASE) + *cold as usize);
        if let Some(part) = first_difference(&base_parts, &parts(&r)) {
            return Outcome::fail(
                sig_diff("diagnostic settings / code cache states", part),
                format!(
                    "{} of the probe differs: baseline {} on a warm cache gives {} ; {} on a {} cache gives {} :: {}",
                    part,
                    Diag::BASE.show(),
                    outcome_string(&base),
                    d.show(),
                    if *cold { "cold" } else { "warm" },
                    outcome_string(&r),
                    context(&steps)
                ),
            );
        }
    }
    // ---- 8 threads at once sharing one cold VmModules ----
    {
        let shared = new_modules();
        let db = w.db();
        let exe_ref = &exe;
        let shared_ref = &shared;
        let diags: Vec<Diag> = (0..8).map(|t| if t < 4 { Diag::BASE } else { Diag::from_index((g.index(2) << 1) | (g.index(3) << 3)) }).collect();
        let results: Vec<Result<Vec<(&'static str, Vec<u8>)>, String>> = std::thread::scope(|s| {
            let handles: Vec<_> = diags
                .iter()
                .map(|d| {
                    let cfg = d.config();
                    s.spawn(move || {
                        let mut last: Option<Vec<(&'static str, Vec<u8>)>> = None;
                        for _ in 0..2 {
                            match exec(db, shared_ref, &cfg, exe_ref) {
                                Ok(r) => {
                                    let p = parts(&r);
                                    if let Some(prev) = &last {
                                        if first_difference(prev, &p).is_some() {
                                            return Ok(p);
                                        }
                                    }
                                    last = Some(p);
                                }
                                Err(e) => return Err(e),
                            }
                        }
                        Ok(last.unwrap())
                    })
                })
                .collect();
            handles.into_iter().map(|h| h.join().unwrap_or_else(|_| Err("worker thread panicked outside catch".into()))).collect()
        });
        for (t, r) in results.iter().enumerate() {
            match r {
                Err(p) => return Outcome::fail(SIG_PANIC, format!("probe panicked on thread {} of 8 sharing one VmModules: {} :: {}", t, p, context(&steps))),
                Ok(p) => {
                    compared += 2;
                    if let Some(part) = first_difference(&base_parts, p) {
                        return Outcome::fail(
                            sig_diff("8 threads sharing one code cache", part),
                            format!("{} of the probe differs on thread {} (settings {}) from the single-threaded baseline {} :: {}", part, t, diags[t].show(), outcome_string(&base), context(&steps)),
                        );
                    }
                }
            }
        }
    }
    g.count("probe executions compared with the baseline", compared);
    // ---- the same history and probe in a freshly spawned process (thorough tier and replays only) ----
    if child_mode_enabled() && g.chance(1, 16) {
        g.label("history and probe repeated in a child process");
        let mut wires: Vec<Wire> = steps.iter().map(|s| s.wire.clone()).collect();
        wires.push(probe_wire.clone());
        let mut all_parts: Vec<&[(&'static str, Vec<u8>)]> = steps.iter().map(|s| s.parts.as_slice()).collect();
        all_parts.push(base_parts.as_slice());
        let mine = digest_lines(&all_parts, &db_digest(w.db()));
        match run_child(&wires) {
            Err(e) => return Outcome::fail("harness: child process could not be run", format!("{} :: {}", e, context(&steps))),
            Ok(theirs) => {
                if let Some((a, b)) = mine.iter().zip(theirs.iter()).find(|(a, b)| a != b) {
                    let part = a.splitn(3, ' ').nth(1).unwrap_or("result kind").replace('_', " ");
                    return Outcome::fail(
                        sig_diff("two processes", &part),
                        format!("this process: '{}' ; child process: '{}' (line = transaction index, part, hash; 'db' = database after the history) :: {}", a, b, context(&steps)),
                    );
                }
                if mine.len() != theirs.len() {
                    return Outcome::fail("harness: child process printed another number of digest lines", format!("{} vs {} :: {}", mine.len(), theirs.len(), context(&steps)));
                }
                g.count("cases repeated in a child process", 1);
            }
        }
    }

    // ---- replay of the whole history from the snapshot ----
    let final_db = w.db().clone();
    w.reset();
    let cold = new_modules();
    let replay_diag = Diag::from_index((hist_diag.cost_breakdown as usize ^ 1) * 2 + 8 * ((hist_diag.execution_trace as usize + 1 + g.index(2)) % 3));
    for (i, s) in steps.iter().enumerate() {
        let receipt = match exec(w.db(), &cold, &replay_diag.config(), &s.exe) {
            Ok(r) => r,
            Err(p) => return Outcome::fail(SIG_PANIC, format!("history transaction {} panicked in the replay under {}: {} :: {}", i, replay_diag.show(), p, context(&steps))),
        };
        if let Some(part) = first_difference(&s.parts, &parts(&receipt)) {
            return Outcome::fail(
                sig_diff("two replays of one history", part),
                format!(
                    "{} of history transaction {} differs: first run ({}, warm) {} ; replay ({}, cold) {} :: {}",
                    part,
                    i,
                    hist_diag.show(),
                    s.outcome,
                    replay_diag.show(),
                    outcome_string(&receipt),
                    context(&steps)
                ),
            );
        }
        commit(w.sim.substate_db_mut(), &receipt);
    }
    if *w.db() != final_db {
        let d = diff(&dump(&final_db), &dump(w.db()));
        return Outcome::fail(
            "execute_transaction: final database differs between two replays of one history",
            format!(
                "{} substates differ, first: {} :: {}",
                d.len(),
                d.iter().take(3).map(|(k, a, b)| format!("{} {:?} -> {:?}", show_raw_key(k), a.as_ref().map(hex::encode), b.as_ref().map(hex::encode))).collect::<Vec<_>>().join(" ; "),
                context(&steps)
            ),
        );
    }
    let committed = matches!(base.result, TransactionResult::Commit(_));
    g.set_nontrivial(committed && touched >= 5 && max_flags >= 2);
    if touched >= 20 {
        g.label("probe touches >= 20 substates");
    }
    g.sample(|| format!("{} ; probe => {} ({} substates, {} configurations)", context(&steps), outcome_string(&base), touched, configs.len()));
    Outcome::Pass
}

fn history_text(steps: &[Step], current: &str) -> String {
    format!("history [{}] ; failing transaction {}", steps.iter().map(|s| format!("{} => {}", s.text, s.outcome)).collect::<Vec<_>>().join(" | "), current)
}

/// (manifest bytes, nonce, initial proofs): what a child process needs to rebuild one executable.
type Wire = (Vec<u8>, u32, Vec<NonFungibleGlobalId>);

fn child_mode_enabled() -> bool {
    // argv: <bin> <ID> quick|thorough|--replay <file>; the child-process repetition costs a process and a
    // world per use, so the quick tier leaves it out
    std::env::args().nth(2).map(|a| a != "quick").unwrap_or(false)
}

fn db_digest(db: &Db) -> String {
    let mut bytes = Vec::new();
    for ((node, partition, key), value) in dump(db) {
        bytes.extend_from_slice(&(node.len() as u32).to_le_bytes());
        bytes.extend_from_slice(&node);
        bytes.push(partition);
        bytes.extend_from_slice(&(key.len() as u32).to_le_bytes());
        bytes.extend_from_slice(&key);
        bytes.extend_from_slice(&(value.len() as u32).to_le_bytes());
        bytes.extend_from_slice(&value);
    }
    hash(bytes).to_string()
}

fn digest_lines(all_parts: &[&[(&'static str, Vec<u8>)]], db: &str) -> Vec<String> {
    let mut out = Vec::new();
    for (i, ps) in all_parts.iter().enumerate() {
        if i + 1 == all_parts.len() {
            out.push(format!("db database {}", db));
        }
        for (name, bytes) in ps.iter() {
            out.push(format!("{} {} {}", i, name.replace(' ', "_"), hash(bytes)));
        }
    }
    out
}

fn run_child(wires: &[Wire]) -> Result<Vec<String>, String> {
    use std::sync::atomic::{AtomicU64, Ordering};
    static COUNTER: AtomicU64 = AtomicU64::new(0);
    let dir = vf_core::verif_root().join(".work");
    std::fs::create_dir_all(&dir).map_err(|e| format!("{}: {}", dir.display(), e))?;
    let file = dir.join(format!("c01-child-{}-{}.bin", std::process::id(), COUNTER.fetch_add(1, Ordering::Relaxed)));
    std::fs::write(&file, scrypto_encode(&wires.to_vec()).unwrap()).map_err(|e| format!("{}: {}", file.display(), e))?;
    let exe = std::env::current_exe().map_err(|e| e.to_string())?;
    let out = std::process::Command::new(exe).arg("c01-child").arg(&file).output();
    let _ = std::fs::remove_file(&file);
    let out = out.map_err(|e| e.to_string())?;
    if !out.status.success() {
        return Err(format!("child exited with {:?}: {}", out.status.code(), String::from_utf8_lossy(&out.stderr)));
    }
    Ok(String::from_utf8_lossy(&out.stdout).lines().map(|l| l.to_string()).collect())
}

/// Entry point of the child process (`vf-eng-a c01-child <file>`): builds its own world, commits the
/// history, executes the probe without committing, and prints the digest lines.
pub fn child_main(file: &str) -> i32 {
    let bytes = match std::fs::read(file) {
        Ok(b) => b,
        Err(e) => {
            eprintln!("c01-child: {}: {}", file, e);
            return 2;
        }
    };
    let wires: Vec<Wire> = match scrypto_decode(&bytes) {
        Ok(w) => w,
        Err(e) => {
            eprintln!("c01-child: cannot decode {}: {:?}", file, e);
            return 2;
        }
    };
    let lines = with_world("c01", no_genesis, build_world, |w| -> Result<Vec<String>, String> {
        let modules = new_modules();
        let mut all: Vec<Vec<(&'static str, Vec<u8>)>> = Vec::new();
        let mut db = String::new();
        for (i, (manifest, nonce, proofs)) in wires.iter().enumerate() {
            let manifest: TransactionManifestV1 = manifest_decode(manifest).map_err(|e| format!("manifest {}: {:?}", i, e))?;
            let exe = executable(w, manifest, *nonce, proofs)?;
            let last = i + 1 == wires.len();
            if last {
                db = db_digest(w.db());
            }
            let receipt = exec(w.db(), &modules, &Diag::BASE.config(), &exe)?;
            if !last {
                commit(w.sim.substate_db_mut(), &receipt);
            }
            all.push(parts(&receipt));
        }
        let refs: Vec<&[(&'static str, Vec<u8>)]> = all.iter().map(|p| p.as_slice()).collect();
        Ok(digest_lines(&refs, &db))
    });
    match lines {
        Ok(lines) => {
            for l in lines {
                println!("{}", l);
            }
            0
        }
        Err(e) => {
            eprintln!("c01-child: {}", e);
            3
        }
    }
}

pub fn check() -> Check {
    Check::new(
        "C01",
        "Transaction execution is deterministic",
        "A history of 1-12 generated transactions (typed manifest generator over the standard world: fungible / XRD / non-fungible transfers through every deposit style, mint / burn with and without the badge proof, NF mints incl. RUID ids, NF data updates, faucet free / lock_fee (WASM), calls of published WAT packages and publishing new ones, puppet scripts creating many nodes / KV entries in tape-chosen key order / events / logs / component state writes incl. a royalty-charging component, deliberate failures of 15 kinds, fees from the faucet or 1-3 account vaults incl. contingent locks, too-small and missing fee locks) is committed; then a generated probe is executed without committing under a baseline (no diagnostics, warm code cache) and under 11 (one case in sixteen: all 48) combinations of {kernel trace, cost breakdown, execution trace None/Some(1)/Some(MAX), debug information} x {cold VmModules created for that execution, warm VmModules that executed the history}, and twice on each of 8 threads sharing one cold VmModules. Every comparable receipt part (result kind, outcome, state updates, events, logs, fee summary, fee source, fee destination, new entities, costing parameters, nullifications) must be byte-identical (SBOR) to the baseline. The whole history is then replayed from the snapshot on a cold cache under other diagnostic settings: every receipt part and the final database (all partitions / substates) must be identical. Non-trivial = the probe commits, its state updates name >= 5 substates and some compared configuration differs from the baseline in at least two of {the four flags, cache state}. Distinct = distinct decoded choice sequences.",
    )
    .assume("thread interleavings are sampled by stress (8 threads x 2 executions sharing one cold code cache per case), not enumerated")
    .assume("'any process': in the thorough tier (and in replays) one case in sixteen repeats its history and probe in a freshly spawned child process that builds its own world, and compares per-part hashes of every receipt and of the database; the quick tier covers it only in so far as every case runs on one of 16 worker threads with its own world and fresh VmModules (per-instance hash seeds differ)")
    .assume("fee_details, debug_information, execution_trace, resources_usage, state_update_summary.vault_balance_changes and system_structure are not compared (diagnostics or annotations derived from the compared parts)")
    .part(Part::new("history+probe", 320, 8_000, 6000, case))
    .min_nontrivial_pct(20.0)
}
