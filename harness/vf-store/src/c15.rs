//! C15 All substate store implementations are observationally equivalent.
//!
//! Generated commit histories are applied in lock-step to the in-memory store, the RocksDB store and
//! the RocksDB store with Merkle tree (and to the R4 model). After every commit each store's point
//! reads, ordered listings from cursors and set of partition keys are compared with the model (and
//! therefore with each other). The rocksdb stores are closed and reopened at random points.

use crate::model::*;
use crate::scratch::case_dir;
use radix_substate_store_impls::memory_db::InMemorySubstateDatabase;
use radix_substate_store_impls::rocks_db::RocksdbSubstateStore;
use radix_substate_store_impls::rocks_db_with_merkle_tree::{Options, RocksDBWithMerkleTreeSubstateStore};
use radix_substate_store_interface::interface::{
    CommittableSubstateDatabase, DbPartitionKey, DbSortKey, ListableSubstateDatabase, SubstateDatabase,
};
use std::collections::BTreeSet;
use std::path::Path;
use vf_core::{catch, Check, Failure, Gen, Outcome, Part};

pub trait Store: SubstateDatabase + CommittableSubstateDatabase + ListableSubstateDatabase {}
impl<T: SubstateDatabase + CommittableSubstateDatabase + ListableSubstateDatabase> Store for T {}

const MEM: &str = "InMemorySubstateDatabase";
const ROCKS: &str = "RocksdbSubstateStore";
const MERKLE: &str = "RocksDBWithMerkleTreeSubstateStore";

/// The options of the stores' `standard()` constructors, plus one knob that only affects the cost of
/// opening: by default rocksdb starts 16 table-loading threads per column family at every open.
pub fn store_options() -> Options {
    let mut options = Options::default();
    options.create_if_missing(true);
    options.create_missing_column_families(true);
    options.set_max_file_opening_threads(1);
    options
}

fn open_rocks(dir: &Path) -> Box<dyn Store> {
    Box::new(RocksdbSubstateStore::with_options(&store_options(), dir.join("rocks")))
}

fn open_merkle(dir: &Path, pruning: bool) -> Box<dyn Store> {
    let options = store_options();
    Box::new(RocksDBWithMerkleTreeSubstateStore::with_options(&options, dir.join("merkle"), pruning))
}

/// What is read back from every store.
struct ProbePartition {
    node: Vec<u8>,
    part: u8,
    keys: Vec<Vec<u8>>,
    cursors: Vec<Vec<u8>>,
}

fn build_probes(a: &Alphabet) -> Vec<ProbePartition> {
    let all_sort_keys: BTreeSet<Vec<u8>> = a.sorts.iter().flatten().cloned().collect();
    let mk = |node: &Vec<u8>, part: u8, own: &Vec<Vec<u8>>| {
        // point reads: the partition's own alphabet and the keys of the other alphabets (which may be
        // prefixes / extensions of its keys)
        let mut keys: BTreeSet<Vec<u8>> = own.iter().cloned().collect();
        for k in all_sort_keys.iter().take(12) {
            keys.insert(k.clone());
        }
        // cursors: every key, and around every own key: its predecessor / successor by last byte, its
        // one-byte extension and truncation; the empty key; a key above everything
        let mut cursors: BTreeSet<Vec<u8>> = keys.clone();
        for k in own {
            let mut e = k.clone();
            e.push(0);
            cursors.insert(e);
            if !k.is_empty() {
                cursors.insert(k[..k.len() - 1].to_vec());
                let mut n = k.clone();
                let l = n.len() - 1;
                if n[l] < 0xFF {
                    n[l] += 1;
                    cursors.insert(n.clone());
                    n[l] -= 1;
                }
                if n[l] > 0 {
                    n[l] -= 1;
                    cursors.insert(n);
                }
            }
        }
        cursors.insert(vec![]);
        cursors.insert(vec![0xFF; 65]);
        ProbePartition { node: node.clone(), part, keys: keys.into_iter().collect(), cursors: cursors.into_iter().collect() }
    };
    let mut out = Vec::new();
    for (ni, node) in a.nodes.iter().enumerate() {
        for (pi, p) in a.parts.iter().enumerate() {
            out.push(mk(node, *p, a.sort_alpha(ni, pi)));
        }
        // neighbouring partition numbers that are never written
        for p in &a.parts {
            for q in [p.wrapping_add(1), p.wrapping_sub(1)] {
                if !a.parts.contains(&q) && !out.iter().any(|x: &ProbePartition| x.node == *node && x.part == q) {
                    out.push(mk(node, q, &a.sorts[0]));
                }
            }
        }
    }
    // node keys that are never written: relatives of the first node key
    let base = &a.nodes[0];
    let mut others: Vec<Vec<u8>> = Vec::new();
    let mut ext = base.clone();
    ext.push(a.parts[0]);
    others.push(ext);
    if !base.is_empty() {
        others.push(base[..base.len() - 1].to_vec());
        let mut n = base.clone();
        let l = n.len() - 1;
        n[l] = n[l].wrapping_add(1);
        others.push(n);
    }
    for o in others {
        if !a.nodes.contains(&o) {
            out.push(mk(&o, a.parts[0], &a.sorts[0]));
        }
    }
    out
}

#[derive(Clone, Copy, PartialEq)]
enum Scope {
    /// everything: all cursors of all partitions
    Full,
    /// all point reads, listing from the start of every partition, all cursors of touched partitions
    Touched,
}

fn observe(
    name: &'static str,
    db: &dyn Store,
    model: &Model,
    probes: &[ProbePartition],
    touched: &BTreeSet<(Vec<u8>, u8)>,
    scope: Scope,
) -> Result<u64, Failure> {
    let mut n = 0u64;
    for pp in probes {
        let pk = DbPartitionKey { node_key: pp.node.clone(), partition_num: pp.part };
        for k in &pp.keys {
            let got = db.get_raw_substate_by_db_key(&pk, &DbSortKey(k.clone()));
            let want = model.get(&pp.node, pp.part, k).cloned();
            n += 1;
            if got != want {
                return Err(Failure {
                    signature: format!("{}::get_raw_substate_by_db_key differs from the model", name),
                    message: format!(
                        "read {}/{}/{}: store {:?}, model {:?}",
                        hx(&pp.node),
                        pp.part,
                        hx(k),
                        got.as_deref().map(hx),
                        want.as_deref().map(hx)
                    ),
                });
            }
        }
        let all_cursors = scope == Scope::Full || touched.contains(&(pp.node.clone(), pp.part));
        let none = [None];
        let cursors: Box<dyn Iterator<Item = Option<&Vec<u8>>>> =
            if all_cursors { Box::new(none.into_iter().chain(pp.cursors.iter().map(Some))) } else { Box::new(none.into_iter()) };
        for c in cursors {
            let from = c.map(|c| DbSortKey(c.clone()));
            let got: Vec<(Vec<u8>, Vec<u8>)> = db.list_raw_values_from_db_key(&pk, from.as_ref()).map(|(k, v)| (k.0, v)).collect();
            let want = model.list(&pp.node, pp.part, c.map(|c| c.as_slice()));
            n += 1;
            if got != want {
                let r = |l: &Vec<(Vec<u8>, Vec<u8>)>| l.iter().map(|(k, v)| format!("{}={}", hx(k), hx(v))).collect::<Vec<_>>().join(" ");
                return Err(Failure {
                    signature: format!("{}::list_raw_values_from_db_key differs from the model", name),
                    message: format!(
                        "list {}/{} from {:?}: store [{}], model [{}]",
                        hx(&pp.node),
                        pp.part,
                        c.map(|c| hx(c)),
                        r(&got),
                        r(&want)
                    ),
                });
            }
        }
    }
    let got: BTreeSet<(Vec<u8>, u8)> = db.list_partition_keys().map(|k| (k.node_key, k.partition_num)).collect();
    let want = model.partitions();
    if got != want {
        let r = |s: &BTreeSet<(Vec<u8>, u8)>| s.iter().map(|(n, p)| format!("{}/{}", hx(n), p)).collect::<Vec<_>>().join(" ");
        return Err(Failure {
            signature: format!("{}::list_partition_keys set differs from the model", name),
            message: format!("partition keys: store {{{}}}, model {{{}}}", r(&got), r(&want)),
        });
    }
    Ok(n + 1)
}

struct Setup {
    three: bool,
    domain: Domain,
    max_commits: usize,
}

fn case(g: &mut Gen, s: &Setup) -> Outcome {
    let alphabet = gen_alphabet(g, &s.domain);
    let probes = build_probes(&alphabet);
    let shape = CommitShape { max_nodes: 3, max_parts: 3, max_items: 4 };
    let pruning = g.below(4) != 3;
    let n_commits = 1 + g.len(s.max_commits - 1);

    let dir = case_dir("c15-");
    let mut stores: Vec<(&'static str, Box<dyn Store>)> = vec![(MEM, Box::new(InMemorySubstateDatabase::standard()))];
    stores.push((ROCKS, open_rocks(dir.path())));
    if s.three {
        stores.push((MERKLE, open_merkle(dir.path(), pruning)));
    }

    let mut model = Model::default();
    let mut history: Vec<String> = Vec::new();
    let (mut seen_reset, mut seen_last, mut seen_cross, mut seen_recreate) = (false, false, false, false);
    let mut reopened = 0u64;
    let mut probes_done = 0u64;
    let mut result = Outcome::Pass;

    'run: for step in 0..n_commits {
        let commit = gen_commit(g, &alphabet, &model, &shape);
        let eff = effects(&model, &commit);
        seen_reset |= eff.reset_of_populated;
        seen_last |= eff.deleted_last;
        seen_recreate |= eff.recreated_partition;
        model.apply(&commit);
        history.push(render_commit(&commit));
        let updates = commit.to_database_updates();
        for (name, db) in stores.iter_mut() {
            if let Err(p) = catch(|| db.commit(&updates)) {
                result = Outcome::fail(
                    format!("{}::commit panics", name),
                    format!("commit #{} panicked: {}\nhistory: {}", step + 1, p, history.join(" | ")),
                );
                break 'run;
            }
        }
        let reopen = g.chance(1, 6);
        if reopen {
            // close first (rocksdb holds a lock file), then reopen from the directory
            stores.truncate(1);
            stores.push((ROCKS, open_rocks(dir.path())));
            if s.three {
                stores.push((MERKLE, open_merkle(dir.path(), pruning)));
            }
            reopened += 1;
        }
        let touched: BTreeSet<(Vec<u8>, u8)> =
            commit.nodes.iter().flat_map(|(n, ps)| ps.iter().map(move |(p, _)| (n.clone(), *p))).collect();
        let scope = if reopen || step + 1 == n_commits { Scope::Full } else { Scope::Touched };
        // every observation lists every partition from its start: once two partitions are populated,
        // the listing of the first one (flat rocksdb key order) runs into the other one's keys and
        // must stop at the boundary
        if model.partitions().len() >= 2 {
            seen_cross = true;
        }
        for (name, db) in stores.iter() {
            let r = catch(|| observe(name, db.as_ref(), &model, &probes, &touched, scope));
            let f = match r {
                Ok(Ok(n)) => {
                    probes_done += n;
                    continue;
                }
                Ok(Err(f)) => f,
                Err(p) => Failure { signature: format!("{}: panic while reading", name), message: format!("panicked: {}", p) },
            };
            result = Outcome::fail(
                f.signature,
                format!(
                    "after commit #{}{}: {}\nhistory: {}\nmodel: {}",
                    step + 1,
                    if reopen { " and reopen" } else { "" },
                    f.message,
                    history.join(" | "),
                    render_model(&model)
                ),
            );
            break 'run;
        }
    }
    drop(stores);
    drop(dir);

    if seen_reset {
        g.label("reset of a populated partition");
    }
    if seen_last {
        g.label("delete of a partition's last substate");
    }
    if seen_cross {
        g.label("listing next to a populated partition (flat key order)");
    }
    if seen_recreate {
        g.label("emptied partition populated again");
    }
    if reopened > 0 {
        g.label("rocksdb stores reopened");
    }
    if s.three && !pruning {
        g.label("merkle store without pruning");
    }
    if alphabet.nodes.iter().any(|n| n.len() == 50) {
        g.label("node key from SpreadPrefixKeyMapper");
    }
    if alphabet.nodes.iter().map(|n| n.len()).collect::<BTreeSet<_>>().len() > 1 {
        g.label("node keys of different lengths");
    }
    if alphabet.nodes.iter().any(|a| alphabet.nodes.iter().any(|b| a.len() < b.len() && b[..a.len()] == a[..])) {
        g.label("node key that is a prefix of another node key");
    }
    if alphabet.sorts.iter().flatten().any(|k| k.len() > 1000) {
        g.label("sort key of maximal size (1046 x 0xFF)");
    }
    if alphabet.sorts.iter().flatten().any(|k| k.is_empty()) || alphabet.nodes.iter().any(|k| k.is_empty()) {
        g.label("empty node or sort key");
    }
    {
        let all: Vec<&Vec<u8>> = alphabet.sorts.iter().flatten().collect();
        if all.iter().any(|a| all.iter().any(|b| a.len() < b.len() && b[..a.len()] == a[..])) {
            g.label("sort key that is a prefix of another partition's sort key");
        }
    }
    g.count("commits", history.len() as u64);
    g.count("reopens", reopened);
    g.count("reads and listings compared", probes_done);
    g.set_nontrivial(seen_reset && seen_last && seen_cross);
    g.sample(|| {
        format!(
            "nodes [{}] partitions {:?} sort alphabets [{}]; history: {}",
            alphabet.nodes.iter().map(|n| hx(n)).collect::<Vec<_>>().join(","),
            alphabet.parts,
            alphabet.sorts.iter().map(|a| a.iter().map(|k| hx(k)).collect::<Vec<_>>().join(",")).collect::<Vec<_>>().join(" ; "),
            history.join(" | ")
        )
    });
    result
}

pub fn check() -> Check {
    let three = Setup {
        three: true,
        domain: Domain { prefix_free: true, max_nodes: 4, max_parts: 3, max_sort_alphas: 3, max_sort_keys: 5, max_key_len: 64, long_keys: true },
        max_commits: 25,
    };
    let wide = Setup {
        three: false,
        domain: Domain { prefix_free: false, max_nodes: 4, max_parts: 3, max_sort_alphas: 3, max_sort_keys: 5, max_key_len: 64, long_keys: true },
        max_commits: 25,
    };
    Check::new(
        "C15",
        "All substate store implementations are observationally equivalent",
        "histories of 1-25 commits (delta sets/deletes, resets, empty updates) over small alphabets of node keys, partition numbers and sort keys (mapper-produced and raw 1..=64-byte strings with 0x00/0xFF runs, prefixes of other partitions' keys), applied in lock-step to the three stores and a BTreeMap model, rocksdb stores reopened at random points; non-trivial = the history resets a populated partition, deletes a partition's last substate, and lists a partition that is followed by a populated partition in the flat rocksdb key order",
    )
    .assume("part `three stores`: node keys pairwise prefix-free and sort keys prefix-free within a partition (precondition of the Merkle tiers, guaranteed for real callers by SpreadPrefixKeyMapper); part `memory vs rocksdb` drops that restriction (prefix-related and empty keys) and therefore leaves the Merkle store out")
    .assume("keys up to 64 bytes plus the maximal mapper-produced sort key (1046 bytes); values 0..=64 bytes")
    .assume("list_partition_keys is compared as a set (its order is documented as arbitrary)")
    .min_nontrivial_pct(15.0)
    .part(Part::new("three stores", 1200, 60_000, 1400, move |g| case(g, &three)))
    .part(Part::new("memory vs rocksdb", 600, 30_000, 1400, move |g| case(g, &wide)))
}
