//! Reachability walk over the physical nodes of a `TypedInMemoryTreeStore` (C18 oracle).
//!
//! Written against the storage layout only (tree_store.rs: `StoredTreeNodeKey`, `TreeNode`,
//! `TreeInternalNode.children[..].{nibble, version}`, `TreeLeafNode.{key_suffix,
//! last_hash_change_version}`; tier files: the nested tier of an upper-tier leaf is rooted at
//! `(leaf payload version, entity ‖ '_' [‖ partition ‖ '_'])`). It calls no tree-reading code of
//! the repository.

use radix_substate_store_impls::state_tree::tier_framework::TIER_SEPARATOR;
use radix_substate_store_impls::state_tree::tree_store::*;
use std::collections::{BTreeMap, BTreeSet};

pub type NodeMap = BTreeMap<StoredTreeNodeKey, TreeNode>;

/// Snapshot of a store's nodes in a deterministic order.
pub fn snapshot(store: &TypedInMemoryTreeStore) -> NodeMap {
    store.tree_nodes.borrow().iter().map(|(k, v)| (k.clone(), v.clone())).collect()
}

#[derive(Debug, Default, Clone, PartialEq, Eq)]
pub struct Walk {
    /// Every node key visited from the root, across the three tiers.
    pub reachable: BTreeSet<StoredTreeNodeKey>,
    /// `(node key, partition, sort key) ↦ value hash` of every substate-tier leaf reached.
    pub substates: BTreeMap<(Vec<u8>, u8, Vec<u8>), [u8; 32]>,
}

pub fn show_key(k: &StoredTreeNodeKey) -> String {
    format!("v{}:{}", k.version(), k.nibble_path())
}

fn root_key(version: Version, prefix: &[u8]) -> StoredTreeNodeKey {
    StoredTreeNodeKey::new(version, NibblePath::new_even(prefix.to_vec()))
}

/// Leaves of one tier: `(full leaf key bytes, leaf node)`.
fn walk_tier(nodes: &NodeMap, root: StoredTreeNodeKey, prefix_len: usize, reachable: &mut BTreeSet<StoredTreeNodeKey>, what: &str) -> Result<Vec<(Vec<u8>, TreeLeafNode)>, String> {
    let mut leaves = Vec::new();
    let mut stack = vec![(root.clone(), "the tier root".to_string())];
    while let Some((key, referrer)) = stack.pop() {
        let Some(node) = nodes.get(&key) else {
            return Err(format!("{} node {} (referenced by {}) is not in the store", what, show_key(&key), referrer));
        };
        reachable.insert(key.clone());
        match node {
            TreeNode::Internal(internal) => {
                for child in internal.children.iter().rev() {
                    stack.push((key.gen_child_node_key(child.version, child.nibble), format!("internal node {}", show_key(&key))));
                }
            }
            TreeNode::Leaf(leaf) => {
                let nibbles: Vec<u8> = key.nibble_path().nibbles().skip(prefix_len * 2).chain(leaf.key_suffix.nibbles()).map(u8::from).collect();
                if nibbles.len() % 2 != 0 {
                    return Err(format!("{} leaf {} has an odd number of key nibbles", what, show_key(&key)));
                }
                leaves.push((nibbles.chunks(2).map(|c| (c[0] << 4) | c[1]).collect(), leaf.clone()));
            }
            TreeNode::Null => {
                if key != root {
                    return Err(format!("{} node {} is Null but is not a tier root", what, show_key(&key)));
                }
            }
        }
    }
    Ok(leaves)
}

/// Walks everything reachable from the entity-tier root of `version`.
pub fn walk(nodes: &NodeMap, version: Version) -> Result<Walk, String> {
    let mut w = Walk::default();
    let entities = walk_tier(nodes, root_key(version, &[]), 0, &mut w.reachable, "entity-tier")?;
    for (entity_key, entity_leaf) in entities {
        let mut prefix = entity_key.clone();
        prefix.push(TIER_SEPARATOR);
        let partitions = walk_tier(nodes, root_key(entity_leaf.last_hash_change_version, &prefix), prefix.len(), &mut w.reachable, "partition-tier")?;
        for (partition_key, partition_leaf) in partitions {
            if partition_key.len() != 1 {
                return Err(format!("partition-tier leaf key {:?} of entity {} is not one byte", partition_key, hex::encode(&entity_key)));
            }
            let mut prefix2 = prefix.clone();
            prefix2.push(partition_key[0]);
            prefix2.push(TIER_SEPARATOR);
            let substates = walk_tier(nodes, root_key(partition_leaf.last_hash_change_version, &prefix2), prefix2.len(), &mut w.reachable, "substate-tier")?;
            for (sort_key, leaf) in substates {
                w.substates.insert((entity_key.clone(), partition_key[0], sort_key), leaf.value_hash.0);
            }
        }
    }
    Ok(w)
}

/// The node keys covered by a reported stale part, expanded on a store that still holds them
/// (a `Subtree` covers the node and its descendants within its tier).
pub fn expand_stale_part(nodes: &NodeMap, part: &StaleTreePart) -> Vec<StoredTreeNodeKey> {
    match part {
        StaleTreePart::Node(k) => vec![k.clone()],
        StaleTreePart::Subtree(k) => {
            let mut out = Vec::new();
            let mut stack = vec![k.clone()];
            while let Some(key) = stack.pop() {
                if let Some(TreeNode::Internal(internal)) = nodes.get(&key) {
                    for child in &internal.children {
                        stack.push(key.gen_child_node_key(child.version, child.nibble));
                    }
                }
                out.push(key);
            }
            out
        }
    }
}
