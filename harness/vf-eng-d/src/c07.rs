//! C07 part (b): notarized V1 / V2 transactions (V2 also with subintents) with generated validity
//! windows are executed, epochs move on (real round changes of a genesis whose every round ends the
//! epoch, and `set_current_epoch` jumps of < 100 epochs each followed by a real change), and every
//! earlier transaction - and earlier subintents inside new roots - is submitted again.
//! Reference: a set of committed intents; the receipt of every submission must match it.

use radix_engine::blueprints::transaction_tracker::TransactionTrackerSubstate;
use radix_engine::system::system_substates::FieldSubstate;
use radix_engine::system::system_db_reader::SystemDatabaseReader;
use radix_substate_store_queries::typed_substate_layout::*;
use radix_transactions::validation::TransactionValidationConfig;
use scrypto_test::prelude::*;
use std::collections::BTreeSet;
use vf_core::{Check, Gen, Outcome, Part};
use vf_world::*;

fn read_epoch(w: &World) -> u64 {
    let reader = SystemDatabaseReader::new(w.db());
    reader
        .read_typed_object_field::<ConsensusManagerStateFieldPayload>(CONSENSUS_MANAGER.as_node_id(), ModuleId::Main, ConsensusManagerField::State.field_index())
        .expect("consensus manager state")
        .fully_update_and_into_latest_version()
        .epoch
        .number()
}

fn tracker_start(w: &World) -> u64 {
    let s: FieldSubstate<TransactionTrackerSubstate> = w
        .db()
        .get_substate(TRANSACTION_TRACKER.as_node_id(), MAIN_BASE_PARTITION, TransactionTrackerField::TransactionTracker)
        .expect("transaction tracker substate");
    s.into_payload().into_v1().start_epoch
}

#[derive(Clone)]
struct Partial {
    signed: SignedPartialTransactionV2,
    id: usize,
    window: (u64, u64),
    fails: bool,
}

struct Tx {
    raw: RawNotarizedTransaction,
    root: usize,
    subs: Vec<usize>,
    /// intersection of the windows of all intents
    window: (u64, u64),
    /// windows of the intents: (id, start, end)
    intents: Vec<(usize, u64, u64)>,
    fails: bool,
    what: String,
}

struct Hist {
    epoch: u64,
    boundary_base: u64,
    next_id: usize,
    nonce: u64,
    /// intents recorded as committed: (id, end epoch, epoch of the commit)
    committed: Vec<(usize, u64, u64)>,
    txs: Vec<Tx>,
    partials: Vec<Partial>,
    log: Vec<String>,
    late_resubmissions: u64,
    boundary_expiries: u64,
    resubmissions: u64,
    real_changes: u64,
    jumps: u64,
}

fn gen_window(g: &mut Gen, h: &Hist, max_range: u64, within: Option<(u64, u64)>) -> (u64, u64) {
    let cur = h.epoch;
    // start: mostly now or a little earlier, sometimes in the future
    let start = match g.weighted(&[5, 4, 2, 1]) {
        0 => cur,
        1 => cur.saturating_sub(g.below(300)),
        2 => cur + 1 + g.below(5),
        _ => cur + 1 + g.below(400),
    };
    let mut end = match g.weighted(&[3, 3, 5, 2, 1]) {
        0 => start + 1 + g.below(3),
        1 => start + 1 + g.below(max_range),
        2 => {
            // next to a ring partition boundary (boundaries sit at tracker start + 100 m)
            let base = start + 1 + g.below(600.min(max_range - 2));
            let b = h.boundary_base + ((base.saturating_sub(h.boundary_base)) / 100 + g.below(2)) * 100;
            (b as i128 + g.range(-1, 1)) as u64
        }
        3 => start + max_range - g.below(3),
        _ => start + 100 + g.below(300),
    };
    if end <= start {
        end = start + 1;
    }
    if end - start > max_range {
        end = start + max_range;
    }
    let (mut s, mut e) = (start, end);
    if let Some((ws, we)) = within {
        // a subintent window that overlaps the root's
        if s >= we || e <= ws {
            s = ws.saturating_sub(g.below(20));
            e = (s + 1 + g.below(max_range)).max(ws + 1);
        }
        e = e.min(s + max_range);
    }
    (s, e)
}

fn near_boundary(h: &Hist, end: u64) -> bool {
    let off = (end + 100 - h.boundary_base % 100) % 100;
    off == 0 || off == 1 || off == 99
}

fn new_partial(g: &mut Gen, w: &mut World, h: &mut Hist, max_range: u64, root_window: (u64, u64)) -> Partial {
    let window = gen_window(g, h, max_range, Some(root_window));
    let fails = g.chance(1, 6);
    h.nonce += 1;
    let mut b = ManifestBuilder::new_subintent_v2();
    if fails {
        b = b.assert_worktop_contains(XRD, 1);
    }
    let signed = PartialTransactionV2Builder::new()
        .intent_header(IntentHeaderV2 {
            network_id: NetworkDefinition::simulator().id,
            start_epoch_inclusive: Epoch::of(window.0),
            end_epoch_exclusive: Epoch::of(window.1),
            min_proposer_timestamp_inclusive: None,
            max_proposer_timestamp_exclusive: None,
            intent_discriminator: h.nonce,
        })
        .manifest(b.yield_to_parent(()).build())
        .build_minimal();
    let _ = w;
    h.next_id += 1;
    if near_boundary(h, window.1) {
        h.boundary_expiries += 1;
    }
    let p = Partial { signed, id: h.next_id, window, fails };
    h.partials.push(p.clone());
    p
}

/// Build a notarized transaction. `reuse`: partials to carry (else fresh ones are made for V2 with children).
fn new_tx(g: &mut Gen, w: &mut World, h: &mut Hist, max_range: u64, reuse: Option<Vec<Partial>>) -> Result<Tx, String> {
    let notary = w.sim.default_notary();
    let window = match &reuse {
        Some(ps) => {
            // a root window overlapping the intersection of the carried subintents
            let s = ps.iter().map(|p| p.window.0).max().unwrap();
            let e = ps.iter().map(|p| p.window.1).min().unwrap();
            let start = if g.bool() { s } else { s.saturating_sub(g.below(50)) };
            let end = (e + g.below(50)).max(start + 1).min(start + max_range);
            (start, end)
        }
        None => gen_window(g, h, max_range, None),
    };
    let root_fails = g.chance(1, 4);
    h.nonce += 1;
    h.next_id += 1;
    let root = h.next_id;
    if near_boundary(h, window.1) {
        h.boundary_expiries += 1;
    }
    let kind = if reuse.is_some() { 2 } else { g.weighted(&[3, 3, 3]) };
    let network_id = NetworkDefinition::simulator().id;
    let (raw, subs, fails, what): (RawNotarizedTransaction, Vec<Partial>, bool, String) = match kind {
        0 => {
            let mut b = ManifestBuilder::new().lock_fee_from_faucet();
            if root_fails {
                b = b.assert_worktop_contains(XRD, 1);
            }
            let tx = TransactionV1Builder::new()
                .header(TransactionHeaderV1 {
                    network_id,
                    start_epoch_inclusive: Epoch::of(window.0),
                    end_epoch_exclusive: Epoch::of(window.1),
                    nonce: h.nonce as u32,
                    notary_public_key: notary.public_key().into(),
                    notary_is_signatory: false,
                    tip_percentage: 0,
                })
                .manifest(b.build())
                .notarize(&notary)
                .build();
            (tx.to_raw().map_err(|e| format!("{:?}", e))?, vec![], root_fails, "V1".into())
        }
        1 => {
            let mut b = ManifestBuilder::new_v2().lock_fee_from_faucet();
            if root_fails {
                b = b.assert_worktop_contains(XRD, 1);
            }
            let tx = TransactionV2Builder::new()
                .intent_header(IntentHeaderV2 {
                    network_id,
                    start_epoch_inclusive: Epoch::of(window.0),
                    end_epoch_exclusive: Epoch::of(window.1),
                    min_proposer_timestamp_inclusive: None,
                    max_proposer_timestamp_exclusive: None,
                    intent_discriminator: h.nonce,
                })
                .transaction_header(TransactionHeaderV2 { notary_public_key: notary.public_key().into(), notary_is_signatory: false, tip_basis_points: 0 })
                .manifest(b.build())
                .notarize(&notary)
                .build_minimal_no_validate();
            (tx.to_raw().map_err(|e| format!("{:?}", e))?, vec![], root_fails, "V2".into())
        }
        _ => {
            let children: Vec<Partial> = match reuse {
                Some(ps) => ps,
                None => {
                    let n = 1 + g.below(2);
                    (0..n).map(|_| new_partial(g, w, h, max_range, window)).collect()
                }
            };
            let mut builder = TransactionV2Builder::new()
                .intent_header(IntentHeaderV2 {
                    network_id,
                    start_epoch_inclusive: Epoch::of(window.0),
                    end_epoch_exclusive: Epoch::of(window.1),
                    min_proposer_timestamp_inclusive: None,
                    max_proposer_timestamp_exclusive: None,
                    intent_discriminator: h.nonce,
                })
                .transaction_header(TransactionHeaderV2 { notary_public_key: notary.public_key().into(), notary_is_signatory: false, tip_basis_points: 0 });
            for (i, c) in children.iter().enumerate() {
                builder = builder.add_signed_child(format!("c{}", i), c.signed.clone());
            }
            let n_children = children.len();
            let tx = builder
                .manifest_builder(|mut b| {
                    b = b.lock_fee_from_faucet();
                    for i in 0..n_children {
                        b = b.yield_to_child(format!("c{}", i), ());
                    }
                    if root_fails {
                        b = b.assert_worktop_contains(XRD, 1);
                    }
                    b
                })
                .notarize(&notary)
                .build_minimal_no_validate();
            let fails = root_fails || children.iter().any(|c| c.fails);
            let what = format!("V2 with subintents {:?}", children.iter().map(|c| format!("#{} [{}, {}){}", c.id, c.window.0, c.window.1, if c.fails { " failing" } else { "" })).collect::<Vec<_>>());
            (tx.to_raw().map_err(|e| format!("{:?}", e))?, children, fails, what)
        }
    };
    let mut intents = vec![(root, window.0, window.1)];
    let mut overall = window;
    for s in &subs {
        intents.push((s.id, s.window.0, s.window.1));
        overall = (overall.0.max(s.window.0), overall.1.min(s.window.1));
    }
    if overall.0 >= overall.1 {
        return Err("no common window".into());
    }
    Ok(Tx { raw, root, subs: subs.iter().map(|s| s.id).collect(), window: overall, intents, fails, what })
}

#[derive(Debug, PartialEq, Eq, Clone, Copy)]
enum Expect {
    NotYetValid,
    NoLongerValid,
    AlreadyCommitted,
    Success,
    Failure,
}

fn submit(g: &mut Gen, w: &mut World, h: &mut Hist, i: usize, resubmission: bool) -> Result<(), Outcome> {
    let cur = h.epoch;
    let (expect, hit) = {
        let tx = &h.txs[i];
        let hit: Vec<(usize, u64)> = tx.intents.iter().filter_map(|(id, _, _)| h.committed.iter().find(|c| c.0 == *id).map(|c| (c.0, c.2))).collect();
        let e = if cur < tx.window.0 {
            Expect::NotYetValid
        } else if cur >= tx.window.1 {
            Expect::NoLongerValid
        } else if !hit.is_empty() {
            Expect::AlreadyCommitted
        } else if tx.fails {
            Expect::Failure
        } else {
            Expect::Success
        };
        (e, hit)
    };
    let raw = h.txs[i].raw.clone();
    let run = w.run_notarized(raw);
    let tx = &h.txs[i];
    let got = match (&run.panic, &run.receipt) {
        (Some(p), _) => Err(p.clone()),
        (None, Some(r)) => Ok(match &r.result {
            TransactionResult::Commit(c) => match c.outcome {
                TransactionOutcome::Success(_) => Some(Expect::Success),
                TransactionOutcome::Failure(_) => Some(Expect::Failure),
            },
            TransactionResult::Reject(rej) => match &rej.reason {
                RejectionReason::TransactionEpochNotYetValid { .. } => Some(Expect::NotYetValid),
                RejectionReason::TransactionEpochNoLongerValid { .. } => Some(Expect::NoLongerValid),
                RejectionReason::IntentHashPreviouslyCommitted(_) => Some(Expect::AlreadyCommitted),
                _ => None,
            },
            TransactionResult::Abort(_) => None,
        }),
        _ => Err("no receipt".into()),
    };
    h.log.push(format!(
        "epoch {}: {} tx root #{} {} window [{}, {}){} -> {}",
        cur,
        if resubmission { "re-submit" } else { "submit" },
        tx.root,
        tx.what,
        tx.window.0,
        tx.window.1,
        if tx.fails { " (planned failure)" } else { "" },
        run.outcome_string()
    ));
    let ctx = |h: &Hist| format!("expected {:?}; history: {}", expect, h.log.join("; "));
    let got = match got {
        Err(p) if p.starts_with("VALIDATION") => return Err(Outcome::fail("harness: C07 generated transaction does not validate", ctx(h))),
        Err(p) => return Err(Outcome::fail("host panic while executing a notarized transaction", format!("{}; {}", p, ctx(h)))),
        Ok(None) => return Err(Outcome::fail("harness: C07 unexpected receipt kind", ctx(h))),
        Ok(Some(x)) => x,
    };
    if got != expect {
        let sig = match (expect, got) {
            (Expect::AlreadyCommitted, Expect::Success | Expect::Failure) => {
                if hit.iter().any(|(id, _)| *id == tx.root) {
                    "a committed transaction intent is committed a second time inside its validity window"
                } else {
                    "a successfully committed subintent is committed a second time inside its validity window"
                }
            }
            (Expect::NotYetValid | Expect::NoLongerValid, Expect::Success | Expect::Failure) => "a transaction is committed outside its validity window",
            (Expect::Success | Expect::Failure, Expect::AlreadyCommitted) => {
                if tx.subs.is_empty() {
                    "a transaction intent never committed is rejected as previously committed"
                } else {
                    "a transaction whose intents were never committed (subintents only in failed transactions) is rejected as previously committed"
                }
            }
            (Expect::Success | Expect::Failure, Expect::NotYetValid | Expect::NoLongerValid) => "a transaction inside its validity window is rejected as outside",
            (Expect::AlreadyCommitted, _) => "a replayed intent inside its window is rejected with another reason than previously-committed",
            (Expect::NotYetValid, Expect::NoLongerValid) | (Expect::NoLongerValid, Expect::NotYetValid) => "wrong side of the validity window reported",
            _ => "notarized transaction outcome differs from the plan",
        };
        return Err(Outcome::fail(sig, ctx(h)));
    }
    if expect == Expect::AlreadyCommitted {
        h.resubmissions += 1;
        g.count("replays rejected inside the window", 1);
        if hit.iter().any(|(_, at)| cur >= at + 100) {
            h.late_resubmissions += 1;
        }
    }
    match got {
        Expect::Success => {
            let ids: Vec<(usize, u64)> = tx.intents.iter().map(|(id, _, e)| (*id, *e)).collect();
            for (id, e) in ids {
                h.committed.push((id, e, cur));
            }
        }
        Expect::Failure => {
            let (id, _, e) = tx.intents[0];
            h.committed.push((id, e, cur));
        }
        _ => {}
    }
    Ok(())
}

fn real_epoch_change(w: &mut World, h: &mut Hist) -> Result<(), Outcome> {
    let sim = &mut w.sim;
    let r = vf_core::catch(move || sim.advance_to_round(Round::of(1)));
    h.epoch += 1;
    h.real_changes += 1;
    match r {
        Ok(receipt) if receipt.is_commit_success() => {}
        Ok(receipt) => return Err(Outcome::fail("harness: C07 round change failed", format!("{:?}; history: {}", receipt.result, h.log.join("; ")))),
        Err(p) => return Err(Outcome::fail("host panic during a round change", format!("{}; history: {}", p, h.log.join("; ")))),
    }
    let actual = read_epoch(w);
    if actual != h.epoch {
        return Err(Outcome::fail("harness: C07 epoch model out of step", format!("model {} ledger {}; history: {}", h.epoch, actual, h.log.join("; "))));
    }
    Ok(())
}

fn case(g: &mut Gen) -> Outcome {
    let max_range = TransactionValidationConfig::latest().max_epoch_range;
    with_world("c07", no_genesis, no_build, |w| {
        let epoch = read_epoch(w);
        let mut h = Hist {
            epoch,
            boundary_base: tracker_start(w),
            next_id: 0,
            nonce: 1_000_000,
            committed: Vec::new(),
            txs: Vec::new(),
            partials: Vec::new(),
            log: Vec::new(),
            late_resubmissions: 0,
            boundary_expiries: 0,
            resubmissions: 0,
            real_changes: 0,
            jumps: 0,
        };
        // age the ledger a little so that windows can start in the past
        if g.bool() {
            let n = 1 + g.below(90);
            w.sim.set_current_epoch(Epoch::of(h.epoch + n));
            h.epoch += n;
            h.log.push(format!("jump {} epochs", n));
            if let Err(o) = real_epoch_change(w, &mut h) {
                return o;
            }
        }
        let steps = 3 + g.len(40);
        for _ in 0..steps {
            match g.weighted(&[5, 6, 3, 4, 2]) {
                0 => {
                    match new_tx(g, w, &mut h, max_range, None) {
                        Ok(tx) => h.txs.push(tx),
                        Err(_) => continue,
                    }
                    let i = h.txs.len() - 1;
                    if let Err(o) = submit(g, w, &mut h, i, false) {
                        return o;
                    }
                }
                1 => {
                    if h.txs.is_empty() {
                        continue;
                    }
                    let i = g.index(h.txs.len());
                    if let Err(o) = submit(g, w, &mut h, i, true) {
                        return o;
                    }
                }
                2 => {
                    // an earlier subintent inside a new root
                    if h.partials.is_empty() {
                        continue;
                    }
                    let p = h.partials[g.index(h.partials.len())].clone();
                    match new_tx(g, w, &mut h, max_range, Some(vec![p])) {
                        Ok(tx) => h.txs.push(tx),
                        Err(_) => continue,
                    }
                    let i = h.txs.len() - 1;
                    if let Err(o) = submit(g, w, &mut h, i, true) {
                        return o;
                    }
                }
                3 => {
                    let n = 1 + g.below(3);
                    h.log.push(format!("{} epoch change(s)", n));
                    for _ in 0..n {
                        if let Err(o) = real_epoch_change(w, &mut h) {
                            return o;
                        }
                    }
                }
                _ => {
                    // a jump of < 100 epochs (not reachable by protocol), then one real change so that the ring keeps up
                    let n = match g.weighted(&[2, 3, 2]) {
                        0 => 1 + g.below(20),
                        1 => 95 + g.below(4),
                        _ => 1 + g.below(98),
                    };
                    w.sim.set_current_epoch(Epoch::of(h.epoch + n));
                    h.epoch += n;
                    h.jumps += 1;
                    h.log.push(format!("jump {} epochs", n));
                    if let Err(o) = real_epoch_change(w, &mut h) {
                        return o;
                    }
                }
            }
        }
        // finally every transaction once more
        for i in 0..h.txs.len() {
            if let Err(o) = submit(g, w, &mut h, i, true) {
                return o;
            }
        }
        if h.late_resubmissions > 0 {
            g.nontrivial();
            g.label("replay attempted >= 100 epochs after the commit");
        }
        if h.boundary_expiries > 0 && h.resubmissions > 0 {
            g.nontrivial();
            g.label("expiry within 1 epoch of a partition boundary");
        }
        if h.txs.iter().any(|t| !t.subs.is_empty()) {
            g.label("V2 with subintents");
        }
        if h.resubmissions > 0 {
            g.label("replay rejected as previously committed");
        }
        if h.jumps > 0 {
            g.label("set_current_epoch jump used");
        }
        let committed_ids: BTreeSet<usize> = h.committed.iter().map(|c| c.0).collect();
        g.count("intents committed", committed_ids.len() as u64);
        g.count("submissions", h.log.len() as u64);
        g.count("real epoch changes", h.real_changes);
        g.sample(|| h.log.join("; "));
        Outcome::Pass
    })
}

pub fn engine_part() -> Part {
    Part::new("engine", 600, 30_000, 600, case)
}

pub fn check() -> Check {
    Check::new(
        "C07",
        "An intent can be committed at most once before it expires",
        "part ring (pure model of the tracker ring): a TransactionTrackerSubstateV1 created as the blueprint creates it (genesis epoch 0..10^6), aged by 0..384 partitions of quiet epochs, then 1-41 steps of user commits (1-3 intents each, expiry anywhere in (current, current + max_epoch_range], biased to partition boundaries +-1, to both ends of the admitted range and to the ring seam 255->65), single epoch changes and bursts of 2..8840 epoch changes; every commit is applied as update_transaction_tracker applies it (write, then at most one advance + partition delete). After every commit that advances the ring, and after every step, each committed intent with current < expiry is looked up as validate_intent_hash_uncosted does. part engine: histories of 3-43 steps on the simulator (every round change ends the epoch): submit a new notarized transaction (V1, V2, or V2 with 1-2 subintents; each intent with its own window: start now / up to 300 epochs back / up to 400 ahead, end 1-3 epochs later, anywhere up to max_epoch_range, next to a ring partition boundary +-1, or at the maximal range; 1 in 4 roots and 1 in 6 subintents fail after the fee lock), re-submit any earlier transaction, put an earlier subintent into a new root, 1-3 real epoch changes, or a set_current_epoch jump of 1-98 epochs followed by a real change; at the end every transaction is submitted once more. Reference: the set of committed intents (root always; subintents only when the transaction succeeded); every receipt must be exactly: not yet valid / no longer valid outside the intersection of the intents' windows, IntentHashPreviouslyCommitted inside it when any carried intent is in the set, else commit with the planned outcome. Non-trivial = a replay attempted >= 100 epochs after the commit (ring) / rejected inside the window >= 100 epochs later, or an expiry within 1 epoch of a partition boundary. Distinct = distinct decoded choice sequences.",
    )
    .assume("part ring re-implements the ten lines of update_transaction_tracker that drive the substate (write to partition_for_expiry_epoch, one advance per commit when next_epoch >= start_epoch + epochs_per_partition, delete the returned partition); a defect in that caller itself is only visible to the engine-level part")
    .assume("part engine: set_current_epoch jumps (< 100 epochs, each followed by a committed round change) are not reachable by protocol; they are used to travel further along the ring than real epoch changes allow in the time budget")
    .assume("part engine: a new root carrying a subintent that was only part of failed transactions is expected to commit (subintents are nullified on success only)")
    .part(vf_kernel::c07_ring_part())
    .part(engine_part())
    .min_nontrivial_pct(20.0)
}
