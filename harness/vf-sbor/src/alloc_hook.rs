//! Hook through which a binary that installs a counting `#[global_allocator]` lets the checks read
//! "peak bytes allocated by this thread during this call". The library itself does not install an
//! allocator: without the hook a measurement reports `None` (not measured).

use std::sync::OnceLock;

#[derive(Clone, Copy)]
pub struct Hooks {
    /// Start measuring on the calling thread (current = 0, peak = 0).
    pub begin: fn(),
    /// Stop measuring on the calling thread and return the peak of (allocated - freed) bytes seen
    /// since `begin`, counting only this thread's allocator calls.
    pub end: fn() -> usize,
}

static HOOKS: OnceLock<Hooks> = OnceLock::new();

pub fn install(h: Hooks) {
    let _ = HOOKS.set(h);
}

pub fn installed() -> bool {
    HOOKS.get().is_some()
}

/// Run `f`; returns its result and the peak of live bytes this thread allocated while it ran
/// (`None` when no counting allocator is installed). Panics inside `f` propagate after the
/// measurement is closed.
pub fn measure<R>(f: impl FnOnce() -> R) -> (R, Option<usize>) {
    match HOOKS.get() {
        None => (f(), None),
        Some(h) => {
            struct Guard(fn() -> usize, bool);
            impl Drop for Guard {
                fn drop(&mut self) {
                    if !self.1 {
                        let _ = (self.0)();
                    }
                }
            }
            (h.begin)();
            let mut guard = Guard(h.end, false);
            let r = f();
            guard.1 = true;
            let peak = (h.end)();
            (r, Some(peak))
        }
    }
}
