fn main() {
    vf_core::main_with(vf_bp_a::checks());
}
