//! Execution helpers shared by C01 and C02: building executables, executing without committing on a
//! chosen `VmModules`, comparable receipt parts, raw database diffs.

use radix_transactions::manifest::BuildableManifest;
use scrypto_test::prelude::*;
use std::collections::BTreeMap;
use vf_world::*;

pub type Modules = VmModules<DefaultWasmEngine, PuppetExtension>;
pub type Db = InMemorySubstateDatabase;

pub fn new_modules() -> Modules {
    VmModules::default_with_extension(PuppetExtension)
}

/// The executable a `LedgerSimulator::execute_manifest` call would build for this manifest.
pub fn executable(
    w: &World,
    manifest: TransactionManifestV1,
    nonce: u32,
    proofs: &[NonFungibleGlobalId],
) -> Result<ExecutableTransaction, String> {
    manifest.into_executable_with_proofs(nonce, proofs.iter().cloned().collect(), w.sim.transaction_validator())
}

/// Executes without committing; a host panic is returned as `Err`.
pub fn exec(db: &Db, modules: &Modules, cfg: &ExecutionConfig, exe: &ExecutableTransaction) -> Result<TransactionReceipt, String> {
    vf_core::catch(|| execute_transaction(db, modules, cfg, exe))
}

pub fn commit(db: &mut Db, receipt: &TransactionReceipt) {
    if let TransactionResult::Commit(c) = &receipt.result {
        db.commit(&c.state_updates.create_database_updates());
    }
}

pub fn outcome_string(receipt: &TransactionReceipt) -> String {
    match &receipt.result {
        TransactionResult::Commit(c) => match &c.outcome {
            TransactionOutcome::Success(_) => "CommitSuccess".to_string(),
            TransactionOutcome::Failure(e) => format!("CommitFailure({:?})", e),
        },
        TransactionResult::Reject(r) => format!("Reject({:?})", r.reason),
        TransactionResult::Abort(a) => format!("Abort({:?})", a.reason),
    }
}

/// The parts of a receipt the determinism property speaks about, each SBOR-encoded. Excluded: the
/// diagnostics being toggled (`fee_details`, `debug_information`, `execution_trace`,
/// `resources_usage`) and the receipt annotations derived from them after the fact.
pub fn parts(receipt: &TransactionReceipt) -> Vec<(&'static str, Vec<u8>)> {
    let mut out: Vec<(&'static str, Vec<u8>)> = Vec::new();
    out.push(("costing parameters", scrypto_encode(&receipt.costing_parameters).unwrap()));
    out.push(("transaction costing parameters", scrypto_encode(&receipt.transaction_costing_parameters).unwrap()));
    out.push(("fee summary", scrypto_encode(&receipt.fee_summary).unwrap()));
    match &receipt.result {
        TransactionResult::Commit(c) => {
            out.push(("result kind", vec![0]));
            out.push(("outcome", scrypto_encode(&c.outcome).unwrap()));
            out.push(("state updates", scrypto_encode(&c.state_updates).unwrap()));
            out.push(("application events", scrypto_encode(&c.application_events).unwrap()));
            out.push(("application logs", scrypto_encode(&c.application_logs).unwrap()));
            out.push(("fee source", scrypto_encode(&c.fee_source).unwrap()));
            out.push(("fee destination", scrypto_encode(&c.fee_destination).unwrap()));
            let s = &c.state_update_summary;
            out.push(("new entities", scrypto_encode(&(&s.new_packages, &s.new_components, &s.new_resources, &s.new_vaults)).unwrap()));
            out.push(("performed nullifications", scrypto_encode(&c.performed_nullifications).unwrap()));
        }
        TransactionResult::Reject(r) => {
            out.push(("result kind", vec![1]));
            out.push(("rejection reason", scrypto_encode(&r.reason).unwrap()));
        }
        TransactionResult::Abort(a) => {
            out.push(("result kind", vec![2]));
            out.push(("abort reason", scrypto_encode(&a.reason).unwrap()));
        }
    }
    out
}

/// First differing part of two receipts' comparable parts.
pub fn first_difference(a: &[(&'static str, Vec<u8>)], b: &[(&'static str, Vec<u8>)]) -> Option<&'static str> {
    for (i, (name, bytes)) in a.iter().enumerate() {
        match b.get(i) {
            Some((n2, b2)) if n2 == name => {
                if b2 != bytes {
                    return Some(name);
                }
            }
            _ => return Some("result kind"),
        }
    }
    if a.len() != b.len() {
        return Some("result kind");
    }
    None
}

/// Number of substates named by the state updates of a commit.
pub fn touched_substates(c: &CommitResult) -> usize {
    let mut n = 0;
    for (_, nu) in &c.state_updates.by_node {
        let NodeStateUpdates::Delta { by_partition } = nu;
        for (_, pu) in by_partition {
            n += match pu {
                PartitionStateUpdates::Delta { by_substate } => by_substate.len(),
                PartitionStateUpdates::Batch(BatchPartitionStateUpdate::Reset { new_substate_values }) => new_substate_values.len() + 1,
            };
        }
    }
    n
}

pub type RawKey = (Vec<u8>, u8, Vec<u8>);

/// Every substate of the database, by raw database keys.
pub fn dump(db: &Db) -> BTreeMap<RawKey, Vec<u8>> {
    let mut out = BTreeMap::new();
    for pk in db.list_partition_keys() {
        for (sk, v) in db.list_raw_values_from_db_key(&pk, None) {
            out.insert((pk.node_key.clone(), pk.partition_num, sk.0), v);
        }
    }
    out
}

/// Raw keys whose value differs between the two dumps: (key, before, after).
pub fn diff(before: &BTreeMap<RawKey, Vec<u8>>, after: &BTreeMap<RawKey, Vec<u8>>) -> Vec<(RawKey, Option<Vec<u8>>, Option<Vec<u8>>)> {
    let mut out = Vec::new();
    for (k, v) in before {
        match after.get(k) {
            Some(v2) if v2 == v => {}
            other => out.push((k.clone(), Some(v.clone()), other.cloned())),
        }
    }
    for (k, v) in after {
        if !before.contains_key(k) {
            out.push((k.clone(), None, Some(v.clone())));
        }
    }
    out.sort();
    out
}

pub fn raw_key(node: &NodeId, partition: PartitionNumber, key: &SubstateKey) -> RawKey {
    let pk = SpreadPrefixKeyMapper::to_db_partition_key(node, partition);
    let sk = SpreadPrefixKeyMapper::to_db_sort_key(key);
    (pk.node_key, pk.partition_num, sk.0)
}

pub fn show_raw_key(k: &RawKey) -> String {
    let pk = DbPartitionKey { node_key: k.0.clone(), partition_num: k.1 };
    let (node, partition) = SpreadPrefixKeyMapper::from_db_partition_key(&pk);
    format!("{:?}/p{}/{}", node, partition.0, hex::encode(&k.2))
}
