//! C08: protected calls succeed exactly when the access rule is satisfied.
//!
//! A generated `AccessRule` tree guards one of five call shapes; generated proofs are placed in the
//! auth zones of the frames above the call (transaction processor, a puppet function, a method of a
//! global puppet component, a method of a frame-owned puppet object, the callee itself); the harness's
//! own evaluator of the documented semantics predicts "authorised"; the receipt must agree both ways.

use crate::util::*;
use scrypto_test::prelude::*;
use std::collections::BTreeSet;
use vf_core::{Check, Gen, Outcome, Part};
use vf_world::*;

const CODE_ROLE_PKG: u64 = PUPPET_CODE_MIN + 0x40;
const CODE_FN_PKG: u64 = PUPPET_CODE_MIN + 0x41;

struct Ext {
    /// account with owner rule AllowAll holding the badges: anybody can create proofs from it
    oa: ComponentAddress,
    /// global component of puppet package P
    g: ComponentAddress,
    /// puppet package whose `act` method is protected by role "r" (`peek` public)
    role_pkg: PackageAddress,
}

// ---- the model ---------------------------------------------------------------------------------

#[derive(Clone, Debug)]
struct ProofM {
    res: ResourceAddress,
    amount: Decimal,
    ids: BTreeSet<NonFungibleLocalId>,
}

#[derive(Clone, Debug, Default)]
struct ZoneM {
    proofs: Vec<ProofM>,
    /// implicit (signature) badges placed in the zone at creation
    implicit: BTreeSet<NonFungibleGlobalId>,
    /// preview "assume all signature proofs": every non-fungible of these resources counts as present
    simulated: BTreeSet<ResourceAddress>,
    /// package of the direct caller of the frame owning the zone
    direct_caller_package: Option<PackageAddress>,
    /// global caller: (identity, or None for a frame-owned caller which has none; its zone)
    global_caller: Option<(Option<GlobalCaller>, usize)>,
    parent: Option<usize>,
}

#[derive(Default, Debug)]
struct Visible {
    proofs: Vec<ProofM>,
    implicit: BTreeSet<NonFungibleGlobalId>,
    simulated: BTreeSet<ResourceAddress>,
}

fn add_chain(zones: &[ZoneM], mut z: usize, v: &mut Visible) {
    loop {
        v.proofs.extend(zones[z].proofs.iter().cloned());
        v.implicit.extend(zones[z].implicit.iter().cloned());
        v.simulated.extend(zones[z].simulated.iter().cloned());
        match zones[z].parent {
            Some(p) => z = p,
            None => break,
        }
    }
}

/// What an authorization check against zone `z` (the callee's zone) may use: the implicit caller badges,
/// the global caller's zone and its parents, the parents of `z` - never the proofs of `z` itself.
fn visible(zones: &[ZoneM], z: usize) -> Visible {
    let mut v = Visible::default();
    let zone = &zones[z];
    if let Some(p) = zone.direct_caller_package {
        v.implicit.insert(NonFungibleGlobalId::package_of_direct_caller_badge(p));
    }
    if let Some((who, gz)) = &zone.global_caller {
        if let Some(who) = who {
            v.implicit.insert(NonFungibleGlobalId::global_caller_badge(who.clone()));
        }
        add_chain(zones, *gz, &mut v);
    }
    if let Some(p) = zone.parent {
        add_chain(zones, p, &mut v);
    }
    v
}

fn leaf_ok(v: &Visible, r: &ResourceOrNonFungible) -> bool {
    match r {
        ResourceOrNonFungible::Resource(a) => v.proofs.iter().any(|p| p.res == *a),
        ResourceOrNonFungible::NonFungible(id) => {
            v.implicit.contains(id)
                || v.simulated.contains(&id.resource_address())
                || v.proofs.iter().any(|p| p.res == id.resource_address() && p.ids.contains(id.local_id()))
        }
    }
}

fn basic_ok(v: &Visible, b: &BasicRequirement) -> bool {
    match b {
        BasicRequirement::Require(r) => leaf_ok(v, r),
        BasicRequirement::AmountOf(n, res) => v.proofs.iter().any(|p| p.res == *res && p.amount >= *n),
        BasicRequirement::CountOf(k, list) => list.iter().filter(|r| leaf_ok(v, r)).count() >= *k as usize,
        BasicRequirement::AllOf(list) => list.iter().all(|r| leaf_ok(v, r)),
        BasicRequirement::AnyOf(list) => list.iter().any(|r| leaf_ok(v, r)),
    }
}

fn composite_ok(v: &Visible, c: &CompositeRequirement) -> bool {
    match c {
        CompositeRequirement::BasicRequirement(b) => basic_ok(v, b),
        CompositeRequirement::AnyOf(l) => l.iter().any(|c| composite_ok(v, c)),
        CompositeRequirement::AllOf(l) => l.iter().all(|c| composite_ok(v, c)),
    }
}

fn rule_ok(v: &Visible, r: &AccessRule) -> bool {
    match r {
        AccessRule::AllowAll => true,
        AccessRule::DenyAll => false,
        AccessRule::Protected(c) => composite_ok(v, c),
    }
}

/// (composite nesting depth, number of satisfied basic requirements, number of unsatisfied ones)
fn rule_stats(v: &Visible, c: &CompositeRequirement, depth: usize, out: &mut (usize, usize, usize)) {
    out.0 = out.0.max(depth);
    match c {
        CompositeRequirement::BasicRequirement(b) => {
            if basic_ok(v, b) {
                out.1 += 1
            } else {
                out.2 += 1
            }
        }
        CompositeRequirement::AnyOf(l) | CompositeRequirement::AllOf(l) => l.iter().for_each(|c| rule_stats(v, c, depth + 1, out)),
    }
}

// ---- generators ----------------------------------------------------------------------------------

struct Universe {
    f0: ResourceAddress,
    f1: ResourceAddress,
    nfa: ResourceAddress,
    nfb: ResourceAddress,
    absent_f: ResourceAddress,
    absent_nf: ResourceAddress,
    leaves: Vec<ResourceOrNonFungible>,
}

fn tp_blueprint() -> BlueprintId {
    BlueprintId::new(&TRANSACTION_PROCESSOR_PACKAGE, TRANSACTION_PROCESSOR_BLUEPRINT)
}

fn universe(w: &World) -> Universe {
    let e = w.ext::<Ext>();
    let f0 = w.badge;
    let f1 = w.fungibles[0].address;
    let nfa = w.non_fungibles[0].address;
    let nfb = w.non_fungibles[1].address;
    let absent_f = w.fungibles[2].address;
    let absent_nf = w.non_fungibles[2].address;
    let sid = |s: &str| NonFungibleLocalId::string(s).unwrap();
    let nf = |r: ResourceAddress, id: NonFungibleLocalId| ResourceOrNonFungible::NonFungible(NonFungibleGlobalId::new(r, id));
    let leaves = vec![
        ResourceOrNonFungible::Resource(f0),
        ResourceOrNonFungible::Resource(f1),
        ResourceOrNonFungible::Resource(nfa),
        ResourceOrNonFungible::Resource(nfb),
        ResourceOrNonFungible::Resource(absent_f),
        ResourceOrNonFungible::Resource(absent_nf),
        nf(nfa, NonFungibleLocalId::integer(1)),
        nf(nfa, NonFungibleLocalId::integer(2)),
        nf(nfa, NonFungibleLocalId::integer(3)),
        nf(nfa, NonFungibleLocalId::integer(11)),
        nf(nfb, sid("id_1")),
        nf(nfb, sid("id_2")),
        nf(nfb, sid("id_99")),
        ResourceOrNonFungible::NonFungible(w.accounts[0].badge()),
        ResourceOrNonFungible::NonFungible(w.accounts[2].badge()),
        ResourceOrNonFungible::NonFungible(w.accounts[1].badge()),
        global_caller(tp_blueprint()),
        global_caller(BlueprintId::new(&w.puppet_p, PUPPET_BLUEPRINT)),
        global_caller(BlueprintId::new(&w.puppet_q, PUPPET_BLUEPRINT)),
        global_caller(GlobalAddress::from(e.g)),
        global_caller(GlobalAddress::from(e.oa)),
        package_of_direct_caller(TRANSACTION_PROCESSOR_PACKAGE),
        package_of_direct_caller(w.puppet_p),
        package_of_direct_caller(w.puppet_q),
        package_of_direct_caller(PACKAGE_PACKAGE),
    ];
    Universe { f0, f1, nfa, nfb, absent_f, absent_nf, leaves }
}

const F1_AMOUNTS: [&str; 7] = ["0.000000000000000001", "0.5", "1", "2", "10", "999.999999999999999999", "1000"];

/// A leaf, biased to those a placement can satisfy (held resources and ids, caller badges).
fn pick_leaf(g: &mut Gen, u: &Universe) -> ResourceOrNonFungible {
    let i = match g.weighted(&[4, 3, 3, 5]) {
        0 => g.index(4),
        1 => 6 + g.index(3),
        2 => 13 + g.index(12),
        _ => g.index(u.leaves.len()),
    };
    u.leaves[i].clone()
}

fn gen_leaves(g: &mut Gen, u: &Universe, max: usize) -> Vec<ResourceOrNonFungible> {
    // distinct entries (the meaning of a repeated entry in count_of is not documented)
    let n = g.below(max as u64 + 1) as usize;
    let mut out: Vec<ResourceOrNonFungible> = Vec::new();
    for _ in 0..n {
        let l = pick_leaf(g, u);
        if !out.contains(&l) {
            out.push(l);
        }
    }
    out
}

fn gen_basic(g: &mut Gen, u: &Universe) -> BasicRequirement {
    match g.weighted(&[6, 4, 4, 3, 3]) {
        0 => BasicRequirement::Require(pick_leaf(g, u)),
        1 => {
            let res = *g.pick(&[u.f0, u.f1, u.nfa, u.nfb, u.absent_f]);
            let amount = if res == u.f1 {
                Decimal::try_from(*g.pick(&F1_AMOUNTS)).unwrap()
            } else if g.chance(1, 12) {
                Decimal::ZERO
            } else {
                Decimal::from(1 + g.below(7))
            };
            BasicRequirement::AmountOf(amount, res)
        }
        2 => {
            let list = gen_leaves(g, u, 5);
            let k = g.below(list.len() as u64 + 2) as u8;
            BasicRequirement::CountOf(k, list)
        }
        3 => BasicRequirement::AllOf(gen_leaves(g, u, 4)),
        _ => BasicRequirement::AnyOf(gen_leaves(g, u, 4)),
    }
}

/// `depth` = depth of this node (root 0, must stay <= MAX_ACCESS_RULE_DEPTH); `budget` = composite nodes left.
fn gen_composite(g: &mut Gen, u: &Universe, depth: usize, max_depth: usize, budget: &mut usize, prefer_branch: bool) -> CompositeRequirement {
    *budget = budget.saturating_sub(1);
    let can_branch = depth < max_depth && *budget >= 1;
    let w_branch = if !can_branch {
        0
    } else if prefer_branch {
        6
    } else {
        2
    };
    match g.weighted(&[4, w_branch + w_branch / 2, w_branch]) {
        0 => CompositeRequirement::BasicRequirement(gen_basic(g, u)),
        k => {
            let deep_chain = g.chance(1, 10);
            let want = if deep_chain { 1 } else if g.chance(1, 12) { 0 } else { 1 + g.below(4) as usize };
            let mut children = Vec::new();
            for _ in 0..want {
                if *budget == 0 {
                    break;
                }
                children.push(gen_composite(g, u, depth + 1, max_depth, budget, deep_chain));
            }
            if k == 1 {
                CompositeRequirement::AnyOf(children)
            } else {
                CompositeRequirement::AllOf(children)
            }
        }
    }
}

fn gen_rule(g: &mut Gen, u: &Universe, max_depth: usize) -> AccessRule {
    match g.weighted(&[30, 1, 1]) {
        0 => {
            let mut budget = if g.chance(1, 8) { MAX_COMPOSITE_REQUIREMENTS } else { 4 + g.below(20) as usize };
            AccessRule::Protected(gen_composite(g, u, 0, max_depth, &mut budget, true))
        }
        1 => AccessRule::AllowAll,
        _ => AccessRule::DenyAll,
    }
}

#[derive(Clone, Debug)]
enum Spec {
    Amount(ResourceAddress, Decimal),
    Ids(ResourceAddress, Vec<NonFungibleLocalId>),
}

impl Spec {
    fn model(&self) -> ProofM {
        match self {
            Spec::Amount(r, a) => ProofM { res: *r, amount: *a, ids: BTreeSet::new() },
            Spec::Ids(r, ids) => ProofM { res: *r, amount: Decimal::from(ids.len() as u64), ids: ids.iter().cloned().collect() },
        }
    }
}

fn gen_spec(g: &mut Gen, u: &Universe) -> Spec {
    let subset = |g: &mut Gen, all: Vec<NonFungibleLocalId>| -> Vec<NonFungibleLocalId> {
        let mut out: Vec<NonFungibleLocalId> = all.iter().filter(|_| g.bool()).cloned().collect();
        if out.is_empty() {
            out.push(all[0].clone());
        }
        out
    };
    match g.weighted(&[3, 3, 3, 2]) {
        0 => Spec::Amount(u.f0, Decimal::from(1 + g.below(6))),
        1 => Spec::Amount(u.f1, Decimal::try_from(*g.pick(&F1_AMOUNTS)).unwrap()),
        2 => Spec::Ids(u.nfa, subset(g, (1..=3u64).map(NonFungibleLocalId::integer).collect())),
        _ => Spec::Ids(u.nfb, subset(g, (1..=3).map(|i| NonFungibleLocalId::string(format!("id_{}", i)).unwrap()).collect())),
    }
}

fn gen_specs(g: &mut Gen, u: &Universe, max: usize) -> Vec<Spec> {
    let n = g.below(max as u64 + 1) as usize;
    (0..n).map(|_| gen_spec(g, u)).collect()
}

#[derive(Clone, Debug)]
enum TpOp {
    Create(Spec),
    PopDrop,
    DropAll,
    DropSignatures,
    DropRegular,
}

#[derive(Clone, Copy, Debug, PartialEq, Eq)]
enum Via {
    Direct,
    Func,
    Method,
    Owned,
}

#[derive(Clone, Copy, Debug, PartialEq, Eq)]
enum Shape {
    /// resource `mint`, minter role = rule
    RoleMint,
    /// resource metadata `set`, no metadata_setter role: owner role (Fixed / Updatable) = rule
    OwnerFallbackMetadata,
    /// the same with OwnerRole::None: always denied
    OwnerNoneMetadata,
    /// puppet function with FunctionAuth::AccessRules
    Function,
    /// explicit assert_access_rule in the callee (a puppet function)
    Assert,
    /// explicit assert_access_rule inside the frame-owned object's method (Via::Owned only)
    AssertInOwned,
    /// puppet component method protected by role "r" = rule
    PuppetRole,
    /// puppet component method protected by role "r", role not assigned: owner role = rule
    PuppetOwnerFallback,
}

// ---- script building -----------------------------------------------------------------------------

struct Sb {
    ops: Vec<Op>,
    slots: u8,
}

impl Sb {
    /// a script that can see the given global nodes
    fn new(visible: &[NodeId]) -> Sb {
        Sb { ops: vec![import_refs(visible)], slots: visible.len() as u8 }
    }
    fn auth_zone(&mut self) -> u8 {
        self.ops.push(Op::ActorGetNodeId(ACTOR_REF_AUTH_ZONE));
        self.slots += 1;
        self.slots - 1
    }
    /// create a proof from the open account and push it to the auth zone held in slot `az`
    fn push_proof(&mut self, az: u8, oa: ComponentAddress, spec: &Spec) {
        let (method, args) = match spec {
            Spec::Amount(r, a) => (
                ACCOUNT_CREATE_PROOF_OF_AMOUNT_IDENT,
                scrypto_encode(&AccountCreateProofOfAmountInput { resource_address: *r, amount: *a }).unwrap(),
            ),
            Spec::Ids(r, ids) => (
                ACCOUNT_CREATE_PROOF_OF_NON_FUNGIBLES_IDENT,
                scrypto_encode(&AccountCreateProofOfNonFungiblesInput { resource_address: *r, ids: ids.iter().cloned().collect() }).unwrap(),
            ),
        };
        self.ops.push(Op::CallMethod { receiver: N::Lit(*oa.as_node_id()), method: method.into(), args });
        let proof_slot = self.slots + 1;
        self.slots += 2;
        self.ops.push(Op::CallMethod {
            receiver: N::Slot(az),
            method: AUTH_ZONE_PUSH_IDENT.into(),
            args: scrypto_encode(&(Own(placeholder(proof_slot)),)).unwrap(),
        });
        self.slots += 1;
    }
    fn unit_call(&mut self, op: Op) {
        self.ops.push(op);
        self.slots += 1;
    }
    /// the protected call
    fn callee(&mut self, c: &Callee, oa: ComponentAddress) {
        match c {
            Callee::Mint(r) => {
                self.ops.push(Op::CallMethod {
                    receiver: N::Lit(*r.as_node_id()),
                    method: FUNGIBLE_RESOURCE_MANAGER_MINT_IDENT.into(),
                    args: scrypto_encode(&FungibleResourceManagerMintInput { amount: Decimal::ONE }).unwrap(),
                });
                let bucket = self.slots + 1;
                self.slots += 2;
                self.unit_call(Op::CallMethod {
                    receiver: N::Lit(*oa.as_node_id()),
                    method: ACCOUNT_DEPOSIT_IDENT.into(),
                    args: scrypto_encode(&(Own(placeholder(bucket)),)).unwrap(),
                });
            }
            Callee::MetadataSet(r) => self.unit_call(Op::CallModuleMethod {
                receiver: N::Lit(*r.as_node_id()),
                module: 1,
                method: METADATA_SET_IDENT.into(),
                args: scrypto_encode(&MetadataSetInput { key: "k".into(), value: MetadataValue::String("v".into()) }).unwrap(),
            }),
            Callee::Function(pkg, script) => self.unit_call(Op::CallFunction {
                package: *pkg,
                blueprint: PUPPET_BLUEPRINT.into(),
                function: PUPPET_RUN.into(),
                args: args_of(script),
            }),
            Callee::Method(c) => self.unit_call(Op::CallMethod { receiver: N::Lit(*c.as_node_id()), method: PUPPET_ACT.into(), args: args_of(&Script(vec![])) }),
        }
    }
}

enum Callee {
    Mint(ResourceAddress),
    MetadataSet(ResourceAddress),
    Function(PackageAddress, Script),
    Method(ComponentAddress),
}

/// Script of a frame that pushes `own` proofs to its own zone and then asserts `rule` against that zone.
fn assert_script(own: &[Spec], rule: &AccessRule, oa: ComponentAddress, refs: &[NodeId]) -> Script {
    let mut sb = Sb::new(refs);
    let az = sb.auth_zone();
    for s in own {
        sb.push_proof(az, oa, s);
    }
    sb.unit_call(Op::CallMethod {
        receiver: N::Slot(az),
        method: AUTH_ZONE_ASSERT_ACCESS_RULE_IDENT.into(),
        args: scrypto_encode(&AuthZoneAssertAccessRuleInput { rule: rule.clone() }).unwrap(),
    });
    Script(sb.ops)
}

fn build(w: &mut World) {
    let oa = w.sim.new_account_advanced(OwnerRole::Fixed(rule!(allow_all)));
    let a0 = w.accounts[0].address;
    let ids_a: Vec<NonFungibleLocalId> = (1..=3u64).map(NonFungibleLocalId::integer).collect();
    let ids_b: Vec<NonFungibleLocalId> = (1..=3).map(|i| NonFungibleLocalId::string(format!("id_{}", i)).unwrap()).collect();
    let m = ManifestBuilder::new()
        .lock_fee_from_faucet()
        .withdraw_from_account(a0, w.badge, dec!(6))
        .withdraw_from_account(a0, w.fungibles[0].address, dec!(1000))
        .withdraw_non_fungibles_from_account(a0, w.non_fungibles[0].address, ids_a)
        .withdraw_non_fungibles_from_account(a0, w.non_fungibles[1].address, ids_b)
        .try_deposit_entire_worktop_or_abort(oa, None)
        .build();
    let run = w.run(m, vec![w.accounts[0].badge()]);
    assert!(run.is_success(), "harness: funding the open account failed: {}", run.outcome_string());
    let pkg = w.puppet_p;
    let g = new_puppet_component(w, pkg, OwnerSpec::None, false);
    let mut methods = index_map_new();
    methods.insert(MethodKey::new(PUPPET_ACT), MethodAccessibility::RoleProtected(RoleList { list: vec![RoleKey::new("r")] }));
    methods.insert(MethodKey::new(PUPPET_PEEK), MethodAccessibility::Public);
    let mut roles = index_map_new();
    roles.insert(RoleKey::new("r"), RoleList { list: vec![] });
    let role_pkg = w.sim.publish_native_package(
        CODE_ROLE_PKG,
        puppet_definition(PuppetAuth {
            function_auth: FunctionAuth::AllowAll,
            method_auth: MethodAuthTemplate::StaticRoleDefinition(StaticRoleDefinition { roles: RoleSpecification::Normal(roles), methods }),
        }),
    );
    w.set_ext(Ext { oa, g, role_pkg });
}

fn describe_rule(r: &AccessRule) -> String {
    format!("{:?}", r)
}

fn case(g: &mut Gen) -> Outcome {
    with_world("c08", no_genesis, build, |w| {
        let u = universe(w);
        let (oa, gcomp, role_pkg) = {
            let e = w.ext::<Ext>();
            (e.oa, e.g, e.role_pkg)
        };
        let (p_pkg, q_pkg) = (w.puppet_p, w.puppet_q);
        let via = *g.pick(&[Via::Direct, Via::Func, Via::Method, Via::Owned]);
        let shape = {
            let mut shapes = vec![
                Shape::RoleMint,
                Shape::OwnerFallbackMetadata,
                Shape::Function,
                Shape::Assert,
                Shape::PuppetRole,
                Shape::PuppetOwnerFallback,
            ];
            if via == Via::Owned {
                shapes.push(Shape::AssertInOwned);
            }
            if g.chance(1, 25) {
                Shape::OwnerNoneMetadata
            } else {
                *g.pick(&shapes)
            }
        };
        // a package definition travels in a (system) manifest, whose SBOR depth limit of 24 leaves room for four
        // composite levels; every other rule is installed from blueprint code (Scrypto SBOR, depth 64)
        let rule = gen_rule(g, &u, if shape == Shape::Function { 3 } else { MAX_ACCESS_RULE_DEPTH });
        let all_refs: Vec<NodeId> = vec![
            *oa.as_node_id(),
            *gcomp.as_node_id(),
            *p_pkg.as_node_id(),
            *q_pkg.as_node_id(),
            *role_pkg.as_node_id(),
            *u.f0.as_node_id(),
            *u.f1.as_node_id(),
            *u.nfa.as_node_id(),
            *u.nfb.as_node_id(),
            *u.absent_f.as_node_id(),
            *u.absent_nf.as_node_id(),
            *SECP256K1_SIGNATURE_RESOURCE.as_node_id(),
            *ED25519_SIGNATURE_RESOURCE.as_node_id(),
            *GLOBAL_CALLER_RESOURCE.as_node_id(),
            *PACKAGE_OF_DIRECT_CALLER_RESOURCE.as_node_id(),
        ];
        // ---- placement ----
        let mut signers: Vec<NonFungibleGlobalId> = Vec::new();
        let mut signer_keys: Vec<PublicKey> = Vec::new();
        for i in [0usize, 2, 1] {
            if g.chance(1, 2) {
                signers.push(w.accounts[i].badge());
                signer_keys.push(w.accounts[i].key.public());
            }
        }
        let preview_assume_signatures = g.chance(1, 10);
        let mut tp_ops: Vec<TpOp> = Vec::new();
        let n_tp = g.below(7);
        let mut depth = 0usize;
        for _ in 0..n_tp {
            let op = match g.weighted(&[16, if depth > 0 { 2 } else { 0 }, 1, 2, 1]) {
                0 => TpOp::Create(gen_spec(g, &u)),
                1 => TpOp::PopDrop,
                2 => TpOp::DropAll,
                3 => TpOp::DropSignatures,
                _ => TpOp::DropRegular,
            };
            match &op {
                TpOp::Create(_) => depth += 1,
                TpOp::PopDrop => depth -= 1,
                TpOp::DropAll | TpOp::DropRegular => depth = 0,
                TpOp::DropSignatures => {}
            }
            tp_ops.push(op);
        }
        let mid_proofs = if via == Via::Direct { vec![] } else { gen_specs(g, &u, 4) };
        let mid_drops = via != Via::Direct && !mid_proofs.is_empty() && g.chance(1, 6);
        let owned_proofs = if via == Via::Owned { gen_specs(g, &u, 2) } else { vec![] };
        let callee_own = if matches!(shape, Shape::Assert | Shape::AssertInOwned) { gen_specs(g, &u, 2) } else { vec![] };

        // ---- model ----
        let mut zones: Vec<ZoneM> = Vec::new();
        let mut tp = ZoneM::default();
        tp.implicit = signers.iter().cloned().collect();
        if preview_assume_signatures {
            tp.simulated = btreeset!(SECP256K1_SIGNATURE_RESOURCE, ED25519_SIGNATURE_RESOURCE);
        }
        for op in &tp_ops {
            match op {
                TpOp::Create(s) => tp.proofs.push(s.model()),
                TpOp::PopDrop => {
                    tp.proofs.pop();
                }
                TpOp::DropAll => {
                    tp.proofs.clear();
                    tp.implicit.clear();
                    tp.simulated.clear();
                }
                TpOp::DropSignatures => {
                    tp.implicit.clear();
                    tp.simulated.clear();
                }
                TpOp::DropRegular => tp.proofs.clear(),
            }
        }
        zones.push(tp);
        let tp_caller = Some((Some(GlobalCaller::PackageBlueprint(tp_blueprint())), 0usize));
        // the zone of the frame that makes the protected call, and how that frame appears to its callee
        let (caller_pkg, caller_identity): (PackageAddress, Option<(Option<GlobalCaller>, usize)>) = match via {
            Via::Direct => (TRANSACTION_PROCESSOR_PACKAGE, tp_caller.clone()),
            Via::Func | Via::Method => {
                zones.push(ZoneM {
                    proofs: if mid_drops { vec![] } else { mid_proofs.iter().map(|s| s.model()).collect() },
                    direct_caller_package: Some(TRANSACTION_PROCESSOR_PACKAGE),
                    global_caller: tp_caller.clone(),
                    ..Default::default()
                });
                let who = if via == Via::Func {
                    GlobalCaller::PackageBlueprint(BlueprintId::new(&p_pkg, PUPPET_BLUEPRINT))
                } else {
                    GlobalCaller::GlobalObject(gcomp.into())
                };
                (p_pkg, Some((Some(who), 1)))
            }
            Via::Owned => {
                zones.push(ZoneM {
                    proofs: if mid_drops { vec![] } else { mid_proofs.iter().map(|s| s.model()).collect() },
                    direct_caller_package: Some(TRANSACTION_PROCESSOR_PACKAGE),
                    global_caller: tp_caller.clone(),
                    ..Default::default()
                });
                // method of an object owned by the puppet function's frame: inherits the global caller, parent = that frame
                zones.push(ZoneM {
                    proofs: owned_proofs.iter().map(|s| s.model()).collect(),
                    direct_caller_package: Some(p_pkg),
                    global_caller: tp_caller.clone(),
                    parent: Some(1),
                    ..Default::default()
                });
                // a frame-owned object has no global identity; its zone (and parents) is what the callee sees
                (p_pkg, Some((None, 2)))
            }
        };
        let checked_zone = if shape == Shape::AssertInOwned {
            // the assertion runs against the owned object's own zone (its own proofs do not count)
            2
        } else {
            zones.push(ZoneM {
                proofs: callee_own.iter().map(|s| s.model()).collect(),
                direct_caller_package: Some(caller_pkg),
                global_caller: caller_identity,
                ..Default::default()
            });
            zones.len() - 1
        };
        let vis = visible(&zones, checked_zone);
        let effective_rule = if shape == Shape::OwnerNoneMetadata { AccessRule::DenyAll } else { rule.clone() };
        let expected = rule_ok(&vis, &effective_rule);

        // ---- setup transactions ----
        let owner_updatable = g.bool();
        let owner_of = |r: &AccessRule| if owner_updatable { OwnerRole::Updatable(r.clone()) } else { OwnerRole::Fixed(r.clone()) };
        let setup_fail = |what: &str, run: &Run| Outcome::fail(format!("harness: C08 setup ({}) failed", what), format!("rule {}: {}", describe_rule(&rule), run.outcome_string()));
        let callee: Option<Callee> = match shape {
            Shape::RoleMint | Shape::OwnerFallbackMetadata | Shape::OwnerNoneMetadata => {
                let (owner, minter) = match shape {
                    Shape::RoleMint => (OwnerRole::None, rule.clone()),
                    Shape::OwnerFallbackMetadata => (owner_of(&rule), rule!(deny_all)),
                    _ => (OwnerRole::None, rule!(allow_all)),
                };
                let roles = FungibleResourceRoles {
                    mint_roles: mint_roles! { minter => minter; minter_updater => rule!(deny_all); },
                    ..Default::default()
                };
                let script = Script(vec![
                    import_refs(&all_refs),
                    Op::CallFunction {
                        package: RESOURCE_PACKAGE,
                        blueprint: FUNGIBLE_RESOURCE_MANAGER_BLUEPRINT.into(),
                        function: FUNGIBLE_RESOURCE_MANAGER_CREATE_IDENT.into(),
                        args: scrypto_encode(&FungibleResourceManagerCreateInput {
                            owner_role: owner,
                            track_total_supply: true,
                            divisibility: 18,
                            resource_roles: roles,
                            metadata: metadata!(),
                            address_reservation: None,
                        })
                        .unwrap(),
                    },
                ]);
                let m = w.puppet_manifest(p_pkg, &script);
                let run = w.run(m, vec![]);
                if !run.is_success() {
                    return setup_fail("create resource", &run);
                }
                let r = run.commit().unwrap().new_resource_addresses()[0];
                Some(if shape == Shape::RoleMint { Callee::Mint(r) } else { Callee::MetadataSet(r) })
            }
            Shape::Function => {
                let mut rules = index_map_new();
                rules.insert(PUPPET_RUN.to_string(), rule.clone());
                rules.insert(PUPPET_RECURSE.to_string(), rule!(allow_all));
                let def = puppet_definition(PuppetAuth { function_auth: FunctionAuth::AccessRules(rules), method_auth: MethodAuthTemplate::AllowAll });
                let sim = &mut w.sim;
                match vf_core::catch(move || sim.publish_native_package(CODE_FN_PKG, def)) {
                    Ok(pkg) => Some(Callee::Function(pkg, Script(vec![]))),
                    Err(p) if p.contains("MaxDepthExceeded") => return Outcome::Discard,
                    Err(p) => return Outcome::fail("harness: C08 setup (publish protected package) failed", format!("rule {}: {}", describe_rule(&rule), p)),
                }
            }
            Shape::Assert => Some(Callee::Function(q_pkg, assert_script(&callee_own, &rule, oa, &all_refs))),
            Shape::AssertInOwned => None,
            Shape::PuppetRole | Shape::PuppetOwnerFallback => {
                let unit = scrypto_encode(&()).unwrap();
                let mut by_module = index_map_new();
                let owner_role: OwnerRoleEntry = if shape == Shape::PuppetOwnerFallback {
                    by_module.insert(ModuleId::Main, RoleAssignmentInit { data: index_map_new() });
                    owner_of(&rule).into()
                } else {
                    let mut data = index_map_new();
                    data.insert(RoleKey::new("r"), Some(rule.clone()));
                    by_module.insert(ModuleId::Main, RoleAssignmentInit { data });
                    OwnerRole::None.into()
                };
                let k = all_refs.len() as u8;
                let script = Script(vec![
                    import_refs(&all_refs),
                    Op::NewObject { blueprint: PUPPET_BLUEPRINT.into(), fields: vec![(0, unit.clone(), false), (1, unit.clone(), false), (2, unit.clone(), false)], kv: vec![] },
                    Op::CallFunction {
                        package: ROLE_ASSIGNMENT_MODULE_PACKAGE,
                        blueprint: ROLE_ASSIGNMENT_BLUEPRINT.into(),
                        function: ROLE_ASSIGNMENT_CREATE_IDENT.into(),
                        args: scrypto_encode(&RoleAssignmentCreateInput { owner_role, roles: by_module }).unwrap(),
                    },
                    Op::CallFunction {
                        package: METADATA_MODULE_PACKAGE,
                        blueprint: METADATA_BLUEPRINT.into(),
                        function: METADATA_CREATE_IDENT.into(),
                        args: scrypto_encode(&MetadataCreateInput {}).unwrap(),
                    },
                    // slots after the imports: +0 object, +1 bytes, +2 role assignment, +3 bytes, +4 metadata
                    Op::GlobalizeWithModules { object: N::Slot(k), role_assignment: N::Slot(k + 2), metadata: N::Slot(k + 4), reservation: None },
                ]);
                let m = w.puppet_manifest(role_pkg, &script);
                let run = w.run(m, vec![]);
                if !run.is_success() {
                    return setup_fail("create role-protected puppet component", &run);
                }
                Some(Callee::Method(run.commit().unwrap().new_component_addresses()[0]))
            }
        };

        // ---- the transaction ----
        let mut b = ManifestBuilder::new().lock_fee_from_faucet();
        let mut names = 0;
        for op in &tp_ops {
            b = match op {
                TpOp::Create(Spec::Amount(r, a)) => b.create_proof_from_account_of_amount(oa, *r, *a),
                TpOp::Create(Spec::Ids(r, ids)) => b.create_proof_from_account_of_non_fungibles(oa, *r, ids.clone()),
                TpOp::PopDrop => {
                    names += 1;
                    let n = format!("p{}", names);
                    b.pop_from_auth_zone(&n).drop_proof(&n)
                }
                TpOp::DropAll => b.drop_auth_zone_proofs(),
                TpOp::DropSignatures => b.drop_auth_zone_signature_proofs(),
                TpOp::DropRegular => b.drop_auth_zone_regular_proofs(),
            };
        }
        // script of the frame making the protected call (for every via except Direct)
        let mut visible_nodes: Vec<NodeId> = all_refs.clone();
        match callee.as_ref() {
            Some(Callee::Mint(r)) | Some(Callee::MetadataSet(r)) => visible_nodes.push(*r.as_node_id()),
            Some(Callee::Method(c)) => visible_nodes.push(*c.as_node_id()),
            Some(Callee::Function(pkg, _)) => visible_nodes.push(*pkg.as_node_id()),
            None => {}
        }
        let caller_script = |own: &[Spec], drops: bool, last: &dyn Fn(&mut Sb)| -> Script {
            let mut sb = Sb::new(&visible_nodes);
            let az = sb.auth_zone();
            for s in own {
                sb.push_proof(az, oa, s);
            }
            if drops {
                sb.unit_call(Op::CallMethod { receiver: N::Slot(az), method: AUTH_ZONE_DROP_PROOFS_IDENT.into(), args: scrypto_encode(&()).unwrap() });
            }
            last(&mut sb);
            Script(sb.ops)
        };
        let manifest = match via {
            Via::Direct => match callee.as_ref().unwrap() {
                Callee::Mint(r) => b.mint_fungible(*r, dec!(1)).try_deposit_entire_worktop_or_abort(oa, None).build(),
                Callee::MetadataSet(r) => b.set_metadata(*r, "k", MetadataValue::String("v".into())).build(),
                Callee::Function(pkg, script) => b.call_function(*pkg, PUPPET_BLUEPRINT, PUPPET_RUN, (script.clone_as_manifest_value(),)).build(),
                Callee::Method(c) => b.call_method(*c, PUPPET_ACT, (Script(vec![]).clone_as_manifest_value(),)).build(),
            },
            Via::Func | Via::Method => {
                let s = caller_script(&mid_proofs, mid_drops, &|sb| sb.callee(callee.as_ref().unwrap(), oa));
                if via == Via::Func {
                    b.call_function(p_pkg, PUPPET_BLUEPRINT, PUPPET_RUN, (s.clone_as_manifest_value(),)).build()
                } else {
                    b.call_method(gcomp, PUPPET_ACT, (s.clone_as_manifest_value(),)).build()
                }
            }
            Via::Owned => {
                let inner = if shape == Shape::AssertInOwned {
                    assert_script(&owned_proofs, &rule, oa, &all_refs)
                } else {
                    caller_script(&owned_proofs, false, &|sb| sb.callee(callee.as_ref().unwrap(), oa))
                };
                let unit = scrypto_encode(&()).unwrap();
                let s = caller_script(&mid_proofs, mid_drops, &|sb| {
                    sb.ops.push(Op::NewObject {
                        blueprint: PUPPET_BLUEPRINT.into(),
                        fields: vec![(0, unit.clone(), false), (1, unit.clone(), false), (2, unit.clone(), false)],
                        kv: vec![],
                    });
                    let obj = sb.slots;
                    sb.slots += 1;
                    sb.unit_call(Op::CallMethod { receiver: N::Slot(obj), method: PUPPET_ACT.into(), args: args_of(&inner) });
                    sb.unit_call(Op::DropObject(N::Slot(obj)));
                });
                b.call_function(p_pkg, PUPPET_BLUEPRINT, PUPPET_RUN, (s.clone_as_manifest_value(),)).build()
            }
        };
        let run = if preview_assume_signatures {
            let sim = &mut w.sim;
            let keys = signer_keys.clone();
            let m = manifest.clone();
            match vf_core::catch(move || {
                sim.preview_manifest(m, keys, 0, PreviewFlags { use_free_credit: true, assume_all_signature_proofs: true, skip_epoch_check: false, disable_auth: false })
            }) {
                Ok(r) => Run { receipt: Some(r), panic: None },
                Err(p) => Run { receipt: None, panic: Some(p) },
            }
        } else {
            w.run(manifest, signers.clone())
        };

        // ---- verdict ----
        let mut stats = (0usize, 0usize, 0usize);
        if let AccessRule::Protected(c) = &effective_rule {
            rule_stats(&vis, c, 1, &mut stats);
        }
        let context = || {
            format!(
                "shape {:?} via {:?}{}; rule {}; signers {:?}; transaction auth zone ops {:?}; caller-frame proofs {:?}{}; owned-object proofs {:?}; callee's own proofs {:?}; visible to the check: proofs {:?}, implicit badges {}, simulated {:?}; model says {}; outcome {}",
                shape,
                via,
                if preview_assume_signatures { " (preview, assume_all_signature_proofs)" } else { "" },
                describe_rule(&effective_rule),
                signers,
                tp_ops,
                mid_proofs,
                if mid_drops { " (dropped before the call)" } else { "" },
                owned_proofs,
                callee_own,
                vis.proofs,
                vis.implicit.len(),
                vis.simulated,
                if expected { "authorised" } else { "unauthorised" },
                run.outcome_string()
            )
        };
        if let Some(p) = &run.panic {
            return Outcome::fail("host panic during an authorization check", format!("{}: {}", context(), p));
        }
        let is_assert = matches!(shape, Shape::Assert | Shape::AssertInOwned);
        let denied = match run.failure() {
            Some(RuntimeError::SystemModuleError(SystemModuleError::AuthError(AuthError::Unauthorized(u)))) if !is_assert => {
                let ident = match shape {
                    Shape::RoleMint => FUNGIBLE_RESOURCE_MANAGER_MINT_IDENT,
                    Shape::OwnerFallbackMetadata | Shape::OwnerNoneMetadata => METADATA_SET_IDENT,
                    Shape::Function => PUPPET_RUN,
                    _ => PUPPET_ACT,
                };
                if u.fn_identifier.ident != ident {
                    return Outcome::fail("harness: C08 another call than the protected one was denied", context());
                }
                true
            }
            Some(RuntimeError::SystemError(SystemError::AssertAccessRuleFailed)) if is_assert => true,
            _ => false,
        };
        let class = match shape {
            Shape::RoleMint | Shape::PuppetRole => "role-protected method",
            Shape::OwnerFallbackMetadata | Shape::OwnerNoneMetadata | Shape::PuppetOwnerFallback => "role-protected method (owner role fallback)",
            Shape::Function => "protected function",
            Shape::Assert | Shape::AssertInOwned => "assert_access_rule",
        };
        if denied && expected {
            return Outcome::fail(format!("{}: denied although the rule is satisfied by the visible proofs", class), context());
        }
        if !denied && !expected {
            if run.is_success() {
                return Outcome::fail(format!("{}: authorised although the rule is not satisfied by the visible proofs", class), context());
            }
            return Outcome::fail("harness: C08 transaction failed for another reason than authorization", context());
        }
        if !denied && !run.is_success() {
            return Outcome::fail("harness: C08 transaction failed for another reason than authorization", context());
        }
        g.label(class);
        g.label(match via {
            Via::Direct => "called from the manifest",
            Via::Func => "called from a puppet function",
            Via::Method => "called from a global component's method",
            Via::Owned => "called from a frame-owned object's method",
        });
        g.label(if expected { "authorised" } else { "unauthorised" });
        if preview_assume_signatures {
            g.label("preview with assume_all_signature_proofs");
        }
        if stats.0 >= 2 && stats.1 >= 1 && stats.2 >= 1 {
            g.nontrivial();
            g.label("depth >= 2 with satisfied and unsatisfied leaves");
        }
        if stats.0 >= 5 {
            g.label("rule depth >= 5");
        }
        g.sample(context);
        Outcome::Pass
    })
}

pub fn check() -> Check {
    Check::new(
        "C08",
        "Protected calls succeed exactly when the access rule is satisfied",
        "An AccessRule tree (AllowAll / DenyAll / composite AnyOf / AllOf nesting up to MAX_ACCESS_RULE_DEPTH with at most MAX_COMPOSITE_REQUIREMENTS nodes, empty lists included; basic Require / AmountOf / CountOf(k incl. 0 and > len) / AllOf / AnyOf over 25 leaves: two fungible badges, two non-fungible badges by resource and by id (held and not held), absent resources, three signature badges, global_caller of the transaction processor / puppet blueprints / a global component / an account, package_of_direct_caller of four packages) guards one of: a resource's mint (minter role), a resource's metadata set (no role: owner role Fixed / Updatable / None), a puppet function (FunctionAuth::AccessRules), a puppet component method (role assigned, or absent: owner fallback), an explicit assert_access_rule (in the callee or in a frame-owned object). The call is made from the manifest, from a puppet function, from a global component's method or from a method of a frame-owned object; proofs of generated amounts / id sets are created from an open account and placed in the transaction auth zone (with pop+drop, drop-all, drop-signature, drop-regular instructions), in the intermediate frames' zones (optionally dropped again before the call) and in the callee's own zone; 0-3 initial signer badges; one case in ten runs as a preview with assume_all_signature_proofs. Oracle: the harness's evaluator of the documented semantics over the proofs visible to the check (implicit caller badges + the global caller's zone and its parents + the parents of the checked zone, never the checked zone itself). Authorised <=> no AuthError::Unauthorized for the protected call (AssertAccessRuleFailed for assertions), both directions; an authorised transaction must commit successfully. Non-trivial = composite depth >= 2 with at least one satisfied and one unsatisfied basic requirement. Distinct = distinct decoded choice sequences.",
    )
    .assume("resource-level requirements (require(resource), amount_of) over the virtual badge resources (signature, global caller, package of direct caller) are not generated: the documentation does not say whether implicit badges satisfy them")
    .assume("count_of lists hold distinct entries")
    .assume("proofs are created from an account whose owner rule is AllowAll, so that every frame can obtain them without further authorization")
    .part(Part::new("rules", 20_000, 600_000, 400, case))
    .min_nontrivial_pct(15.0)
}
