//! C37 engine tie-in: the constraints of `vf_manifest::cgen` (judged there against the
//! set-theoretic reference semantics) are put into V2 manifests — ASSERT_WORKTOP_RESOURCES_ONLY /
//! INCLUDE, ASSERT_NEXT_CALL_RETURNS_ONLY / INCLUDE, ASSERT_BUCKET_CONTENTS — and run in the world
//! against real balances: the transaction must commit exactly when the reference semantics says
//! the balances satisfy the constraints (and fail with the assertion's own error otherwise).
//!
//! Balances are created inside the manifest: a fungible amount is minted (resource F0, anyone may
//! mint), non-fungible id sets are minted on the integer-id resource NF-int (anyone) and the
//! string-id resource NF-str (badge proof). The reference universe of six ids + fresh ids is mapped
//! one-to-one onto ids of the resource's id type (the engine only compares ids).

use crate::env::*;
use num_bigint::BigInt;
use num_traits::{Signed, Zero};
use radix_engine::errors::*;
use radix_engine::blueprints::resource::WorktopError;
use radix_transactions::manifest::*;
use scrypto_test::prelude::*;
use std::collections::BTreeSet;
use std::rc::Rc;
use vf_core::{ensure, Gen, Outcome, Part};
use vf_eng_c::pup::{enc, marker, script_manifest_args, v_own, v_own_lit, v_tuple};
use vf_manifest::cgen::*;
use vf_math::refdec::{big_to_dec, dec_to_big, DEC};
use vf_world::*;

#[derive(Clone, Copy, PartialEq, Eq, Debug)]
enum Slot {
    F,
    NInt,
    NStr,
}

const SLOTS: [Slot; 3] = [Slot::F, Slot::NInt, Slot::NStr];

fn slot_resource(w: &World, s: Slot) -> ResourceAddress {
    match s {
        Slot::F => w.fungibles[0].address,
        Slot::NInt => w.non_fungibles[0].address,
        Slot::NStr => w.non_fungibles[1].address,
    }
}

/// universe index -> id of the slot's id type
fn map_id(s: Slot, i: usize) -> NonFungibleLocalId {
    match s {
        Slot::NStr => NonFungibleLocalId::string(format!("u{}", i)).unwrap(),
        _ => NonFungibleLocalId::integer(100 + i as u64),
    }
}

fn map_ids(s: Slot, ids: &IndexSet<NonFungibleLocalId>) -> IndexSet<NonFungibleLocalId> {
    set_of(ids).into_iter().map(|i| map_id(s, i)).collect()
}

/// The constraint as the engine sees it (ids translated to the slot's id type).
fn translate(s: Slot, c: &ManifestResourceConstraint) -> ManifestResourceConstraint {
    match c {
        ManifestResourceConstraint::ExactNonFungibles(x) => ManifestResourceConstraint::ExactNonFungibles(map_ids(s, x)),
        ManifestResourceConstraint::AtLeastNonFungibles(x) => ManifestResourceConstraint::AtLeastNonFungibles(map_ids(s, x)),
        ManifestResourceConstraint::General(g) => ManifestResourceConstraint::General(GeneralResourceConstraint {
            required_ids: map_ids(s, &g.required_ids),
            lower_bound: g.lower_bound,
            upper_bound: g.upper_bound,
            allowed_ids: match &g.allowed_ids {
                AllowedIds::Any => AllowedIds::Any,
                AllowedIds::Allowlist(a) => AllowedIds::Allowlist(map_ids(s, a)),
            },
        }),
        other => other.clone(),
    }
}

fn bound_values(c: &ManifestResourceConstraint) -> Vec<BigInt> {
    let mut v = Vec::new();
    match c {
        ManifestResourceConstraint::ExactAmount(d) | ManifestResourceConstraint::AtLeastAmount(d) => v.push(dec_to_big(*d)),
        ManifestResourceConstraint::General(g) => {
            if let LowerBound::Inclusive(d) = g.lower_bound {
                v.push(dec_to_big(d));
            }
            if let UpperBound::Inclusive(d) = g.upper_bound {
                v.push(dec_to_big(d));
            }
        }
        _ => {}
    }
    v
}

/// A balance built from the constraint's own bounds (usually satisfying it), then maybe moved by
/// one atto / one id.
fn near_witness(g: &mut Gen, s: Slot, c: &ManifestResourceConstraint) -> Option<Balance> {
    if s == Slot::F {
        let base: BigInt = match c {
            ManifestResourceConstraint::NonZeroAmount => BigInt::from(1u8),
            ManifestResourceConstraint::ExactAmount(d) | ManifestResourceConstraint::AtLeastAmount(d) => dec_to_big(*d),
            ManifestResourceConstraint::General(gc) => match (&gc.lower_bound, &gc.upper_bound) {
                (LowerBound::Inclusive(l), _) if g.bool() => dec_to_big(*l),
                (_, UpperBound::Inclusive(u)) => dec_to_big(*u),
                (LowerBound::Inclusive(l), _) => dec_to_big(*l),
                (LowerBound::NonZero, _) => BigInt::from(1u8),
            },
            _ => return None,
        };
        let delta: i32 = match g.weighted(&[4, 1, 1]) {
            0 => 0,
            1 => -1,
            _ => 1,
        };
        let moved = base + BigInt::from(delta);
        return Some(Balance::Amount(moved.max(BigInt::zero()).min(DEC.max())));
    }
    let mut set: BTreeSet<usize> = match c {
        ManifestResourceConstraint::NonZeroAmount => [0usize].into_iter().collect(),
        ManifestResourceConstraint::ExactAmount(d) | ManifestResourceConstraint::AtLeastAmount(d) => {
            let n = dec_to_big(*d) / one();
            let n: usize = n.try_into().ok().filter(|n: &usize| *n <= UNIVERSE + 2)?;
            (0..n).collect()
        }
        ManifestResourceConstraint::ExactNonFungibles(x) | ManifestResourceConstraint::AtLeastNonFungibles(x) => set_of(x),
        ManifestResourceConstraint::General(gc) => {
            let mut set = set_of(&gc.required_ids);
            let want: usize = match &gc.lower_bound {
                LowerBound::NonZero => 1,
                LowerBound::Inclusive(l) => (dec_to_big(*l) / one()).try_into().ok().filter(|n: &usize| *n <= UNIVERSE + 2)?,
            };
            let pool: Vec<usize> = match &gc.allowed_ids {
                AllowedIds::Allowlist(a) => set_of(a).into_iter().collect(),
                AllowedIds::Any => (0..UNIVERSE + 3).collect(),
            };
            for i in pool {
                if set.len() >= want {
                    break;
                }
                set.insert(i);
            }
            set
        }
    };
    match g.weighted(&[4, 1, 1]) {
        1 => {
            if let Some(x) = set.iter().next_back().copied() {
                set.remove(&x);
            }
        }
        2 => {
            set.insert(g.index(UNIVERSE + 2));
        }
        _ => {}
    }
    Some(Balance::Ids(set))
}

fn gen_balance(g: &mut Gen, s: Slot, c: Option<&ManifestResourceConstraint>) -> Balance {
    if let Some(c) = c {
        if g.chance(3, 5) {
            if let Some(b) = near_witness(g, s, c) {
                return b;
            }
        }
    }
    if s == Slot::F {
        let on_bound = c.map(bound_values).unwrap_or_default();
        let v = if !on_bound.is_empty() && g.chance(2, 3) {
            g.pick(&on_bound).clone() + BigInt::from(g.range(-1, 1) as i32)
        } else {
            gen_amount(g, false)
        };
        Balance::Amount(v.max(BigInt::zero()).min(DEC.max()))
    } else {
        let mut set = gen_subset(g);
        // balances one id away from what the constraint names
        if let Some(ManifestResourceConstraint::General(gc)) = c {
            if g.chance(1, 2) {
                set = set_of(&gc.required_ids);
                match g.below(4) {
                    0 => {
                        if let Some(x) = set.iter().next().copied() {
                            set.remove(&x);
                        }
                    }
                    1 => {
                        set.insert(g.index(UNIVERSE + 2));
                    }
                    2 => {
                        if let AllowedIds::Allowlist(a) = &gc.allowed_ids {
                            set.extend(set_of(a));
                        }
                    }
                    _ => {}
                }
            }
        }
        if g.chance(1, 8) {
            set.insert(UNIVERSE + g.index(2));
        }
        Balance::Ids(set)
    }
}

fn zero_balance(s: Slot) -> Balance {
    if s == Slot::F {
        Balance::Amount(BigInt::zero())
    } else {
        Balance::Ids(BTreeSet::new())
    }
}

fn is_zero(b: &Balance) -> bool {
    match b {
        Balance::Amount(a) => !a.is_positive(),
        Balance::Ids(s) => s.is_empty(),
    }
}

fn render_balance(b: &Balance) -> String {
    match b {
        Balance::Amount(a) => format!("amount {}", big_to_dec(a)),
        Balance::Ids(s) => format!("ids {:?}", s),
    }
}

fn call(address: impl Into<GlobalAddress>, method: &str, args: impl ManifestEncode) -> InstructionV2 {
    let a: GlobalAddress = address.into();
    InstructionV2::CallMethod(CallMethod { address: ManifestGlobalAddress::Static(a), method_name: method.to_string(), args: manifest_decode(&manifest_encode(&args).unwrap()).unwrap() })
}

/// Instructions that put the balance on the worktop. `None` when the balance cannot be made.
fn mint(w: &World, s: Slot, b: &Balance) -> Option<Vec<InstructionV2>> {
    let res = slot_resource(w, s);
    match b {
        Balance::Amount(a) => {
            if !a.is_positive() {
                return Some(vec![]);
            }
            if *a > BigInt::from(2u8).pow(152) {
                return None;
            }
            Some(vec![call(res, FUNGIBLE_RESOURCE_MANAGER_MINT_IDENT, (big_to_dec(a),))])
        }
        Balance::Ids(set) => {
            if set.is_empty() {
                return Some(vec![]);
            }
            let entries: IndexMap<NonFungibleLocalId, (NfData,)> = set.iter().map(|i| (map_id(s, *i), (NfData { a: 1, b: "x".into(), c: 1 },))).collect();
            Some(vec![call(res, NON_FUNGIBLE_RESOURCE_MANAGER_MINT_IDENT, (entries,))])
        }
    }
}

fn case(g: &mut Gen) -> Outcome {
    with_world(WORLD_KEY, no_genesis, build, |w| {
        let ext = w.ext::<Rc<Ext>>().clone();
        let shape = g.weighted(&[4, 4, 3]);
        // constraints and balances per slot
        let single = shape == 2;
        let mut spec: Vec<Option<ManifestResourceConstraint>> = Vec::new();
        let mut bal: Vec<Option<Balance>> = Vec::new();
        let chosen_single = g.index(3);
        for (k, s) in SLOTS.iter().enumerate() {
            let fungible = *s == Slot::F;
            let want = if single { k == chosen_single } else { g.chance(2, 3) };
            let c = if want { Some(if g.chance(5, 6) { gen_valid_constraint(g, fungible) } else { gen_constraint(g, fungible) }) } else { None };
            let b = if single {
                if k == chosen_single {
                    Some(gen_balance(g, *s, c.as_ref()))
                } else {
                    None
                }
            } else {
                match g.weighted(&[2, 1, 6]) {
                    0 => None,
                    1 => Some(zero_balance(*s)),
                    _ => Some(gen_balance(g, *s, c.as_ref())),
                }
            };
            spec.push(c);
            bal.push(b);
        }
        let only = g.bool();
        let describe = || {
            let mut t = String::new();
            for (k, s) in SLOTS.iter().enumerate() {
                t.push_str(&format!("[{:?}: constraint {} | balance {}] ", s, spec[k].as_ref().map(render_constraint).unwrap_or_else(|| "-".into()), bal[k].as_ref().map(render_balance).unwrap_or_else(|| "absent".into())));
            }
            t
        };

        // ---- reference verdict ----
        let positive_unspecified = (0..3).any(|k| spec[k].is_none() && bal[k].as_ref().map(|b| !is_zero(b)).unwrap_or(false));
        let per: Vec<Option<bool>> = (0..3).filter_map(|k| spec[k].as_ref().map(|c| satisfies(c, &bal[k].clone().unwrap_or(zero_balance(SLOTS[k]))))).collect();
        let expected: Option<bool> = if single {
            per[0]
        } else if only && positive_unspecified {
            Some(false)
        } else if per.iter().any(|r| *r == Some(false)) {
            Some(false)
        } else if per.iter().any(|r| r.is_none()) {
            None
        } else {
            Some(true)
        };

        // ---- the manifest ----
        let a0 = w.accounts[0].address;
        let mut ins: Vec<InstructionV2> = vec![call(FAUCET, "lock_fee", (dec!(5000),)), call(a0, ACCOUNT_CREATE_PROOF_OF_AMOUNT_IDENT, (w.badge, dec!(1)))];
        for (k, s) in SLOTS.iter().enumerate() {
            if let Some(b) = &bal[k] {
                match mint(w, *s, b) {
                    Some(v) => ins.extend(v),
                    None => {
                        g.label("balance too large to mint (not run)");
                        return Outcome::Pass;
                    }
                }
            }
        }
        let mut constraints = ManifestResourceConstraints::new();
        for (k, s) in SLOTS.iter().enumerate() {
            if let Some(c) = &spec[k] {
                constraints = constraints.with_unchecked(slot_resource(w, *s), translate(*s, c));
            }
        }
        let name = match shape {
            0 => {
                if only {
                    ins.push(InstructionV2::AssertWorktopResourcesOnly(AssertWorktopResourcesOnly { constraints }));
                    "ASSERT_WORKTOP_RESOURCES_ONLY"
                } else {
                    ins.push(InstructionV2::AssertWorktopResourcesInclude(AssertWorktopResourcesInclude { constraints }));
                    "ASSERT_WORKTOP_RESOURCES_INCLUDE"
                }
            }
            1 => {
                // everything on the worktop goes through an unknown component and comes back
                let mut n = 0u8;
                for (k, s) in SLOTS.iter().enumerate() {
                    if bal[k].as_ref().map(|b| !is_zero(b)).unwrap_or(false) {
                        let res = slot_resource(w, *s);
                        // the fungible balance sometimes comes back in two buckets
                        if *s == Slot::F && g.chance(1, 3) {
                            if let Some(Balance::Amount(a)) = &bal[k] {
                                let half = a / BigInt::from(2u8);
                                ins.push(InstructionV2::TakeFromWorktop(TakeFromWorktop { resource_address: res, amount: big_to_dec(&half) }));
                                n += 1;
                            }
                        }
                        ins.push(InstructionV2::TakeAllFromWorktop(TakeAllFromWorktop { resource_address: res }));
                        n += 1;
                    }
                }
                let mut ops = Vec::new();
                if n > 0 {
                    ops.push(Op::Import(v_tuple((0..n).map(|b| v_own_lit(marker(0, b))).collect())));
                }
                ops.push(Op::Return(enc(&v_tuple((0..n).map(v_own).collect()))));
                if only {
                    ins.push(InstructionV2::AssertNextCallReturnsOnly(AssertNextCallReturnsOnly { constraints }));
                } else {
                    ins.push(InstructionV2::AssertNextCallReturnsInclude(AssertNextCallReturnsInclude { constraints }));
                }
                ins.push(InstructionV2::CallMethod(CallMethod { address: ManifestGlobalAddress::Static(ext.gp.into()), method_name: PUPPET_ACT.to_string(), args: script_manifest_args(&Script(ops)) }));
                if only {
                    "ASSERT_NEXT_CALL_RETURNS_ONLY"
                } else {
                    "ASSERT_NEXT_CALL_RETURNS_INCLUDE"
                }
            }
            _ => {
                let s = SLOTS[chosen_single];
                ins.push(InstructionV2::TakeAllFromWorktop(TakeAllFromWorktop { resource_address: slot_resource(w, s) }));
                let Some(c) = &spec[chosen_single] else { unreachable!() };
                ins.push(InstructionV2::AssertBucketContents(AssertBucketContents { bucket_id: ManifestBucket(0), constraint: translate(s, c) }));
                ins.push(InstructionV2::ReturnToWorktop(ReturnToWorktop { bucket_id: ManifestBucket(0) }));
                "ASSERT_BUCKET_CONTENTS"
            }
        };
        ins.push(call(a0, ACCOUNT_DEPOSIT_BATCH_IDENT, (ManifestExpression::EntireWorktop,)));
        g.label(name);
        g.sample(|| format!("{} {}", name, describe()));
        let manifest = TransactionManifestV2 { instructions: ins, blobs: Default::default(), children: Default::default(), object_names: Default::default() };
        let run = w.run_any(manifest, all_badges(w));
        if let Some(p) = &run.panic {
            return Outcome::fail(format!("host panic executing {}", name), format!("{}\n{}", p, describe()));
        }
        // observed verdict
        let got: Option<bool> = if run.is_success() {
            Some(true)
        } else {
            match run.failure() {
                Some(RuntimeError::ApplicationError(ApplicationError::WorktopError(WorktopError::AssertionFailed(_)))) if shape == 0 => Some(false),
                Some(RuntimeError::SystemError(SystemError::IntentError(IntentError::AssertNextCallReturnsFailed(_)))) if shape == 1 => Some(false),
                Some(RuntimeError::SystemError(SystemError::IntentError(IntentError::AssertBucketContentsFailed(_)))) if shape == 2 => Some(false),
                _ => None,
            }
        };
        let Some(got) = got else {
            g.label("failed for another reason (not judged)");
            g.sample(|| format!("OTHER FAILURE {}: {} {}", run.outcome_string().chars().take(300).collect::<String>(), name, describe()));
            return Outcome::Pass;
        };
        g.label(if got { "engine accepts" } else { "engine rejects" });
        match expected {
            Some(e) => {
                ensure!(
                    got == e,
                    format!("{} in the engine {} balances that {} the constraints", name, if got { "accepts" } else { "rejects" }, if e { "satisfy" } else { "violate" }),
                    "{}: engine says {}, documented meaning says {}; outcome {}",
                    describe(),
                    got,
                    e,
                    run.outcome_string().chars().take(400).collect::<String>()
                );
                let specified = spec.iter().filter(|s| s.is_some()).count();
                if specified >= 2 || spec.iter().flatten().any(|c| matches!(c, ManifestResourceConstraint::General(gc) if !gc.required_ids.is_empty() || gc.allowed_ids != AllowedIds::Any)) {
                    g.nontrivial();
                }
            }
            None => g.label("a constraint without documented meaning for its resource kind (not judged)"),
        }
        Outcome::Pass
    })
}

pub fn engine_part() -> Part {
    Part::new("engine", 4000, 200_000, 2048, case)
}

pub fn check() -> vf_core::Check {
    let mut c = vf_manifest::c37::check();
    c.parts.push(engine_part());
    c.assumptions.push("part engine: balances are minted inside the manifest (fungible amounts up to 2^152 subunits); the six reference ids are mapped one-to-one onto ids of the resource's id type");
    c
}
