//! vf-eng-e: engine-level checks C11 (no transaction can crash the engine), C38 (static resource
//! movement bounds are sound) and the engine parts of C36 / C37 (assembled here together with
//! vf-manifest's static parts).

pub mod args;
pub mod c11;
pub mod c36;
pub mod c37;
pub mod c38;
pub mod env;
pub mod scenario;

pub fn checks() -> Vec<vf_core::Check> {
    let mut v = vec![c11::check(), c36::check(), c37::check(), c38::check()];
    // development / sensitivity aid: run only the engine part of the composite checks
    if std::env::var_os("VF_ENGINE_PARTS_ONLY").is_some() {
        for c in v.iter_mut() {
            if c.parts.iter().any(|p| p.name == "engine") {
                c.parts.retain(|p| p.name == "engine");
            }
        }
    }
    v
}
