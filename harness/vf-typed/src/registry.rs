//! The C22 type registry: SBOR-derived types of the repository that are
//! `Describe + Encode + Decode + PartialEq + Debug`, with the flavour they are used in.

use crate::c22::{new_registry, reg, Entry};
use radix_common::prelude::*;
use radix_engine::blueprints as bp;
use radix_engine::object_modules as om;
use radix_engine_interface::prelude::*;
use radix_transactions::prelude::*;

pub fn build() -> Vec<Entry> {
    let mut v = new_registry();

    // ---- transaction models (manifest flavour) ----
    reg!(v, manifest, TransactionHeaderV1);
    reg!(v, manifest, IntentV1);
    reg!(v, manifest, InstructionsV1);
    reg!(v, manifest, InstructionV1);
    reg!(v, manifest, MessageV1);
    reg!(v, manifest, BlobsV1);
    reg!(v, manifest, SignatureV1);
    reg!(v, manifest, SignatureWithPublicKeyV1);
    reg!(v, manifest, IntentSignaturesV1);
    reg!(v, manifest, NotarySignatureV1);
    reg!(v, manifest, SignedIntentV1);
    reg!(v, manifest, NotarizedTransactionV1);
    reg!(v, manifest, SystemTransactionV1);
    reg!(v, manifest, TransactionHeaderV2);
    reg!(v, manifest, IntentHeaderV2);
    reg!(v, manifest, IntentCoreV2);
    reg!(v, manifest, InstructionsV2);
    reg!(v, manifest, InstructionV2);
    reg!(v, manifest, MessageV2);
    reg!(v, manifest, ChildSubintentSpecifiersV2);
    reg!(v, manifest, SubintentV2);
    reg!(v, manifest, TransactionIntentV2);
    reg!(v, manifest, IntentSignaturesV2);
    reg!(v, manifest, NonRootSubintentSignaturesV2);
    reg!(v, manifest, SignedTransactionIntentV2);
    reg!(v, manifest, NotarizedTransactionV2);
    reg!(v, manifest, PartialTransactionV2);
    reg!(v, manifest, SignedPartialTransactionV2);
    reg!(v, manifest, LedgerTransaction);
    reg!(v, manifest, TransactionManifestV1);
    reg!(v, manifest, TransactionManifestV2);
    reg!(v, manifest, SubintentManifestV2);
    reg!(v, manifest, PreviewIntentV1);

    // ---- manifest values, resource constraints, common models ----
    reg!(v, manifest, ManifestValue);
    reg!(v, manifest, ManifestResourceConstraints);
    reg!(v, manifest, ManifestResourceConstraint);
    reg!(v, manifest, GeneralResourceConstraint);
    reg!(v, manifest, ManifestBucketBatch);
    reg!(v, manifest, ManifestProofBatch);
    reg!(v, manifest, NonFungibleGlobalId);
    reg!(v, manifest, PublicKey);
    reg!(v, manifest, Epoch);
    reg!(v, scrypto, ScryptoValue);
    reg!(v, scrypto, NonFungibleGlobalId);
    reg!(v, scrypto, NonFungibleLocalId);
    reg!(v, scrypto, PublicKey);
    reg!(v, scrypto, PublicKeyHash);
    reg!(v, scrypto, Instant);
    reg!(v, scrypto, UtcDateTime);
    reg!(v, scrypto, AccessRule);
    reg!(v, scrypto, CompositeRequirement);
    reg!(v, scrypto, BasicRequirement);
    reg!(v, scrypto, ResourceOrNonFungible);
    reg!(v, scrypto, OwnerRole);
    reg!(v, scrypto, RoleAssignmentInit);
    reg!(v, scrypto, ModuleId);
    reg!(v, scrypto, RoyaltyAmount);
    reg!(v, scrypto, BlueprintId);
    reg!(v, scrypto, GlobalAddress);
    reg!(v, scrypto, ResourceAddress);
    reg!(v, scrypto, ComponentAddress);
    reg!(v, scrypto, PackageAddress);
    reg!(v, scrypto, InternalAddress);
    reg!(v, scrypto, MetadataValue);
    reg!(v, scrypto, StateUpdates);
    reg!(v, scrypto, SubstateKey);
    reg!(v, scrypto, DatabaseUpdate);

    // ---- schema types ----
    reg!(v, scrypto, VersionedScryptoSchema);
    reg!(v, scrypto, ScryptoLocalTypeKind);
    reg!(v, scrypto, TypeMetadata);
    reg!(v, scrypto, ScryptoTypeValidation);
    reg!(v, scrypto, LocalTypeId);
    reg!(v, scrypto, radix_blueprint_schema_init::BlueprintSchemaInit);
    reg!(v, scrypto, radix_blueprint_schema_init::BlueprintStateSchemaInit);
    reg!(v, scrypto, radix_engine_interface::blueprints::package::PackageDefinition);
    reg!(v, scrypto, radix_engine_interface::blueprints::package::BlueprintDefinitionInit);

    // ---- substate payloads ----
    reg!(v, scrypto, radix_engine::system::type_info::TypeInfoSubstate);
    reg!(v, scrypto, bp::resource::FungibleVaultBalanceFieldPayload);
    reg!(v, scrypto, bp::resource::FungibleVaultLockedBalanceFieldPayload);
    reg!(v, scrypto, bp::resource::FungibleVaultFreezeStatusFieldPayload);
    reg!(v, scrypto, bp::resource::NonFungibleVaultBalanceFieldPayload);
    reg!(v, scrypto, bp::resource::NonFungibleVaultLockedResourceFieldPayload);
    reg!(v, scrypto, bp::resource::NonFungibleVaultNonFungibleEntryPayload);
    reg!(v, scrypto, bp::resource::FungibleResourceManagerDivisibilityFieldPayload);
    reg!(v, scrypto, bp::resource::FungibleResourceManagerTotalSupplyFieldPayload);
    reg!(v, scrypto, bp::resource::NonFungibleResourceManagerIdTypeFieldPayload);
    reg!(v, scrypto, bp::resource::NonFungibleResourceManagerMutableFieldsFieldPayload);
    reg!(v, scrypto, bp::resource::NonFungibleResourceManagerTotalSupplyFieldPayload);
    reg!(v, scrypto, bp::account::AccountDepositRuleFieldPayload);
    reg!(v, scrypto, bp::account::AccountResourceVaultEntryPayload);
    reg!(v, scrypto, bp::account::AccountResourcePreferenceEntryPayload);
    reg!(v, scrypto, bp::account::AccountAuthorizedDepositorEntryPayload);
    reg!(v, scrypto, bp::access_controller::v1::AccessControllerStateFieldPayload);
    reg!(v, scrypto, bp::access_controller::v2::AccessControllerV2StateFieldPayload);
    reg!(v, scrypto, bp::pool::v1::substates::one_resource_pool::OneResourcePoolStateFieldPayload);
    reg!(v, scrypto, bp::pool::v1::substates::two_resource_pool::TwoResourcePoolStateFieldPayload);
    reg!(v, scrypto, bp::pool::v1::substates::multi_resource_pool::MultiResourcePoolStateFieldPayload);
    reg!(v, scrypto, bp::consensus_manager::ValidatorStateFieldPayload);
    reg!(v, scrypto, bp::consensus_manager::ValidatorProtocolUpdateReadinessSignalFieldPayload);
    reg!(v, scrypto, bp::consensus_manager::ConsensusManagerStateFieldPayload);
    reg!(v, scrypto, bp::consensus_manager::ConsensusManagerConfigurationFieldPayload);
    reg!(v, scrypto, bp::consensus_manager::ConsensusManagerCurrentValidatorSetFieldPayload);
    reg!(v, scrypto, bp::consensus_manager::ConsensusManagerCurrentProposalStatisticFieldPayload);
    reg!(v, scrypto, bp::consensus_manager::ConsensusManagerValidatorRewardsFieldPayload);
    reg!(v, scrypto, bp::consensus_manager::ConsensusManagerProposerMinuteTimestampFieldPayload);
    reg!(v, scrypto, bp::consensus_manager::ConsensusManagerProposerMilliTimestampFieldPayload);
    reg!(v, scrypto, bp::consensus_manager::ConsensusManagerRegisteredValidatorByStakeEntryPayload);
    reg!(v, scrypto, bp::package::PackageRoyaltyAccumulatorFieldPayload);
    reg!(v, scrypto, bp::package::PackageBlueprintVersionDefinitionEntryPayload);
    reg!(v, scrypto, bp::package::PackageBlueprintVersionDependenciesEntryPayload);
    reg!(v, scrypto, bp::package::PackageBlueprintVersionRoyaltyConfigEntryPayload);
    reg!(v, scrypto, bp::package::PackageBlueprintVersionAuthConfigEntryPayload);
    reg!(v, scrypto, bp::package::PackageSchemaEntryPayload);
    reg!(v, scrypto, bp::package::PackageCodeVmTypeEntryPayload);
    reg!(v, scrypto, bp::package::PackageCodeOriginalCodeEntryPayload);
    reg!(v, scrypto, bp::package::PackageCodeInstrumentedCodeEntryPayload);
    reg!(v, scrypto, bp::locker::AccountLockerAccountClaimsEntryPayload);
    reg!(v, scrypto, om::role_assignment::RoleAssignmentOwnerFieldPayload);
    reg!(v, scrypto, om::role_assignment::RoleAssignmentAccessRuleEntryPayload);
    reg!(v, scrypto, om::metadata::MetadataEntryEntryPayload);
    reg!(v, scrypto, om::royalty::ComponentRoyaltyAccumulatorFieldPayload);
    reg!(v, scrypto, om::royalty::ComponentRoyaltyMethodAmountEntryPayload);

    // ---- native events ----
    reg!(v, scrypto, bp::resource::VaultCreationEvent);
    reg!(v, scrypto, bp::resource::MintFungibleResourceEvent);
    reg!(v, scrypto, bp::resource::BurnFungibleResourceEvent);
    reg!(v, scrypto, bp::resource::MintNonFungibleResourceEvent);
    reg!(v, scrypto, bp::resource::BurnNonFungibleResourceEvent);
    reg!(v, scrypto, bp::resource::fungible_vault::LockFeeEvent);
    reg!(v, scrypto, bp::resource::fungible_vault::PayFeeEvent);
    reg!(v, scrypto, bp::resource::fungible_vault::WithdrawEvent);
    reg!(v, scrypto, bp::resource::fungible_vault::DepositEvent);
    reg!(v, scrypto, bp::resource::fungible_vault::RecallEvent);
    reg!(v, scrypto, bp::resource::non_fungible_vault::WithdrawEvent);
    reg!(v, scrypto, bp::resource::non_fungible_vault::DepositEvent);
    reg!(v, scrypto, bp::resource::non_fungible_vault::RecallEvent);
    reg!(v, scrypto, bp::account::WithdrawEvent);
    reg!(v, scrypto, bp::account::DepositEvent);
    reg!(v, scrypto, bp::account::RejectedDepositEvent);
    reg!(v, scrypto, bp::account::SetResourcePreferenceEvent);
    reg!(v, scrypto, bp::account::RemoveResourcePreferenceEvent);
    reg!(v, scrypto, bp::account::SetDefaultDepositRuleEvent);
    reg!(v, scrypto, bp::account::AddAuthorizedDepositorEvent);
    reg!(v, scrypto, bp::account::RemoveAuthorizedDepositorEvent);
    reg!(v, scrypto, bp::access_controller::v2::InitiateRecoveryEvent);
    reg!(v, scrypto, bp::access_controller::v2::RuleSetUpdateEvent);
    reg!(v, scrypto, bp::access_controller::v2::BadgeWithdrawEvent);
    reg!(v, scrypto, bp::access_controller::v2::CancelRecoveryProposalEvent);
    reg!(v, scrypto, bp::access_controller::v2::DepositRecoveryXrdEvent);
    reg!(v, scrypto, bp::consensus_manager::RoundChangeEvent);
    reg!(v, scrypto, bp::consensus_manager::EpochChangeEvent);
    reg!(v, scrypto, bp::consensus_manager::StakeEvent);
    reg!(v, scrypto, bp::consensus_manager::UnstakeEvent);
    reg!(v, scrypto, bp::consensus_manager::ClaimXrdEvent);
    reg!(v, scrypto, bp::consensus_manager::ProtocolUpdateReadinessSignalEvent);
    reg!(v, scrypto, bp::consensus_manager::ValidatorEmissionAppliedEvent);
    reg!(v, scrypto, bp::consensus_manager::ValidatorRewardAppliedEvent);
    reg!(v, scrypto, bp::locker::StoreEvent);
    reg!(v, scrypto, bp::locker::RecoverEvent);
    reg!(v, scrypto, bp::locker::ClaimEvent);
    reg!(v, scrypto, om::metadata::SetMetadataEvent);

    // ---- receipts, errors, fee and state-update summaries ----
    reg!(v, scrypto, radix_engine::transaction::TransactionResult);
    reg!(v, scrypto, radix_engine::transaction::CommitResult);
    reg!(v, scrypto, radix_engine::transaction::TransactionFeeSummary);
    reg!(v, scrypto, radix_engine::transaction::CostingParameters);
    reg!(v, scrypto, radix_engine::transaction::StateUpdateSummary);
    reg!(v, scrypto, radix_engine::transaction::SystemStructure);
    reg!(v, scrypto, radix_engine::errors::RuntimeError);
    reg!(v, scrypto, radix_engine::errors::RejectionReason);
    reg!(v, scrypto, TransactionCostingParameters);
    reg!(v, scrypto, EventTypeIdentifier);

    // ---- Merkle store ----
    reg!(v, scrypto, radix_substate_store_impls::state_tree::tree_store::VersionedTreeNode);
    reg!(v, scrypto, radix_substate_store_impls::state_tree::tree_store::TreeNodeV1);
    reg!(v, scrypto, radix_substate_store_impls::state_tree::tree_store::StoredTreeNodeKey);

    v
}
