//! Decimal <-> bigint (number of attos). Local copy of the three conversion helpers of
//! `vf_math::refdec`, so that this crate does not depend on the build state of vf-math.

use num_bigint::{BigInt, Sign};
use num_traits::One;
use radix_common::math::{Decimal, I192};

pub fn dec_to_big(d: Decimal) -> BigInt {
    BigInt::from_signed_bytes_le(&d.attos().to_le_bytes())
}

pub fn dec_fits(v: &BigInt) -> bool {
    let max: BigInt = (BigInt::one() << 191u32) - 1;
    let min: BigInt = -(BigInt::one() << 191u32);
    *v >= min && *v <= max
}

/// Panics if the value does not fit (callers check `dec_fits` first).
pub fn big_to_dec(v: &BigInt) -> Decimal {
    assert!(dec_fits(v), "value does not fit a Decimal");
    let mut bytes = v.to_signed_bytes_le();
    let fill = if v.sign() == Sign::Minus { 0xFF } else { 0x00 };
    bytes.resize(24, fill);
    Decimal::from_attos(I192::from_le_bytes(&bytes))
}
