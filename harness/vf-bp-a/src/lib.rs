//! vf-bp-a: blueprint-level checks on the engine world: account deposit rules (C39) and the
//! access controller's two-role / timer safety rule (C40).

pub mod c39;
pub mod c40;
pub mod util;

pub fn checks() -> Vec<vf_core::Check> {
    vec![c39::check(), c40::check()]
}
