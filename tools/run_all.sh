#!/usr/bin/env bash
# Runs the quick tier of the given checks (default: all in MANIFEST.json) and prints one line per check.
cd "$(dirname "$0")/.."
ids="$*"; [ -z "$ids" ] && ids="$(jq -r '.checks[].property_id' MANIFEST.json)"
for id in $ids; do
  t0=$(date +%s)
  out="$(./check "$id" quick 2>&1)"; rc=$?
  echo "$id rc=$rc $(( $(date +%s) - t0 ))s $(echo "$out" | grep -E 'quick tier seed' | tail -1 | sed 's/.*seed [0-9]*: //')"
  echo "$out" | grep -E "^(VIOLATION|KNOWN-FINDING)" | cut -c1-160
done
