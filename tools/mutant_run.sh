#!/usr/bin/env bash
# Run a check against a scratch copy of the repository (a git worktree with a deliberate breakage),
# without touching /repo or /verif's own build output.
#   tools/mutant_run.sh <name> <repo-worktree-dir> <ID> [quick|thorough]   build + run, prints the verdict
#   tools/mutant_run.sh --clean <name>                                     remove the scratch harness
# The scratch harness lives in /tmp/vfm-<name> (copy of /verif/harness with /repo paths rewritten,
# its own target dir). Remove it with --clean as soon as you are done: it is 1-6 GB.
set -u
if [ "${1:-}" = "--clean" ]; then rm -rf "/tmp/vfm-${2:?name}"; exit 0; fi
NAME="${1:?name}"; WT="$(realpath "${2:?worktree}")"; ID="${3:?check id}"; TIER="${4:-quick}"
S="/tmp/vfm-$NAME"
mkdir -p "$S/root/.work" "$S/root/evidence"
# seed the scratch target with the main harness build: third-party crates (wasmi, rocksdb, blst, ...) are
# reused, only the crates under the worktree path are recompiled
if [ ! -d "$S/target" ] && [ -d /verif/harness/target/release ] && [ -z "${VF_NO_SEED_TARGET:-}" ]; then
  mkdir -p "$S/target" && cp -a /verif/harness/target/release "$S/target/release" 2>/dev/null
fi
rsync -a --delete --exclude target --exclude fuzz/target /verif/harness/ "$S/harness/"
sed -i "s#\"/repo/#\"$WT/#g" "$S/harness/Cargo.toml"
rsync -a --delete /verif/replays/ "$S/root/replays/" 2>/dev/null
rsync -a --delete /verif/corpus/ "$S/root/corpus/" 2>/dev/null
cp /verif/known_findings.txt "$S/root/" 2>/dev/null
line="$(awk -F'\t' -v id="$ID" '!/^#/ && $1==id {print; exit}' /verif/harness/checks.tsv)"
if [ -n "$line" ]; then
  crate="$(printf '%s' "$line" | cut -f2)"; feats="$(printf '%s' "$line" | cut -f3)"
else
  crate="${VF_CRATE:?check $ID not in checks.tsv yet: set VF_CRATE=<crate> (and VF_FEATURES)}"; feats="${VF_FEATURES:--}"
fi
args=(build --release --offline -p "$crate"); [ "$feats" != "-" ] && args+=(--features "$feats")
if ! (cd "$S/harness" && CARGO_NET_OFFLINE=true CARGO_TARGET_DIR="$S/target" cargo "${args[@]}") >"$S/build.log" 2>&1; then
  echo "[mutant_run] BUILD FAILED (see $S/build.log)"; tail -n 30 "$S/build.log"; exit 2
fi
VERIF_ROOT="$S/root" VERIF_TIER="$TIER" "$S/target/release/$crate" "$ID" "$TIER"
rc=$?
echo "[mutant_run] $NAME $ID $TIER exit=$rc"
exit $rc
