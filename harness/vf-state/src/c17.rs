//! C17 The state root commits exactly to the current substates.

use crate::model::*;
use crate::smt;
use radix_substate_store_impls::memory_db::InMemorySubstateDatabase;
use radix_substate_store_impls::state_tree::tree_store::{TypedInMemoryTreeStore, Version};
use radix_substate_store_impls::state_tree::{list_substate_hashes_at_version, put_at_next_version};
use radix_substate_store_impls::state_tree_support::StateTreeUpdatingDatabase;
use radix_substate_store_interface::interface::*;
use std::collections::{BTreeMap, BTreeSet};
use vf_core::{catch, ensure, Check, Gen, Outcome, Part};

type Hashes = BTreeMap<(Vec<u8>, u8, Vec<u8>), [u8; 32]>;

/// The three ways the repository exposes the tree.
enum Tree {
    Store { store: TypedInMemoryTreeStore, version: Option<Version> },
    Database(StateTreeUpdatingDatabase<InMemorySubstateDatabase>),
}

impl Tree {
    fn new(variant: usize) -> Tree {
        match variant {
            0 => Tree::Store { store: TypedInMemoryTreeStore::new(), version: None },
            1 => Tree::Store { store: TypedInMemoryTreeStore::new().with_pruning_enabled(), version: None },
            _ => Tree::Database(StateTreeUpdatingDatabase::new(InMemorySubstateDatabase::standard())),
        }
    }
    fn name(variant: usize) -> &'static str {
        match variant {
            0 => "put_at_next_version on TypedInMemoryTreeStore",
            1 => "put_at_next_version on TypedInMemoryTreeStore with pruning",
            _ => "StateTreeUpdatingDatabase::commit",
        }
    }
    /// Applies one commit, returns the new root.
    fn commit(&mut self, updates: &DatabaseUpdates) -> Result<[u8; 32], String> {
        match self {
            Tree::Store { store, version } => {
                let root = catch(|| put_at_next_version(&*store, *version, updates))?;
                *version = Some(version.unwrap_or(0) + 1);
                Ok(root.0)
            }
            Tree::Database(db) => {
                catch(|| db.commit(updates))?;
                Ok(db.get_current_root_hash().0)
            }
        }
    }
    fn list(&self) -> Result<Hashes, String> {
        let listed = match self {
            Tree::Store { store, version } => {
                let Some(v) = *version else { return Ok(Hashes::new()) };
                catch(|| list_substate_hashes_at_version(store, v))?
            }
            Tree::Database(db) => catch(|| db.list_substate_hashes())?,
        };
        let mut out = Hashes::new();
        for (pk, by_sort_key) in listed {
            for (sk, h) in by_sort_key {
                if out.insert((pk.node_key.clone(), pk.partition_num, sk.0.clone()), h.0).is_some() {
                    return Err(format!("substate {}/p{}/{} listed twice", hex::encode(&pk.node_key), pk.partition_num, hex::encode(&sk.0)));
                }
            }
        }
        Ok(out)
    }
}

/// True when, going from key set `before` to `after` in one tier tree, some subtree that held ≥ 2
/// leaves is left with exactly one leaf that was already there: the tree has to turn an internal
/// node into (or pull up) a leaf.
pub fn has_collapse(before: &BTreeSet<Vec<u8>>, after: &BTreeSet<Vec<u8>>) -> bool {
    let nibbles = |k: &Vec<u8>| -> Vec<u8> { k.iter().flat_map(|b| [b >> 4, b & 15]).collect() };
    let b: Vec<Vec<u8>> = before.iter().map(nibbles).collect();
    let a: Vec<Vec<u8>> = after.iter().map(nibbles).collect();
    if b.len() == a.len() && before == after {
        return false;
    }
    for survivor in after.intersection(before) {
        let s = nibbles(survivor);
        for d in 0..s.len() {
            let under = |set: &Vec<Vec<u8>>| set.iter().filter(|k| k.len() >= d && k[..d] == s[..d]).count();
            if under(&a) == 1 && under(&b) >= 2 {
                return true;
            }
        }
    }
    false
}

/// Key sets of every tier tree of the model: (tier id → leaf keys).
fn tier_keysets(model: &ModelDb) -> BTreeMap<(Vec<u8>, Option<u8>, u8), BTreeSet<Vec<u8>>> {
    let mut out: BTreeMap<(Vec<u8>, Option<u8>, u8), BTreeSet<Vec<u8>>> = BTreeMap::new();
    for ((n, p), content) in &model.parts {
        out.entry((vec![], None, 0)).or_default().insert(n.clone());
        out.entry((n.clone(), None, 1)).or_default().insert(vec![*p]);
        out.entry((n.clone(), Some(*p), 2)).or_default().extend(content.keys().cloned());
    }
    out
}

pub fn collapse_between(before: &ModelDb, after: &ModelDb) -> bool {
    let b = tier_keysets(before);
    let a = tier_keysets(after);
    let empty = BTreeSet::new();
    b.iter().any(|(tier, keys)| has_collapse(keys, a.get(tier).unwrap_or(&empty)))
}

fn describe_diff(expected: &Hashes, got: &Hashes) -> String {
    let mut parts = Vec::new();
    for (k, h) in expected {
        match got.get(k) {
            None => parts.push(format!("missing {}/p{}/{}", hex::encode(&k.0), k.1, hex::encode(&k.2))),
            Some(g) if g != h => parts.push(format!("{}/p{}/{}: listed hash {} but blake2b(value) = {}", hex::encode(&k.0), k.1, hex::encode(&k.2), hex::encode(g), hex::encode(h))),
            _ => {}
        }
    }
    for k in got.keys() {
        if !expected.contains_key(k) {
            parts.push(format!("extra {}/p{}/{}", hex::encode(&k.0), k.1, hex::encode(&k.2)));
        }
    }
    parts.truncate(6);
    parts.join("; ")
}

fn history(g: &mut Gen) -> Outcome {
    let alphabet = gen_alphabet(g, KeyRegime::Tree);
    let variant = g.weighted(&[3, 3, 2]);
    let entry = Tree::name(variant);
    g.label(entry);
    g.label(alphabet.node_kind);
    let n_commits = 1 + g.index(12);

    let mut tree = Tree::new(variant);
    let mut model = ModelDb::new();
    let mut commits: Vec<DatabaseUpdates> = Vec::new();
    let mut max_entities = 0usize;
    let mut saw_reset_of_populated = false;
    let mut saw_collapse = false;
    let mut saw_empty_again = false;
    let mut last_root = smt::ZERO;

    for i in 0..n_commits {
        let updates = gen_updates(g, &alphabet, &model, &Profile::BALANCED);
        for (n, nu) in &updates.node_updates {
            for (p, pu) in &nu.partition_updates {
                if matches!(pu, PartitionDatabaseUpdates::Reset { .. }) && model.partition(n, *p).is_some() {
                    saw_reset_of_populated = true;
                }
            }
        }
        let before = model.clone();
        model.apply(&updates);
        commits.push(updates.clone());
        saw_collapse |= collapse_between(&before, &model);
        max_entities = max_entities.max(model.node_keys().len());
        if model.is_empty() && !before.is_empty() {
            saw_empty_again = true;
        }

        let root = match tree.commit(&updates) {
            Ok(r) => r,
            Err(p) => {
                return Outcome::fail(
                    format!("{}: panics", entry),
                    format!("commit #{} of history [{}] panicked: {} (alphabet: {})", i + 1, render_history(&commits, true), p, render_alphabet(&alphabet)),
                )
            }
        };
        last_root = root;
        let expected = smt::state_root(&model);
        if model.is_empty() {
            ensure!(
                root == smt::ZERO,
                format!("{}: the empty state does not have the all-zero root", entry),
                "after commit #{} of history [{}] no substate is left but the root is {}",
                i + 1,
                render_history(&commits, true),
                hex::encode(root)
            );
        }
        ensure!(
            root == expected,
            format!("{}: root differs from the from-scratch sparse-Merkle commitment", entry),
            "after commit #{} of history [{}] the substates are {} ; root returned {} but the commitment recomputed from scratch over these substates is {}",
            i + 1,
            render_history(&commits, true),
            render_model(&model, true),
            hex::encode(root),
            hex::encode(expected)
        );
        // listing (after every commit: cheap at these sizes)
        let listed = match tree.list() {
            Ok(l) => l,
            Err(p) => {
                return Outcome::fail(
                    format!("{}: listing substate hashes fails", entry),
                    format!("after commit #{} of history [{}]: {}", i + 1, render_history(&commits, true), p),
                )
            }
        };
        let expected_hashes = smt::value_hashes(&model);
        ensure!(
            listed == expected_hashes,
            format!("{}: listed substate hashes differ from the hashes of the stored values", entry),
            "after commit #{} of history [{}] (substates {}): {}",
            i + 1,
            render_history(&commits, true),
            render_model(&model, true),
            describe_diff(&expected_hashes, &listed)
        );
    }

    // The same net effect under other batchings, each on a fresh tree.
    let final_expected = smt::state_root(&model);
    let n_alt = 2;
    let mut used = Vec::new();
    for _ in 0..n_alt {
        let which = g.index(5);
        let (name, alt): (&'static str, Vec<DatabaseUpdates>) = match which {
            0 => ("one commit of sets", vec![model.as_updates(false)]),
            1 => ("one commit of resets", vec![model.as_updates(true)]),
            2 => ("one commit per substate", commits.iter().flat_map(split_per_substate).collect()),
            3 => ("entities/partitions/substates in reverse order", commits.iter().map(reversed_order).collect()),
            _ => ("adjacent commits merged pairwise", commits.chunks(2).map(|c| if c.len() == 2 { merge_updates(&c[0], &c[1]) } else { c[0].clone() }).collect()),
        };
        used.push(name);
        g.label(name);
        let alt_variant = g.index(3);
        let mut alt_tree = Tree::new(alt_variant);
        let mut alt_root = smt::ZERO;
        for (j, u) in alt.iter().enumerate() {
            alt_root = match alt_tree.commit(u) {
                Ok(r) => r,
                Err(p) => {
                    return Outcome::fail(
                        format!("{}: panics", Tree::name(alt_variant)),
                        format!("commit #{} of history [{}] (re-batching '{}' of [{}]) panicked: {}", j + 1, render_history(&alt, true), name, render_history(&commits, true), p),
                    )
                }
            };
        }
        ensure!(
            alt_root == final_expected && alt_root == last_root,
            "state root depends on how the changes were batched",
            "history [{}] ends with root {} ; the same net changes batched as '{}' = [{}] on {} end with root {} ; from-scratch commitment of the final substates {} is {}",
            render_history(&commits, true),
            hex::encode(last_root),
            name,
            render_history(&alt, true),
            Tree::name(alt_variant),
            hex::encode(alt_root),
            render_model(&model, true),
            hex::encode(final_expected)
        );
    }

    if max_entities >= 2 {
        g.label("≥ 2 entities");
    }
    if saw_reset_of_populated {
        g.label("reset of a populated partition");
    }
    if saw_collapse {
        g.label("delete collapsing an internal node into a leaf");
    }
    if saw_empty_again {
        g.label("everything deleted (empty state reached again)");
    }
    if model.is_empty() {
        g.label("final state empty");
    }
    g.count("commits", commits.len() as u64);
    g.set_nontrivial(max_entities >= 2 && saw_reset_of_populated && saw_collapse);
    g.sample(|| format!("{} | {} | history [{}] | re-batched as {:?} | final root {}", entry, render_alphabet(&alphabet), render_history(&commits, false), used, hex::encode(last_root)));
    Outcome::Pass
}

pub fn check() -> Check {
    Check::new(
        "C17",
        "The state root commits exactly to the current substates",
        "A history of 1-12 commits (deltas, deletes incl. of absent substates, resets, empty resets, whole-entity deletion, empty commits) over small key alphabets (1-4 entities x 1-3 partitions x 2-6 sort keys; keys from SpreadPrefixKeyMapper or raw equal-length byte strings sharing nibble prefixes) is applied through put_at_next_version (pruning off / on) or StateTreeUpdatingDatabase. After every commit the returned root is compared with a from-scratch sparse-Merkle recomputation over the model's substates (blake2 crate, no tree code), the empty state must give 32 zero bytes, and list_substate_hashes must equal {key -> blake2b(value)} of the model. The same net changes are then re-applied to fresh trees under two other batchings (one commit of sets / of resets, one commit per substate, reversed order, adjacent commits merged) and must end with the same root. Non-trivial = the history has >= 2 entities at once, a reset of a populated partition, and a delete that leaves a subtree with a single surviving leaf (internal node collapses into a leaf). Distinct = distinct decoded choice sequences.",
    )
    .assume("keys within one tier are prefix-free (mapper keys of one kind, or raw keys of one length per partition; node keys of one length): the precondition documented on LeafKey and guaranteed by SpreadPrefixKeyMapper")
    .assume("trusts the blake2 crate and the 25-line reference recursion in vf-state/src/smt.rs")
    .part(Part::new("history", 200_000, 10_000_000, 700, history))
    .min_nontrivial_pct(5.0)
}

#[cfg(test)]
mod tests {
    use super::*;
    fn set(keys: &[&[u8]]) -> BTreeSet<Vec<u8>> {
        keys.iter().map(|k| k.to_vec()).collect()
    }
    #[test]
    fn collapse_detection() {
        assert!(has_collapse(&set(&[&[0x00], &[0x01]]), &set(&[&[0x00]])));
        assert!(!has_collapse(&set(&[&[0x00], &[0x01], &[0x02]]), &set(&[&[0x00], &[0x01]])));
        assert!(has_collapse(&set(&[&[0x00], &[0x01], &[0x10]]), &set(&[&[0x00], &[0x10]])));
        assert!(!has_collapse(&set(&[&[0x00]]), &set(&[])));
        assert!(!has_collapse(&set(&[&[0x00], &[0x01]]), &set(&[&[0x02]])));
    }
}
