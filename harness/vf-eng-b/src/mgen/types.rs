//! mgen (R7): typed manifest generator with a worktop / bucket / proof / account-balance model.
//!
//! The model is written from the documented semantics of the resource blueprints (containers
//! with a liquid part and a lock table; worktop = one bucket per resource; proofs = evidence per
//! container). It predicts, instruction by instruction, whether the manifest succeeds, and the
//! final content of every account vault. All amounts are `i128` attos.

use scrypto_test::prelude::*;
use std::collections::{BTreeMap, BTreeSet};
use radix_engine::blueprints::account::{AccountCollection, AccountResourceVaultEntryPayload};
use radix_engine::system::system_db_reader::{ObjectCollectionKey, SystemDatabaseReader};
use vf_world::*;

pub type Id = NonFungibleLocalId;
pub type Ids = BTreeSet<Id>;
/// attos
pub type A = i128;

pub const ONE: A = 1_000_000_000_000_000_000;

pub fn atto(d: Decimal) -> A {
    let b = d.attos().to_le_bytes();
    let lo = i128::from_le_bytes(b[..16].try_into().unwrap());
    let ext = if lo < 0 { 0xffu8 } else { 0 };
    assert!(b[16..].iter().all(|x| *x == ext), "amount {} does not fit the model", d);
    lo
}
pub fn dec(a: A) -> Decimal {
    let mut b = [if a < 0 { 0xffu8 } else { 0 }; 24];
    b[..16].copy_from_slice(&a.to_le_bytes());
    Decimal::from_attos(I192::from_le_bytes(&b))
}
pub fn show(a: A) -> String {
    dec(a).to_string()
}

#[derive(Clone, Debug, PartialEq, Eq)]
pub enum Kind {
    F { div: u8 },
    N { id_type: NonFungibleIdType },
}

#[derive(Clone, Debug)]
pub struct Res {
    pub addr: ResourceAddress,
    pub kind: Kind,
    pub mint: Gate,
    pub burn: Gate,
    pub recall: Gate,
    pub freeze: Gate,
}
impl Res {
    pub fn is_f(&self) -> bool {
        matches!(self.kind, Kind::F { .. })
    }
    pub fn grid(&self) -> A {
        match self.kind {
            Kind::F { div } => 10i128.pow(18 - div as u32),
            Kind::N { .. } => ONE,
        }
    }
}

pub const XRD_R: usize = 0;
pub const BADGE_R: usize = 1;

/// Static description of the world (addresses, gates).
#[derive(Clone, Debug)]
pub struct Wd {
    /// 0 = XRD, 1 = badge, then the world's fungibles, then its non-fungibles
    pub res: Vec<Res>,
    pub accounts: Vec<(ComponentAddress, NonFungibleGlobalId)>,
}

impl Wd {
    pub fn of(w: &World) -> Wd {
        let mut res = vec![
            Res { addr: XRD, kind: Kind::F { div: 18 }, mint: Gate::Closed, burn: Gate::Closed, recall: Gate::Closed, freeze: Gate::Closed },
            Res { addr: w.badge, kind: Kind::F { div: 0 }, mint: Gate::Closed, burn: Gate::Closed, recall: Gate::Closed, freeze: Gate::Closed },
        ];
        for f in &w.fungibles {
            res.push(Res { addr: f.address, kind: Kind::F { div: f.divisibility }, mint: f.mint, burn: f.burn, recall: f.recall, freeze: f.freeze });
        }
        for n in &w.non_fungibles {
            res.push(Res { addr: n.address, kind: Kind::N { id_type: n.id_type }, mint: n.mint, burn: n.burn, recall: n.recall, freeze: Gate::Closed });
        }
        Wd { res, accounts: w.accounts.iter().map(|a| (a.address, a.badge())).collect() }
    }
    pub fn res_index(&self, addr: &ResourceAddress) -> Option<usize> {
        self.res.iter().position(|r| &r.addr == addr)
    }
}

pub const FZ_WITHDRAW: u32 = 1;
pub const FZ_DEPOSIT: u32 = 2;
pub const FZ_BURN: u32 = 4;

/// What the generator knows about the ledger before a transaction (read from raw substates).
#[derive(Clone, Debug, Default)]
pub struct Ledger {
    pub f: BTreeMap<(usize, usize), A>,
    pub n: BTreeMap<(usize, usize), Ids>,
    pub vault: BTreeMap<(usize, usize), NodeId>,
    pub frozen: BTreeMap<(usize, usize), u32>,
    /// per non-fungible resource: ids that exist in some vault
    pub live_ids: BTreeMap<usize, Ids>,
    /// per non-fungible resource: ids that were burnt (cannot be minted again)
    pub dead_ids: BTreeMap<usize, Ids>,
    /// counter for fresh ids
    pub next_id: u64,
}

/// The vault an account keeps for a resource, read from the account's key-value collection.
pub fn account_vault<D: SubstateDatabase>(db: &D, account: &ComponentAddress, res: &ResourceAddress) -> Option<NodeId> {
    let reader = SystemDatabaseReader::new(db);
    let entry = reader
        .read_object_collection_entry::<_, AccountResourceVaultEntryPayload>(
            account.as_node_id(),
            ModuleId::Main,
            ObjectCollectionKey::KeyValue(AccountCollection::ResourceVaultKeyValue.collection_index(), res),
        )
        .ok()??;
    Some(entry.fully_update_and_into_latest_version().0 .0)
}

pub fn vault_frozen_flags<D: SubstateDatabase>(db: &D, vault: &NodeId) -> u32 {
    if vault.is_internal_fungible_vault() {
        db.get_substate::<FungibleVaultFreezeStatusFieldSubstate>(vault, MAIN_BASE_PARTITION, FungibleVaultField::FreezeStatus)
            .map(|s| s.into_payload().fully_update_and_into_latest_version().frozen.bits())
            .unwrap_or(0)
    } else {
        db.get_substate::<NonFungibleVaultFreezeStatusFieldSubstate>(vault, MAIN_BASE_PARTITION, NonFungibleVaultField::FreezeStatus)
            .map(|s| s.into_payload().fully_update_and_into_latest_version().frozen.bits())
            .unwrap_or(0)
    }
}

impl Ledger {
    /// Re-read everything from the database (keeps `dead_ids` and `next_id`).
    pub fn sync<D: SubstateDatabase>(&mut self, db: &D, wd: &Wd, t: &Totals) {
        self.f.clear();
        self.n.clear();
        self.vault.clear();
        self.frozen.clear();
        self.live_ids.clear();
        for (ai, (acct, _)) in wd.accounts.iter().enumerate() {
            for (ri, r) in wd.res.iter().enumerate() {
                if let Some(v) = account_vault(db, acct, &r.addr) {
                    self.vault.insert((ai, ri), v);
                    if r.is_f() {
                        let bal = t.fungible_vaults.get(&v).map(|x| atto(x.1)).unwrap_or(0);
                        self.f.insert((ai, ri), bal);
                    } else {
                        let ids = t.non_fungible_vaults.get(&v).map(|x| x.2.clone()).unwrap_or_default();
                        self.n.insert((ai, ri), ids);
                    }
                    let fl = vault_frozen_flags(db, &v);
                    if fl != 0 {
                        self.frozen.insert((ai, ri), fl);
                    }
                }
            }
        }
        for (ri, r) in wd.res.iter().enumerate() {
            if !r.is_f() {
                self.live_ids.insert(ri, t.non_fungible_ids.get(&r.addr).cloned().unwrap_or_default());
            }
        }
    }
}

#[derive(Clone, Debug, Default, PartialEq, Eq)]
pub struct NfHold {
    pub known: Ids,
    /// ids whose identity the model cannot predict (taken by amount, minted with RUID)
    pub anon: u32,
}
impl NfHold {
    pub fn count(&self) -> usize {
        self.known.len() + self.anon as usize
    }
}

#[derive(Clone, Debug)]
pub enum Liquid {
    F(A),
    N(NfHold),
}

/// A resource container: a vault or a bucket node.
#[derive(Clone, Debug)]
pub struct Cont {
    pub res: usize,
    pub liquid: Liquid,
    pub flocks: BTreeMap<A, u32>,
    pub nlocks: BTreeMap<Id, u32>,
    pub vault_of: Option<usize>,
    /// the engine has written the container's liquid-balance substate in this transaction
    pub written: bool,
    /// a proof locked (part of) this container at some point of the transaction
    pub ever_locked: bool,
}

impl Cont {
    /// number of live locks (proofs) on this container
    pub fn lock_count(&self) -> u32 {
        self.flocks.values().sum::<u32>() + self.nlocks.values().copied().max().unwrap_or(0)
    }
    pub fn locked(&self) -> bool {
        !self.flocks.is_empty() || !self.nlocks.is_empty()
    }
    pub fn max_flock(&self) -> A {
        self.flocks.keys().next_back().copied().unwrap_or(0)
    }
    /// liquid + locked, in attos (non-fungibles: count * ONE)
    pub fn amount(&self) -> A {
        match &self.liquid {
            Liquid::F(a) => a + self.max_flock(),
            Liquid::N(h) => (h.count() + self.nlocks.len()) as A * ONE,
        }
    }
    pub fn liquid_amount(&self) -> A {
        match &self.liquid {
            Liquid::F(a) => *a,
            Liquid::N(h) => h.count() as A * ONE,
        }
    }
    pub fn anon(&self) -> u32 {
        match &self.liquid {
            Liquid::N(h) => h.anon,
            _ => 0,
        }
    }
    /// known ids, liquid and locked
    pub fn all_known_ids(&self) -> Ids {
        match &self.liquid {
            Liquid::N(h) => h.known.iter().cloned().chain(self.nlocks.keys().cloned()).collect(),
            _ => Ids::new(),
        }
    }
}

#[derive(Clone, Debug, PartialEq, Eq)]
pub enum PAmt {
    F(A),
    N(Ids),
}

#[derive(Clone, Debug)]
pub struct ProofM {
    pub res: usize,
    pub evidence: Vec<(usize, PAmt)>,
    pub total: PAmt,
}

/// Predicted reason of a failure (class only).
pub type Why = &'static str;

#[derive(Clone, Debug)]
pub enum Ins {
    LockFeeFaucet,
    LockFee { acct: usize, amount: A, contingent: bool },
    Withdraw { acct: usize, res: usize, amount: A },
    WithdrawIds { acct: usize, res: usize, ids: Ids },
    LockFeeAndWithdraw { acct: usize, fee: A, res: usize, amount: A },
    Take { res: usize, amount: A },
    TakeIds { res: usize, ids: Ids },
    TakeAll { res: usize },
    Return { b: u32 },
    AssertAmount { res: usize, amount: A },
    AssertIds { res: usize, ids: Ids },
    AssertAny { res: usize },
    BurnBucket { b: u32 },
    AccountBurn { acct: usize, res: usize, amount: A },
    AccountBurnIds { acct: usize, res: usize, ids: Ids },
    MintF { res: usize, amount: A },
    MintN { res: usize, ids: Ids },
    MintRuid { res: usize, n: u32 },
    Recall { acct: usize, res: usize, amount: A },
    RecallIds { acct: usize, res: usize, ids: Ids },
    Freeze { acct: usize, res: usize, flags: u32 },
    Unfreeze { acct: usize, res: usize, flags: u32 },
    ProofFromBucketAmount { b: u32, amount: A },
    ProofFromBucketIds { b: u32, ids: Ids },
    ProofFromBucketAll { b: u32 },
    AccountProofAmount { acct: usize, res: usize, amount: A },
    AccountProofIds { acct: usize, res: usize, ids: Ids },
    ZoneProofAmount { res: usize, amount: A },
    ZoneProofIds { res: usize, ids: Ids },
    ZoneProofAll { res: usize },
    CloneProof { p: u32 },
    DropProof { p: u32 },
    Push { p: u32 },
    Pop,
    DropZoneAll,
    DropZoneRegular,
    DropZoneSignatures,
    DropNamedProofs,
    DropAllProofs,
    Deposit { acct: usize, b: u32 },
    TryDeposit { acct: usize, b: u32 },
    DepositBatch { acct: usize, bs: Vec<u32> },
    DepositWorktop { acct: usize, try_: bool },
}

fn ids_str(ids: &Ids) -> String {
    let v: Vec<String> = ids.iter().map(|i| i.to_string()).collect();
    format!("{{{}}}", v.join(","))
}

impl Ins {
    pub fn render(&self) -> String {
        use Ins::*;
        match self {
            LockFeeFaucet => "lock_fee(faucet)".into(),
            LockFee { acct, amount, contingent } => format!("a{}.lock{}_fee({})", acct, if *contingent { "_contingent" } else { "" }, show(*amount)),
            Withdraw { acct, res, amount } => format!("a{}.withdraw(r{},{})", acct, res, show(*amount)),
            WithdrawIds { acct, res, ids } => format!("a{}.withdraw_ids(r{},{})", acct, res, ids_str(ids)),
            LockFeeAndWithdraw { acct, fee, res, amount } => format!("a{}.lock_fee_and_withdraw({},r{},{})", acct, show(*fee), res, show(*amount)),
            Take { res, amount } => format!("take(r{},{})", res, show(*amount)),
            TakeIds { res, ids } => format!("take_ids(r{},{})", res, ids_str(ids)),
            TakeAll { res } => format!("take_all(r{})", res),
            Return { b } => format!("return(b{})", b),
            AssertAmount { res, amount } => format!("assert(r{}>={})", res, show(*amount)),
            AssertIds { res, ids } => format!("assert_ids(r{},{})", res, ids_str(ids)),
            AssertAny { res } => format!("assert_any(r{})", res),
            BurnBucket { b } => format!("burn(b{})", b),
            AccountBurn { acct, res, amount } => format!("a{}.burn(r{},{})", acct, res, show(*amount)),
            AccountBurnIds { acct, res, ids } => format!("a{}.burn_ids(r{},{})", acct, res, ids_str(ids)),
            MintF { res, amount } => format!("mint(r{},{})", res, show(*amount)),
            MintN { res, ids } => format!("mint_ids(r{},{})", res, ids_str(ids)),
            MintRuid { res, n } => format!("mint_ruid(r{},{})", res, n),
            Recall { acct, res, amount } => format!("recall(a{}.r{},{})", acct, res, show(*amount)),
            RecallIds { acct, res, ids } => format!("recall_ids(a{}.r{},{})", acct, res, ids_str(ids)),
            Freeze { acct, res, flags } => format!("freeze(a{}.r{},{})", acct, res, flags),
            Unfreeze { acct, res, flags } => format!("unfreeze(a{}.r{},{})", acct, res, flags),
            ProofFromBucketAmount { b, amount } => format!("proof(b{},{})", b, show(*amount)),
            ProofFromBucketIds { b, ids } => format!("proof_ids(b{},{})", b, ids_str(ids)),
            ProofFromBucketAll { b } => format!("proof_all(b{})", b),
            AccountProofAmount { acct, res, amount } => format!("a{}.proof(r{},{})", acct, res, show(*amount)),
            AccountProofIds { acct, res, ids } => format!("a{}.proof_ids(r{},{})", acct, res, ids_str(ids)),
            ZoneProofAmount { res, amount } => format!("zone_proof(r{},{})", res, show(*amount)),
            ZoneProofIds { res, ids } => format!("zone_proof_ids(r{},{})", res, ids_str(ids)),
            ZoneProofAll { res } => format!("zone_proof_all(r{})", res),
            CloneProof { p } => format!("clone(p{})", p),
            DropProof { p } => format!("drop(p{})", p),
            Push { p } => format!("push(p{})", p),
            Pop => "pop".into(),
            DropZoneAll => "drop_zone_proofs".into(),
            DropZoneRegular => "drop_zone_regular".into(),
            DropZoneSignatures => "drop_zone_signatures".into(),
            DropNamedProofs => "drop_named_proofs".into(),
            DropAllProofs => "drop_all_proofs".into(),
            Deposit { acct, b } => format!("a{}.deposit(b{})", acct, b),
            TryDeposit { acct, b } => format!("a{}.try_deposit(b{})", acct, b),
            DepositBatch { acct, bs } => format!("a{}.deposit_batch({:?})", acct, bs),
            DepositWorktop { acct, try_ } => format!("a{}.{}deposit_batch(WORKTOP)", acct, if *try_ { "try_" } else { "" }),
        }
    }
}
