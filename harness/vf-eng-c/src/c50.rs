//! C50 Objects are encapsulated by their blueprint.
//!
//! One case = one transaction in which code of puppet package P — running as a function, as a
//! method of a global `Puppet`, as a method of an owned `Puppet`, or as a method of a `PuppetInner`
//! whose outer object is P's global component — gets hold of something (an owned `Puppet` /
//! `PuppetInner` of package Q returned by Q's code, Q's global component, a native bucket / proof /
//! vault, an address reservation for P's or Q's blueprint made by P, by Q or by the transaction, its
//! own objects), optionally parks it in a heap key-value store and takes it out again (or leaves it
//! there and keeps only the transient reference of the open entry), and then
//! performs exactly one capability-sensitive SystemApi call between two log markers.
//!
//! Oracle: a capability model written from the property (not from system.rs) says whether the call
//! is permitted. Forbidden ⇒ the marker after the call must be absent (the call returned an error
//! and the transaction failed); permitted ⇒ it must be present (guards against "everything
//! fails"). Whatever happens, every substate that existed before and belongs neither to P's own
//! component, nor to the fee path, nor to a native object P legitimately called (`mint`) is
//! byte-identical after the commit, and the C05 scan of the whole ledger finds nothing.

use crate::env::*;
use crate::pup::*;
use crate::scan::*;
use scrypto_test::prelude::*;
use std::collections::BTreeSet;
use vf_core::{Check, Gen, Outcome, Part};
use vf_world::*;

const GQ: u8 = 0;
const RES: u8 = 1;
const GP: u8 = 2;

#[derive(Clone, Copy, PartialEq, Eq, Debug)]
enum Actor {
    Func,
    GlobalMethod,
    OwnedMethod,
    InnerMethod,
}

#[derive(Clone, Copy, PartialEq, Eq, Debug)]
enum Maker {
    P,
    Q,
    Tx,
}

#[derive(Clone, Copy, PartialEq, Eq, Debug)]
enum Obj {
    QObj,
    QInner,
    QGlobal,
    Bucket,
    Proof,
    Vault,
    /// reservation for (blueprint of package Q?, made by)
    Reservation { for_q: bool, by: Maker },
    OwnObj,
    OwnInner,
}

#[derive(Clone, PartialEq, Eq, Debug)]
enum Action {
    Drop,
    Globalize,
    /// globalize `what` (OwnObj or QObj) with the held reservation
    GlobalizeWith { q_object: bool },
    KvOpenOn,
    KvRemoveOn,
    CallDirect,
    CallModule,
    NewObject(String),
    ActorField { state: u32, field: u8, flags: u32 },
    ActorKv { state: u32, collection: u8, flags: u32 },
    ActorIndex { state: u32, collection: u8 },
    ProofDropFn,
    ForeignHandle { callee: u8, use_: u8, delta: i8, which: u8 },
    /// globalize an own object passing the held node as role-assignment and/or metadata module
    GlobalizeForeignModules { as_role_assignment: bool },
}

#[derive(Clone, Copy, PartialEq, Eq, Debug)]
enum Exp {
    Allowed,
    Forbidden,
    /// the engine documents a coarser (package-level) rule than the property's blueprint-level
    /// wording for this combination: observed, labelled, not judged
    Unasserted,
}

fn std_fields() -> Vec<(u8, Vec<u8>, bool)> {
    vec![(0, enc(&v_u32(1)), false), (1, enc(&v_u32(2)), false), (2, enc(&v_u32(3)), false)]
}

const NREFS: u8 = 5;

/// References every frame imports first (slots 0..NREFS): Q's component, the resource, P's
/// component, and both puppet packages (nested scripts name them, and a frame can only pass on
/// references it can see itself).
fn std_refs(w: &World) -> Vec<V> {
    let e = w.ext::<Ext>();
    vec![
        v_ref_lit(e.gq.into_node_id()),
        v_ref_lit(w.fungibles[0].address.into_node_id()),
        v_ref_lit(e.gp.into_node_id()),
        v_ref_lit(w.puppet_q.into_node_id()),
        v_ref_lit(w.puppet_p.into_node_id()),
    ]
}

fn prelude(b: &mut B, w: &World, carry: &[u8]) -> Vec<u8> {
    // in a nested script: references are literal, carried owned nodes are placeholders of the caller
    let mut vals = std_refs(w);
    for c in carry {
        vals.push(v_own(*c));
    }
    let first = b.op(Op::Import(v_tuple(vals)), NREFS + carry.len() as u8);
    (0..carry.len() as u8).map(|i| first + NREFS + i).collect()
}

fn ret_own0() -> Op {
    Op::Return(enc(&v_own(0)))
}

/// Ops that make the acting frame hold `obj`; returns its slot.
fn acquire(b: &mut B, w: &World, actor: Actor, obj: Obj, tx_res_slot: Option<u8>) -> u8 {
    let q = w.puppet_q;
    let p = w.puppet_p;
    match obj {
        Obj::QObj => {
            let s = Script(vec![Op::NewObject { blueprint: PUPPET_BLUEPRINT.into(), fields: std_fields(), kv: vec![] }, ret_own0()]);
            b.op(Op::CallFunction { package: q, blueprint: PUPPET_BLUEPRINT.into(), function: PUPPET_RUN.into(), args: script_args(&s) }, 2) + 1
        }
        Obj::QInner => {
            let s = Script(vec![Op::NewObject { blueprint: PUPPET_INNER_BLUEPRINT.into(), fields: vec![(0, enc(&v_u32(9)), false)], kv: vec![] }, ret_own0()]);
            b.op(Op::CallMethod { receiver: N::Slot(GQ), method: PUPPET_ACT.into(), args: script_args(&s) }, 2) + 1
        }
        Obj::QGlobal => GQ,
        Obj::Bucket => b.op(Op::CallMethod { receiver: N::Slot(RES), method: "mint".into(), args: enc_t(&(dec!(5),)) }, 2) + 1,
        Obj::Proof => {
            let bucket = b.op(Op::CallMethod { receiver: N::Slot(RES), method: "mint".into(), args: enc_t(&(dec!(5),)) }, 2) + 1;
            b.op(Op::CallMethod { receiver: N::Slot(bucket), method: "create_proof_of_all".into(), args: enc(&v_unit()) }, 2) + 1
        }
        Obj::Vault => b.op(Op::CallMethod { receiver: N::Slot(RES), method: "create_empty_vault".into(), args: enc(&v_unit()) }, 2) + 1,
        Obj::Reservation { for_q, by } => {
            let pkg = if for_q { q } else { p };
            match by {
                Maker::P => b.op(Op::AllocateAddress { package: pkg, blueprint: PUPPET_BLUEPRINT.into() }, 2),
                Maker::Q => {
                    let s = Script(vec![Op::AllocateAddress { package: pkg, blueprint: PUPPET_BLUEPRINT.into() }, ret_own0()]);
                    b.op(Op::CallFunction { package: q, blueprint: PUPPET_BLUEPRINT.into(), function: PUPPET_RUN.into(), args: script_args(&s) }, 2) + 1
                }
                Maker::Tx => tx_res_slot.expect("transaction reservation is carried in"),
            }
        }
        Obj::OwnObj => b.op(Op::NewObject { blueprint: PUPPET_BLUEPRINT.into(), fields: std_fields(), kv: vec![] }, 1),
        Obj::OwnInner => match actor {
            Actor::GlobalMethod | Actor::InnerMethod => b.op(Op::NewObject { blueprint: PUPPET_INNER_BLUEPRINT.into(), fields: vec![(0, enc(&v_u32(9)), false)], kv: vec![] }, 1),
            _ => {
                let s = Script(vec![Op::NewObject { blueprint: PUPPET_INNER_BLUEPRINT.into(), fields: vec![(0, enc(&v_u32(9)), false)], kv: vec![] }, ret_own0()]);
                b.op(Op::CallMethod { receiver: N::Slot(GP), method: PUPPET_ACT.into(), args: script_args(&s) }, 2) + 1
            }
        },
    }
}

fn is_owned_kind(o: Obj) -> bool {
    !matches!(o, Obj::QGlobal)
}

/// The capability model.
fn expect(actor: Actor, obj: Option<Obj>, action: &Action) -> Exp {
    use Exp::*;
    let puppet_code = actor != Actor::InnerMethod; // acting blueprint is P.Puppet (else P.PuppetInner)
    let in_gp_context = matches!(actor, Actor::GlobalMethod | Actor::InnerMethod); // instance context = P's global component
    match action {
        Action::Drop => match obj.unwrap() {
            Obj::OwnObj => {
                if puppet_code {
                    Allowed
                } else {
                    Forbidden
                }
            }
            Obj::OwnInner => {
                if in_gp_context {
                    Allowed
                } else {
                    Forbidden
                }
            }
            _ => Forbidden,
        },
        Action::Globalize => match obj.unwrap() {
            Obj::OwnObj => {
                if puppet_code {
                    Allowed
                } else {
                    Unasserted
                }
            }
            Obj::OwnInner => Unasserted,
            _ => Forbidden,
        },
        Action::GlobalizeWith { q_object } => match obj.unwrap() {
            Obj::Reservation { for_q, .. } => {
                if !*q_object && !for_q {
                    if puppet_code {
                        Allowed
                    } else {
                        Unasserted
                    }
                } else {
                    Forbidden
                }
            }
            _ => Forbidden,
        },
        Action::KvOpenOn | Action::KvRemoveOn | Action::CallDirect | Action::CallModule => Forbidden,
        Action::NewObject(name) => match name.as_str() {
            "Puppet" => {
                if puppet_code {
                    Allowed
                } else {
                    Unasserted
                }
            }
            "PuppetInner" => {
                if in_gp_context {
                    Allowed
                } else {
                    Forbidden
                }
            }
            _ => Forbidden,
        },
        Action::ActorField { state, field, flags } => {
            if *flags > 1 {
                return Forbidden;
            }
            match (actor, *state) {
                (Actor::Func, _) => Forbidden,
                (Actor::GlobalMethod | Actor::OwnedMethod, 0) => {
                    if *field < 3 {
                        Allowed
                    } else {
                        Forbidden
                    }
                }
                (Actor::InnerMethod, 0) => {
                    if *field < 1 {
                        Allowed
                    } else {
                        Forbidden
                    }
                }
                (Actor::InnerMethod, 1) => {
                    if *field < 3 {
                        Allowed
                    } else {
                        Forbidden
                    }
                }
                _ => Forbidden,
            }
        }
        Action::ActorKv { state, collection, flags } => {
            if *flags > 1 {
                return Forbidden;
            }
            match (actor, *state) {
                (Actor::GlobalMethod | Actor::OwnedMethod, 0) | (Actor::InnerMethod, 1) => {
                    if *collection == PUPPET_COLL_KV {
                        Allowed
                    } else {
                        Forbidden
                    }
                }
                _ => Forbidden,
            }
        }
        Action::ActorIndex { state, collection } => match (actor, *state) {
            (Actor::GlobalMethod | Actor::OwnedMethod, 0) | (Actor::InnerMethod, 1) => {
                if *collection == PUPPET_COLL_INDEX {
                    Allowed
                } else {
                    Forbidden
                }
            }
            _ => Forbidden,
        },
        Action::ProofDropFn => Allowed,
        Action::ForeignHandle { .. } => Forbidden,
        Action::GlobalizeForeignModules { .. } => Forbidden,
    }
}

struct Scenario {
    actor: Actor,
    obj: Option<Obj>,
    action: Action,
    roundtrip: bool,
    by_reference: bool,
}

fn gen_scenario(g: &mut Gen) -> Scenario {
    let actor = [Actor::Func, Actor::GlobalMethod, Actor::OwnedMethod, Actor::InnerMethod][g.index(4)];
    let foreign = [Obj::QObj, Obj::QInner, Obj::QGlobal, Obj::Bucket, Obj::Proof, Obj::Vault];
    let maker = |g: &mut Gen| [Maker::P, Maker::Q, Maker::Tx][g.index(3)];
    let family = g.weighted(&[8, 6, 6, 3, 3, 5, 6, 3, 2, 3, 2]);
    let mut roundtrip = false;
    let mut by_reference = false;
    let (obj, action) = match family {
        0 => {
            // drop
            let o = match g.below(10) {
                0 => Obj::OwnObj,
                1 => Obj::OwnInner,
                2 => Obj::Reservation { for_q: g.bool(), by: maker(g) },
                _ => foreign[g.index(foreign.len())],
            };
            roundtrip = is_owned_kind(o) && !matches!(o, Obj::Proof) && g.chance(1, 4);
            by_reference = !roundtrip && matches!(o, Obj::QObj | Obj::QInner | Obj::Bucket | Obj::Vault) && g.chance(1, 5);
            (Some(o), Action::Drop)
        }
        1 => {
            let o = match g.below(8) {
                0 => Obj::OwnObj,
                1 => Obj::OwnInner,
                _ => foreign[g.index(foreign.len())],
            };
            roundtrip = is_owned_kind(o) && !matches!(o, Obj::Proof) && g.chance(1, 4);
            (Some(o), Action::Globalize)
        }
        2 => {
            let by = maker(g);
            let for_q = g.chance(3, 4);
            let q_object = g.bool();
            (Some(Obj::Reservation { for_q, by }), Action::GlobalizeWith { q_object })
        }
        3 => {
            let o = [Obj::QObj, Obj::QInner, Obj::QGlobal, Obj::Bucket, Obj::Vault][g.index(5)];
            (Some(o), if g.bool() { Action::KvOpenOn } else { Action::KvRemoveOn })
        }
        4 => {
            let o = [Obj::QObj, Obj::QInner, Obj::QGlobal][g.index(3)];
            if g.bool() {
                (Some(o), Action::CallDirect)
            } else {
                (Some([Obj::QObj, Obj::QInner][g.index(2)]), Action::CallModule)
            }
        }
        5 => {
            let names = ["Puppet", "PuppetInner", "FungibleVault", "FungibleBucket", "Account", "Metadata", "Package", "Worktop", "NoSuchBlueprint", ""];
            (None, Action::NewObject(names[g.index(names.len())].to_string()))
        }
        6 => {
            let state = [0u32, 0, 1, 1, 2, u32::MAX][g.index(6)];
            let field = [0u8, 1, 2, 3, 255][g.index(5)];
            let flags = [0u32, 1, 1, 2, 4, 3][g.index(6)];
            (None, Action::ActorField { state, field, flags })
        }
        7 => {
            let state = [0u32, 0, 1, 1, 2, u32::MAX][g.index(6)];
            let collection = [0u8, 1, 2, 3][g.index(4)];
            if g.bool() {
                (None, Action::ActorKv { state, collection, flags: [0u32, 1, 2][g.index(3)] })
            } else {
                (None, Action::ActorIndex { state, collection })
            }
        }
        8 => (Some(Obj::Proof), Action::ProofDropFn),
        10 => (Some([Obj::QObj, Obj::QInner, Obj::Bucket, Obj::Vault, Obj::OwnObj][g.index(5)]), Action::GlobalizeForeignModules { as_role_assignment: g.bool() }),
        _ => (None, Action::ForeignHandle { callee: g.below(3) as u8, use_: g.below(9) as u8, delta: [0i8, 0, 0, 1, -1][g.index(5)], which: g.below(2) as u8 }),
    };
    Scenario { actor, obj, action, roundtrip, by_reference }
}

/// The acting script (after the prelude) for everything but the foreign-handle family.
fn acting_ops(b: &mut B, w: &World, sc: &Scenario, tx_res: Option<u8>) {
    let x = sc.obj.map(|o| acquire(b, w, sc.actor, o, tx_res));
    if sc.roundtrip {
        let x = x.unwrap();
        let s = b.op(Op::KvStoreNew { allow_ownership: true }, 1);
        let h = b.op(Op::KvOpen { store: N::Slot(s), key: enc(&v_u32(1)), mutable: true }, 1);
        b.op(Op::KvSet(h, enc(&v_own(x))), 1);
        b.op(Op::KvClose(h), 1);
        b.op(Op::KvStoreRemove { store: N::Slot(s), key: enc(&v_u32(1)) }, 1);
    }
    let critical = |b: &mut B, x: Option<u8>| match &sc.action {
        Action::Drop => {
            b.op(Op::DropObject(N::Slot(x.unwrap())), 1);
        }
        Action::Globalize => {
            b.op(Op::Globalize { object: N::Slot(x.unwrap()), owner: OwnerSpec::None, reservation: None, with_royalty: false }, 1);
        }
        Action::GlobalizeWith { .. } => unreachable!(),
        Action::KvOpenOn => {
            b.op(Op::KvOpen { store: N::Slot(x.unwrap()), key: enc(&v_u32(1)), mutable: true }, 1);
        }
        Action::KvRemoveOn => {
            b.op(Op::KvStoreRemove { store: N::Slot(x.unwrap()), key: enc(&v_u32(1)) }, 1);
        }
        Action::CallDirect => {
            b.op(Op::CallDirect { receiver: N::Slot(x.unwrap()), method: PUPPET_ACT.into(), args: script_args(&Script(vec![])) }, 1);
        }
        Action::CallModule => {
            b.op(Op::CallModuleMethod { receiver: N::Slot(x.unwrap()), module: 1, method: "get".into(), args: enc_t(&("k".to_string(),)) }, 1);
        }
        Action::NewObject(name) => {
            let fields = if name == "PuppetInner" { vec![(0, enc(&v_u32(1)), false)] } else { std_fields() };
            b.op(Op::NewObject { blueprint: name.clone(), fields, kv: vec![] }, 1);
        }
        Action::ActorField { state, field, flags } => {
            b.op(Op::ActorOpenField { state: *state, field: *field, flags: *flags }, 1);
        }
        Action::ActorKv { state, collection, flags } => {
            b.op(Op::ActorOpenKv { state: *state, collection: *collection, key: enc(&v_u32(3)), flags: *flags }, 1);
        }
        Action::ActorIndex { state, collection } => {
            b.op(Op::ActorIndexInsert { state: *state, collection: *collection, key: enc(&v_u32(3)), value: enc(&v_u32(4)) }, 1);
        }
        Action::ProofDropFn => {
            b.op(
                Op::CallFunction { package: RESOURCE_PACKAGE, blueprint: "FungibleProof".into(), function: "Proof_drop".into(), args: enc(&v_tuple(vec![v_own(x.unwrap())])) },
                1,
            );
        }
        Action::ForeignHandle { .. } | Action::GlobalizeForeignModules { .. } => unreachable!(),
    };
    if let Action::GlobalizeWith { q_object } = &sc.action {
        let y = acquire(b, w, sc.actor, if *q_object { Obj::QObj } else { Obj::OwnObj }, None);
        b.log("A");
        b.op(Op::Globalize { object: N::Slot(y), owner: OwnerSpec::None, reservation: Some(N::Slot(x.unwrap())), with_royalty: false }, 1);
        b.log("B");
        return;
    }
    if let Action::GlobalizeForeignModules { as_role_assignment } = &sc.action {
        // a genuine module of the other kind, plus the foreign node in the place of the second module
        let genuine = {
            let (bp, f, a): (&str, &str, Vec<u8>) = if *as_role_assignment {
                ("Metadata", "create", enc(&v_unit()))
            } else {
                ("RoleAssignment", "create", enc_t(&(OwnerRoleEntry::new(AccessRule::DenyAll, OwnerRoleUpdater::None), IndexMap::<ModuleId, RoleAssignmentInit>::new())))
            };
            let pkg = if *as_role_assignment { METADATA_MODULE_PACKAGE } else { ROLE_ASSIGNMENT_MODULE_PACKAGE };
            b.op(Op::CallFunction { package: pkg, blueprint: bp.into(), function: f.into(), args: a }, 2) + 1
        };
        let own = b.op(Op::NewObject { blueprint: PUPPET_BLUEPRINT.into(), fields: std_fields(), kv: vec![] }, 1);
        b.log("A");
        let (ra, md) = if *as_role_assignment { (x.unwrap(), genuine) } else { (genuine, x.unwrap()) };
        b.op(Op::GlobalizeWithModules { object: N::Slot(own), role_assignment: N::Slot(ra), metadata: N::Slot(md), reservation: None }, 1);
        b.log("B");
        return;
    }
    if sc.by_reference {
        // the frame gives the node away into a key-value store of its own and keeps the entry open:
        // the node is then visible to it (a transient reference through the open substate) but no
        // longer owned by it. (References to non-global nodes cannot be passed in call arguments:
        // the kernel treats them as direct-access references.)
        let xs = x.unwrap();
        let st = b.op(Op::KvStoreNew { allow_ownership: true }, 1);
        let h = b.op(Op::KvOpen { store: N::Slot(st), key: enc(&v_u32(2)), mutable: true }, 1);
        b.op(Op::KvSet(h, enc(&v_own(xs))), 1);
        b.op(Op::KvClose(h), 1);
        b.op(Op::KvOpen { store: N::Slot(st), key: enc(&v_u32(2)), mutable: false }, 1);
        b.log("A");
        critical(b, Some(xs));
        b.log("B");
        return;
    }
    b.log("A");
    critical(b, x);
    b.log("B");
    // tidy up the simple permitted cases so that the transaction can commit
    match (&sc.action, sc.obj) {
        (Action::NewObject(name), _) if name == "Puppet" => {
            b.op(Op::DropObject(N::Slot(b.n - 2)), 1);
        }
        (Action::NewObject(name), _) if name == "PuppetInner" => {
            b.op(Op::DropObject(N::Slot(b.n - 2)), 1);
        }
        (Action::ProofDropFn, _) => {
            // the bucket behind the proof: burnable? not for this resource — deposit is not possible
            // from puppet code without an account reference, so the transaction ends with a dangling
            // bucket; only the marker matters here
        }
        _ => {}
    }
}

/// Wrap the acting ops into the manifest for the chosen actor.
fn wrap(w: &World, actor: Actor, build_acting: &dyn Fn(&mut B, Option<u8>), tx_reservation: Option<PackageAddress>) -> (TransactionManifestV1, Script) {
    let e = w.ext::<Ext>();
    // acting script
    let make_acting = |carry_from_caller: Option<u8>| -> Script {
        let mut b = B::new();
        let carried = prelude(&mut b, w, &carry_from_caller.map(|c| vec![c]).unwrap_or_default());
        build_acting(&mut b, carried.first().cloned());
        b.script()
    };
    // top-level script
    let mut top = B::new();
    let mut vals = std_refs(w);
    if tx_reservation.is_some() {
        vals.push(v_own_lit(marker(2, 0)));
    }
    let top_script: Script;
    let call_on_gp: bool;
    match actor {
        Actor::Func | Actor::GlobalMethod => {
            // the manifest calls the acting code directly: the prelude imports the marker itself
            let mut b = B::new();
            let n = vals.len() as u8;
            b.op(Op::Import(v_tuple(vals)), n);
            build_acting(&mut b, if tx_reservation.is_some() { Some(NREFS) } else { None });
            top_script = b.script();
            call_on_gp = actor == Actor::GlobalMethod;
        }
        Actor::OwnedMethod | Actor::InnerMethod => {
            let n = vals.len() as u8;
            top.op(Op::Import(v_tuple(vals)), n);
            let carry = if tx_reservation.is_some() { Some(NREFS) } else { None };
            let o = if actor == Actor::OwnedMethod {
                top.op(Op::NewObject { blueprint: PUPPET_BLUEPRINT.into(), fields: std_fields(), kv: vec![] }, 1)
            } else {
                top.op(Op::NewObject { blueprint: PUPPET_INNER_BLUEPRINT.into(), fields: vec![(0, enc(&v_u32(0)), false)], kv: vec![] }, 1)
            };
            top.op(Op::CallMethod { receiver: N::Slot(o), method: PUPPET_ACT.into(), args: script_args(&make_acting(carry)) }, 1);
            top.op(Op::DropObject(N::Slot(o)), 1);
            top_script = top.script();
            call_on_gp = actor == Actor::InnerMethod;
        }
    }
    let mut mb = ManifestBuilder::new().lock_fee_from_faucet();
    if let Some(pkg) = tx_reservation {
        mb = mb.allocate_global_address(pkg, PUPPET_BLUEPRINT, "c50_reservation", "c50_address");
    }
    let args = script_manifest_args(&top_script);
    let manifest = if call_on_gp {
        mb.call_method_raw(e.gp, PUPPET_ACT, args).build()
    } else {
        mb.call_function_raw(w.puppet_p, PUPPET_BLUEPRINT, PUPPET_RUN, args).build()
    };
    (manifest, top_script)
}

fn handle_use(use_: u8, h: u8) -> Op {
    match use_ {
        0 => Op::FieldRead(h),
        1 => Op::FieldWrite(h, enc(&v_u32(666))),
        2 => Op::FieldLock(h),
        3 => Op::FieldClose(h),
        4 => Op::KvGet(h),
        5 => Op::KvSet(h, enc(&v_u32(666))),
        6 => Op::KvLock(h),
        7 => Op::KvRemove(h),
        _ => Op::KvClose(h),
    }
}

fn class_of(sc: &Scenario) -> String {
    let a = match &sc.action {
        Action::Drop => "drop_object".to_string(),
        Action::Globalize => "globalize".to_string(),
        Action::GlobalizeWith { q_object } => format!("globalize of {} with a reservation", if *q_object { "Q's object" } else { "own object" }),
        Action::KvOpenOn => "key_value_store_open_entry on an object".to_string(),
        Action::KvRemoveOn => "key_value_store_remove_entry on an object".to_string(),
        Action::CallDirect => "call_direct_access_method".to_string(),
        Action::CallModule => "call_module_method on an owned object".to_string(),
        Action::NewObject(n) => format!("new_object({:?})", n),
        Action::ActorField { state, flags, field } => format!("actor_open_field(state {}, field {}, flags {})", state, if *field < 3 { "declared".to_string() } else { "undeclared".to_string() }, flags),
        Action::ActorKv { state, collection, flags } => format!("actor_open_key_value_entry(state {}, collection {}, flags {})", state, collection, flags),
        Action::ActorIndex { state, collection } => format!("actor_index_insert(state {}, collection {})", state, collection),
        Action::ProofDropFn => "Proof_drop function".to_string(),
        Action::ForeignHandle { .. } => "use of a handle opened in another frame".to_string(),
        Action::GlobalizeForeignModules { as_role_assignment } => format!("globalize of an own object with the node as {} module", if *as_role_assignment { "role-assignment" } else { "metadata" }),
    };
    format!("{} on {:?} by {:?}{}{}", a, sc.obj, sc.actor, if sc.roundtrip { " after a round trip through a key-value store" } else { "" }, if sc.by_reference { " held only through an open substate that owns it" } else { "" })
}

fn family_label(a: &Action) -> &'static str {
    match a {
        Action::Drop => "drop_object",
        Action::Globalize => "globalize",
        Action::GlobalizeWith { .. } => "globalize with reservation",
        Action::KvOpenOn | Action::KvRemoveOn => "key-value store API on an object",
        Action::CallDirect | Action::CallModule => "direct / module call on a foreign object",
        Action::NewObject(_) => "new_object by name",
        Action::ActorField { .. } => "actor_open_field with every state value",
        Action::ActorKv { .. } | Action::ActorIndex { .. } => "actor collection access with every state value",
        Action::ProofDropFn => "proof dropped through its blueprint",
        Action::ForeignHandle { .. } => "handle from another frame",
        Action::GlobalizeForeignModules { .. } => "globalize with a foreign node as module",
    }
}

fn case(g: &mut Gen) -> Outcome {
    with_world(WORLD_KEY, no_genesis, build, |w| {
        let e = w.ext::<Ext>().clone();
        let sc = gen_scenario(g);
        let exp = expect(sc.actor, sc.obj, &sc.action);
        g.label(family_label(&sc.action));
        let (base_facts, before) = base(w);
        let pre_scan = assemble(&base_facts);

        let (manifest, script) = if let Action::ForeignHandle { callee, use_, delta, which } = sc.action.clone() {
            // probe: learn the handle numbers the opening frame gets
            let opening = |b: &mut B| {
                b.op(Op::ActorOpenField { state: 0, field: 0, flags: 1 }, 1);
                b.op(Op::ActorOpenKv { state: 0, collection: PUPPET_COLL_KV, key: enc(&v_u32(1)), flags: 0 }, 1);
            };
            let mut pb = B::new();
            prelude(&mut pb, w, &[]);
            opening(&mut pb);
            pb.op(Op::FieldClose(NREFS), 1);
            pb.op(Op::KvClose(NREFS + 1), 1);
            let probe = w.run(puppet_method_manifest(e.gp, PUPPET_ACT, &pb.script()), vec![]);
            let handles: Vec<u32> = match probe.commit().map(|c| &c.outcome) {
                Some(TransactionOutcome::Success(outs)) => outs
                    .iter()
                    .filter_map(|o| match o {
                        InstructionOutput::CallReturn(bytes) => scrypto_decode::<Vec<Slot>>(bytes).ok(),
                        _ => None,
                    })
                    .flatten()
                    .filter_map(|s| match s {
                        Slot::Handle(h) => Some(h),
                        _ => None,
                    })
                    .collect(),
                _ => vec![],
            };
            if handles.len() != 2 {
                return Outcome::fail("C50 harness: handle probe failed", format!("probe outcome {} handles {:?}", probe.outcome_string(), handles));
            }
            w.reset();
            let k = (handles[which as usize] as i64 + delta as i64).max(0) as u32;
            let mut inner = B::new();
            prelude(&mut inner, w, &[]);
            let h = inner.op(Op::RawHandle(k), 1);
            inner.log("A");
            inner.op(handle_use(use_, h), 1);
            inner.log("B");
            let mut b = B::new();
            prelude(&mut b, w, &[]);
            opening(&mut b);
            match callee {
                0 => b.op(Op::CallMethod { receiver: N::Slot(GQ), method: PUPPET_ACT.into(), args: script_args(&inner.script()) }, 1),
                1 => b.op(Op::CallFunction { package: w.puppet_q, blueprint: PUPPET_BLUEPRINT.into(), function: PUPPET_RUN.into(), args: script_args(&inner.script()) }, 1),
                _ => b.op(Op::CallFunction { package: w.puppet_p, blueprint: PUPPET_BLUEPRINT.into(), function: PUPPET_RUN.into(), args: script_args(&inner.script()) }, 1),
            };
            let s = b.script();
            (puppet_method_manifest(e.gp, PUPPET_ACT, &s), s)
        } else {
            let tx_res = match sc.obj {
                Some(Obj::Reservation { for_q, by: Maker::Tx }) => Some(if for_q { w.puppet_q } else { w.puppet_p }),
                _ => None,
            };
            let build_acting = |b: &mut B, carried: Option<u8>| acting_ops(b, w, &sc, carried);
            wrap(w, sc.actor, &build_acting, tx_res)
        };

        let run = w.run(manifest, vec![]);
        let text = format!("{}\nexpectation: {:?}\n{}=> {}", class_of(&sc), exp, render_ops(&script.0), run.outcome_string());
        if let Some(p) = &run.panic {
            return Outcome::fail("C50 host panic while executing a generated transaction", format!("{}\npanic: {}", text, p));
        }
        if !run.is_commit() {
            return Outcome::fail("C50 harness: generated transaction was rejected", text);
        }
        let a = logs_contain(&run, "A");
        let b = logs_contain(&run, "B");
        if !a {
            return Outcome::fail("C50 harness: the script failed before reaching the operation under test", text);
        }
        match exp {
            Exp::Forbidden => {
                if b {
                    return Outcome::fail(format!("C50 forbidden operation succeeded: {}", family_label(&sc.action)), text);
                }
                vf_core::ensure!(!run.is_success(), "C50 transaction with a refused operation committed successfully", "{}", text);
                g.nontrivial();
                g.label("forbidden: refused");
            }
            Exp::Allowed => {
                if !b {
                    return Outcome::fail(format!("C50 permitted operation was refused: {}", family_label(&sc.action)), text);
                }
                g.label("permitted: performed");
            }
            Exp::Unasserted => {
                g.label(if b { "unasserted (package-level engine rule): performed" } else { "unasserted (package-level engine rule): refused" });
            }
        }

        // ---- state of everybody else is untouched
        let after = dump(w.db());
        let mut facts: Facts = (*base_facts).clone();
        update_facts(w.db(), &mut facts, Some(&touched_nodes(&run)));
        let post_scan = assemble(&facts);
        let root_of = |scan: &LedgerScan, n: &NodeId| -> NodeId {
            let mut cur = *n;
            let mut steps = 0;
            while let Some((p, _, _)) = scan.owner.get(&cur) {
                cur = *p;
                steps += 1;
                if steps > 64 {
                    break;
                }
            }
            cur
        };
        let mut allowed_roots: BTreeSet<NodeId> = e.noise.iter().cloned().collect();
        allowed_roots.insert(e.gp.into_node_id());
        let minted = matches!(sc.obj, Some(Obj::Bucket) | Some(Obj::Proof));
        if minted && run.is_success() {
            allowed_roots.insert(w.fungibles[0].address.into_node_id());
        }
        let mut changed: BTreeSet<NodeId> = BTreeSet::new();
        for (k, v) in before.iter() {
            if after.get(k) != Some(v) {
                changed.insert(k.0);
            }
        }
        for n in &changed {
            let root = root_of(&pre_scan, n);
            if !allowed_roots.contains(&root) || (!run.is_success() && !e.noise.contains(&root)) {
                let which: Vec<String> = before
                    .iter()
                    .filter(|(k, v)| k.0 == *n && after.get(*k) != Some(*v))
                    .map(|(k, v)| format!("partition {} key {}: {} -> {:?}", k.1, hex::encode(&k.2), hex::encode(v), after.get(k).map(hex::encode)))
                    .collect();
                return Outcome::fail(
                    "C50 substate of an object outside the acting blueprint changed",
                    format!("{}\nnode {} (root {}, blueprint {:?}):\n{}", text, hexn(n), hexn(&root), pre_scan.blueprint.get(n), which.join("\n")),
                );
            }
        }
        if !run.is_success() {
            // nothing new may appear either, except under the fee path
            for k in after.keys() {
                if !before.contains_key(k) && !e.noise.contains(&root_of(&post_scan, &k.0)) {
                    return Outcome::fail("C50 failed transaction left new substates behind", format!("{}\nnode {} partition {} key {}", text, hexn(&k.0), k.1, hex::encode(&k.2)));
                }
            }
        }
        if let Some(p) = post_scan.problems.first() {
            return Outcome::fail(format!("C50 stored ledger is ill-formed after the transaction: {}", p.class), format!("{}\n[{}] {}", text, p.class, p.detail));
        }
        g.sample(|| text.clone());
        Outcome::Pass
    })
}

pub fn check() -> Check {
    Check::new(
        "C50",
        "Objects are encapsulated by their blueprint",
        "single transactions in which package P's code (function / global method / owned-object method / inner-object method) holds a foreign or own node and performs one capability-sensitive SystemApi call between log markers; non-trivial = a call the capability model forbids was reached (marker before it present) on a node the script really holds",
    )
    .assume("the puppet blueprints stand for arbitrary blueprint code: they call SystemApi only")
    .assume("globalize / new_object by another blueprint of the same package is observed but not judged: the engine documents a package-level rule there ('only the package can globalize a node')")
    .min_nontrivial_pct(40.0)
    .part(Part::new("scripts", 12_000, 300_000, 200, case))
}
