fn main() {
    let a: Vec<String> = std::env::args().collect();
    match a.get(1).map(|s| s.as_str()) {
        Some("dump-catalogue") => vf_eng_e::env::dump_catalogue(),
        Some("authzone-scenario") => vf_eng_e::scenario::authzone_scenario(),
        _ => vf_core::main_with(vf_eng_e::checks()),
    }
}
