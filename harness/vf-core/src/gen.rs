//! Tape-driven choice source. Every random decision of every check is a draw from a byte tape
//! (generated and shrunk by proptest, or supplied by libFuzzer, or read from a replay file).
//! When the tape is exhausted every draw returns the minimal choice, and index draws are mapped
//! monotonically, so a shorter / more-zero tape always decodes to a simpler case.

use std::collections::BTreeMap;

pub struct Gen<'a> {
    tape: &'a [u8],
    pos: usize,
    fp: u64,
    draws: u64,
    pub(crate) labels: Vec<&'static str>,
    pub(crate) counters: BTreeMap<&'static str, u64>,
    pub(crate) nontrivial: bool,
    pub(crate) want_sample: bool,
    pub(crate) sample: Option<String>,
    pub(crate) excluded: Vec<String>,
}

const FNV_OFFSET: u64 = 0xcbf29ce484222325;
const FNV_PRIME: u64 = 0x100000001b3;

impl<'a> Gen<'a> {
    pub fn new(tape: &'a [u8]) -> Self {
        Gen {
            tape,
            pos: 0,
            fp: FNV_OFFSET,
            draws: 0,
            labels: Vec::new(),
            counters: BTreeMap::new(),
            nontrivial: false,
            want_sample: false,
            sample: None,
            excluded: Vec::new(),
        }
    }

    #[inline]
    fn mix(&mut self, v: u64) {
        let mut h = self.fp;
        for b in v.to_le_bytes() {
            h ^= b as u64;
            h = h.wrapping_mul(FNV_PRIME);
        }
        self.fp = h;
        self.draws += 1;
    }

    #[inline]
    fn raw_u8(&mut self) -> u8 {
        let b = if self.pos < self.tape.len() { self.tape[self.pos] } else { 0 };
        self.pos += 1;
        b
    }

    fn raw_n(&mut self, n: usize) -> u64 {
        // big-endian composition: the first byte is the most significant one, so zeroing any byte
        // lowers the value
        let mut v = 0u64;
        for _ in 0..n {
            v = (v << 8) | self.raw_u8() as u64;
        }
        v
    }

    /// True once every tape byte has been consumed (all further draws are minimal).
    pub fn exhausted(&self) -> bool {
        self.pos >= self.tape.len()
    }
    pub fn consumed(&self) -> usize {
        self.pos.min(self.tape.len())
    }
    /// Hash of every decoded choice so far: identifies the decoded case.
    pub fn fingerprint(&self) -> u64 {
        self.fp ^ self.draws.wrapping_mul(0x9E3779B97F4A7C15)
    }

    // ---- primitive draws ---------------------------------------------------------------

    pub fn u8(&mut self) -> u8 {
        let b = self.raw_u8();
        self.mix(b as u64);
        b
    }
    pub fn u16(&mut self) -> u16 {
        let v = self.raw_n(2);
        self.mix(v);
        v as u16
    }
    pub fn u32(&mut self) -> u32 {
        let v = self.raw_n(4);
        self.mix(v);
        v as u32
    }
    pub fn u64(&mut self) -> u64 {
        let v = self.raw_n(8);
        self.mix(v);
        v
    }
    pub fn u128(&mut self) -> u128 {
        let hi = self.u64() as u128;
        let lo = self.u64() as u128;
        (hi << 64) | lo
    }
    pub fn i64(&mut self) -> i64 {
        // zig-zag so that a zero tape is 0 and small tape values are small magnitudes
        let v = self.u64();
        ((v >> 1) as i64) ^ -((v & 1) as i64)
    }

    /// Uniform in `0..n` (n ≥ 1), monotone in the tape bytes. `below(0)` returns 0.
    pub fn below(&mut self, n: u64) -> u64 {
        if n <= 1 {
            return 0;
        }
        let r = if n <= 1 << 8 {
            (self.raw_n(1) * n) >> 8
        } else if n <= 1 << 16 {
            (self.raw_n(2) * n) >> 16
        } else if n <= 1 << 32 {
            (self.raw_n(4) * n) >> 32
        } else {
            ((self.raw_n(8) as u128 * n as u128) >> 64) as u64
        };
        self.mix(r);
        r
    }
    pub fn index(&mut self, len: usize) -> usize {
        self.below(len as u64) as usize
    }
    /// Uniform in `lo..=hi`.
    pub fn range(&mut self, lo: i128, hi: i128) -> i128 {
        assert!(lo <= hi);
        let span = (hi as u128).wrapping_sub(lo as u128);
        if span >= u64::MAX as u128 {
            let v = self.u128();
            if span == u128::MAX {
                return lo.wrapping_add(v as i128);
            }
            return lo.wrapping_add((v % (span + 1)) as i128);
        }
        lo.wrapping_add(self.below(span as u64 + 1) as i128)
    }
    pub fn range_u64(&mut self, lo: u64, hi: u64) -> u64 {
        self.range(lo as i128, hi as i128) as u64
    }
    pub fn range_usize(&mut self, lo: usize, hi: usize) -> usize {
        self.range(lo as i128, hi as i128) as usize
    }
    pub fn bool(&mut self) -> bool {
        self.below(2) == 1
    }
    /// True with probability num/den; an exhausted tape gives `false`.
    pub fn chance(&mut self, num: u64, den: u64) -> bool {
        debug_assert!(num <= den);
        self.below(den) >= den - num
    }
    /// Index chosen with the given weights; index 0 is the minimal choice.
    pub fn weighted(&mut self, weights: &[u32]) -> usize {
        let total: u64 = weights.iter().map(|w| *w as u64).sum();
        let mut r = self.below(total.max(1));
        for (i, w) in weights.iter().enumerate() {
            if r < *w as u64 {
                return i;
            }
            r -= *w as u64;
        }
        weights.len().saturating_sub(1)
    }
    pub fn pick<'b, T>(&mut self, items: &'b [T]) -> &'b T {
        assert!(!items.is_empty());
        &items[self.index(items.len())]
    }
    pub fn bytes(&mut self, n: usize) -> Vec<u8> {
        (0..n).map(|_| self.u8()).collect()
    }
    pub fn array<const N: usize>(&mut self) -> [u8; N] {
        let mut a = [0u8; N];
        for x in a.iter_mut() {
            *x = self.u8();
        }
        a
    }
    /// A length in `0..=max`, biased to small values (half of the draws are ≤ 4) and to `max`.
    pub fn len(&mut self, max: usize) -> usize {
        match self.weighted(&[8, 6, 1]) {
            0 => self.index(max.min(4) + 1),
            1 => self.index(max + 1),
            _ => max,
        }
    }
    /// A length biased towards the listed interesting values.
    pub fn len_around(&mut self, max: usize, interesting: &[usize]) -> usize {
        if !interesting.is_empty() && self.chance(1, 3) {
            let v = *self.pick(interesting);
            let d = self.below(3) as usize;
            return (v + d).saturating_sub(1).min(max);
        }
        self.len(max)
    }
    /// Rest of the tape as raw bytes (for "the tape is the payload" modes).
    pub fn rest(&mut self) -> Vec<u8> {
        let start = self.pos.min(self.tape.len());
        let v = self.tape[start..].to_vec();
        self.pos = self.tape.len();
        for b in &v {
            self.mix(*b as u64);
        }
        v
    }
    /// Up to `max` raw bytes from the tape: a length draw followed by that many bytes.
    pub fn blob(&mut self, max: usize) -> Vec<u8> {
        let n = self.len(max);
        self.bytes(n)
    }

    // ---- classification ----------------------------------------------------------------

    /// Count this case under a class label (shown as a histogram in the evidence).
    pub fn label(&mut self, l: &'static str) {
        if !self.labels.contains(&l) {
            self.labels.push(l);
        }
    }
    /// Add to a named counter (e.g. number of probes, skipped operations).
    pub fn count(&mut self, name: &'static str, n: u64) {
        *self.counters.entry(name).or_insert(0) += n;
    }
    /// Mark the case non-trivial by the check's stated rule.
    pub fn nontrivial(&mut self) {
        self.nontrivial = true;
    }
    pub fn set_nontrivial(&mut self, v: bool) {
        self.nontrivial = self.nontrivial || v;
    }
    pub fn is_nontrivial(&self) -> bool {
        self.nontrivial
    }
    /// Whether the driver would like a human-readable rendering of this case.
    pub fn want_sample(&self) -> bool {
        self.want_sample
    }
    pub fn sample(&mut self, f: impl FnOnce() -> String) {
        if self.want_sample && self.sample.is_none() {
            let mut s = f();
            if s.len() > 1500 {
                let mut cut = 1500;
                while !s.is_char_boundary(cut) {
                    cut -= 1;
                }
                s.truncate(cut);
                s.push('…');
            }
            self.sample = Some(s);
        }
    }
    /// Record that a known finding's input class was met and excluded from judgement.
    pub fn excluded_known(&mut self, signature: impl Into<String>) {
        self.excluded.push(signature.into());
    }
}
