//! C19 A crash during a Merkle-store commit leaves a consistent store.
//!
//! Fault enumeration: a generated history of 1-6 commits; the last commit is first run uninterrupted
//! on a twin copy of the pre-commit directory to learn its number of crash points `P` (one
//! immediately before every individual database mutation, through the `verif-hooks` feature of
//! radix-substate-store-impls) and the post-commit state; then for EVERY `p in 1..=P` the commit is
//! re-run on a fresh copy of the pre-commit directory with the hook stopping it at point `p`
//! (panic + `catch_unwind`; a sample also in a child process that `_exit`s at the point), the handle
//! is dropped and the directory reopened.
//!
//! Oracle: (a) the reopened store's (substates, version, root hash) equals the pre-commit or the
//! post-commit triple; (b) independently, its root hash equals the R5 reference root of the substates
//! it actually holds, and the tree's substate listing at its version equals those substates.

use vf_core::{Check, Level, Part};

const RULE: &str = "history of 1-6 commits (R4 generator, prefix-free keys) on RocksDBWithMerkleTreeSubstateStore (pruning on 3/4, off 1/4); the last commit is interrupted at EVERY crash point (one immediately before each individual database mutation); non-trivial = the last commit touches at least 2 substates and has a crash point strictly between its first and last mutation (P >= 3)";

pub fn check() -> Check {
    Check::new("C19", "A crash during a Merkle-store commit leaves a consistent store", RULE)
        .level(Level::FaultEnumeration)
        .assume("process-crash model: mutations issued before the stop are durable, later ones absent; torn writes inside RocksDB and power loss with an unsynced WAL are not expressible through the hook")
        .assume("crash points are exactly the calls of verif_hooks::crash_point in RocksDBWithMerkleTreeSubstateStore::commit (cargo feature verif-hooks); a stop is simulated by unwinding out of commit and dropping the handle, and for 1 case in 8 by _exit() in a child process (no destructors run, recovery from the WAL only)")
        .assume("unreachable tree nodes left behind by an interrupted pruning pass are not observable through the store's API and are not counted as an inconsistency")
        .min_nontrivial_pct(20.0)
        .part(Part::new("crash points", 600, 24_000, 900, imp::case))
}

/// Entry of the helper child process: `vf-store __c19_child <dir> <crash index> <pruning 0|1>`.
pub fn child_main(args: &[String]) -> ! {
    imp::child_main(args)
}

#[cfg(not(feature = "verif-hooks"))]
mod imp {
    use vf_core::{Gen, Outcome};

    pub fn case(g: &mut Gen) -> Outcome {
        // Without the hook there are no crash points to enumerate: never a pass.
        g.label("built without the verif-hooks feature: nothing can be enumerated");
        Outcome::Discard
    }

    pub fn child_main(_args: &[String]) -> ! {
        std::process::exit(2)
    }
}

#[cfg(feature = "verif-hooks")]
mod imp {
    use crate::model::*;
    use crate::scratch::{case_dir, copy_dir};
    use crate::smt::{blake, state_root, H};
    use radix_substate_store_impls::rocks_db_with_merkle_tree::RocksDBWithMerkleTreeSubstateStore;
    use radix_substate_store_impls::state_tree::list_substate_hashes_at_version;
    use radix_substate_store_impls::verif_hooks::set_crash_hook;
    use radix_substate_store_interface::interface::{
        CommittableSubstateDatabase, DatabaseUpdates, ListableSubstateDatabase, SubstateDatabase,
    };
    use std::cell::{Cell, RefCell};
    use std::collections::BTreeMap;
    use std::panic::{catch_unwind, AssertUnwindSafe};
    use std::path::Path;
    use std::sync::Once;
    use vf_core::{catch, Failure, Gen, Outcome};

    const STORE: &str = "RocksDBWithMerkleTreeSubstateStore::commit";
    const CHILD_EXIT: i32 = 86;

    // ---- the crash hook: process-global callback, per-thread decision -------------------------

    #[derive(Clone, Copy, PartialEq)]
    enum Mode {
        Off,
        Count,
        Panic(u32),
        Exit(u32),
    }

    thread_local! {
        static MODE: Cell<Mode> = const { Cell::new(Mode::Off) };
        static SEEN: Cell<u32> = const { Cell::new(0) };
        static LABELS: RefCell<Vec<&'static str>> = const { RefCell::new(Vec::new()) };
    }

    /// Payload of the simulated stop (distinguishes it from a genuine panic inside `commit`).
    struct Stop;

    extern "C" {
        fn _exit(code: i32) -> !;
    }

    fn callback(label: &'static str) {
        let mode = MODE.with(|m| m.get());
        if mode == Mode::Off {
            return;
        }
        let seen = SEEN.with(|s| {
            s.set(s.get() + 1);
            s.get()
        });
        match mode {
            Mode::Off => {}
            Mode::Count => LABELS.with(|l| l.borrow_mut().push(label)),
            Mode::Panic(at) => {
                if seen == at {
                    MODE.with(|m| m.set(Mode::Off));
                    std::panic::panic_any(Stop);
                }
            }
            Mode::Exit(at) => {
                if seen == at {
                    // the process stops here: no destructors, no rocksdb close
                    unsafe { _exit(CHILD_EXIT) }
                }
            }
        }
    }

    fn arm(mode: Mode) {
        static INSTALL: Once = Once::new();
        INSTALL.call_once(|| set_crash_hook(Some(callback)));
        SEEN.with(|s| s.set(0));
        LABELS.with(|l| l.borrow_mut().clear());
        MODE.with(|m| m.set(mode));
    }

    fn disarm() -> (u32, Vec<&'static str>) {
        MODE.with(|m| m.set(Mode::Off));
        (SEEN.with(|s| s.get()), LABELS.with(|l| l.borrow().clone()))
    }

    // ---- observing a store -------------------------------------------------------------------

    fn open(dir: &Path, pruning: bool) -> RocksDBWithMerkleTreeSubstateStore {
        let options = crate::c15::store_options();
        RocksDBWithMerkleTreeSubstateStore::with_options(&options, dir.to_path_buf(), pruning)
    }

    #[derive(Clone, PartialEq, Eq)]
    struct Triple {
        substates: BTreeMap<Key, Vec<u8>>,
        version: u64,
        root: H,
    }

    fn render_triple(t: &Triple) -> String {
        format!("version {} root {} substates {}", t.version, hex::encode(&t.root[..6]), render_model(&Model { map: t.substates.clone() }))
    }

    fn read_triple(db: &RocksDBWithMerkleTreeSubstateStore) -> Triple {
        let mut substates = BTreeMap::new();
        let parts: Vec<_> = db.list_partition_keys().collect();
        for pk in parts {
            for (sk, v) in db.list_raw_values_from_db_key(&pk, None) {
                substates.insert((pk.node_key.clone(), pk.partition_num, sk.0), v);
            }
        }
        Triple { substates, version: db.get_current_version(), root: db.get_current_root_hash().0 }
    }

    /// The tree's own listing of substate value hashes at `version` (version 0 = no tree yet).
    fn tree_listing(db: &RocksDBWithMerkleTreeSubstateStore, version: u64) -> BTreeMap<Key, H> {
        let mut out = BTreeMap::new();
        if version == 0 {
            return out;
        }
        for (pk, by_sort) in list_substate_hashes_at_version(db, version) {
            for (sk, h) in by_sort {
                out.insert((pk.node_key.clone(), pk.partition_num, sk.0), h.0);
            }
        }
        out
    }

    /// Oracle (b): version and root hash describe exactly the substates held. Independent of any
    /// expectation about *which* state the store is in.
    fn self_consistent(db: &RocksDBWithMerkleTreeSubstateStore, t: &Triple, when: &str) -> Result<(), Failure> {
        let reference = state_root(&t.substates);
        if reference != t.root {
            return Err(Failure {
                signature: format!("{} {}: recorded root hash is not the root of the substates held", STORE, when),
                message: format!("recorded {} but the reference root of the stored substates is {}; {}", hex::encode(t.root), hex::encode(reference), render_triple(t)),
            });
        }
        let listed = match catch(|| tree_listing(db, t.version)) {
            Ok(l) => l,
            Err(p) => {
                return Err(Failure {
                    signature: format!("{} {}: the tree at the recorded version cannot be read", STORE, when),
                    message: format!("listing the tree at version {} panicked: {}; {}", t.version, p, render_triple(t)),
                })
            }
        };
        let expected: BTreeMap<Key, H> = t.substates.iter().map(|(k, v)| (k.clone(), blake(&[v]))).collect();
        if listed != expected {
            return Err(Failure {
                signature: format!("{} {}: tree listing at the recorded version differs from the substates held", STORE, when),
                message: format!(
                    "tree lists {} substates, store holds {}; first difference at {:?}; {}",
                    listed.len(),
                    expected.len(),
                    listed.iter().zip(expected.iter()).find(|(a, b)| a != b).map(|(a, _)| format!("{}/{}/{}", hx(&a.0 .0), a.0 .1, hx(&a.0 .2))),
                    render_triple(t)
                ),
            });
        }
        Ok(())
    }

    /// Judges one reopened directory after a stop at point `p`.
    fn judge(dir: &Path, pruning: bool, pre: &Triple, post: &Triple, when: &str) -> Result<bool, Failure> {
        let r = catch(|| {
            let db = open(dir, pruning);
            let t = read_triple(&db);
            let b = self_consistent(&db, &t, when);
            (t, b)
        });
        let (t, b) = match r {
            Ok(x) => x,
            Err(p) => {
                return Err(Failure {
                    signature: format!("{} {}: the store cannot be reopened and read", STORE, when),
                    message: format!("panicked: {}", p),
                })
            }
        };
        if t != *pre && t != *post {
            let what = if t.version == pre.version && t.root == pre.root {
                "pre-commit version and root, but different substates"
            } else if t.version == post.version && t.root == post.root {
                "post-commit version and root, but different substates"
            } else {
                "version/root of neither state"
            };
            return Err(Failure {
                signature: format!("{} {}: reopened store is neither in the pre-commit nor in the post-commit state", STORE, when),
                message: format!("{}\n  reopened: {}\n  pre:      {}\n  post:     {}", what, render_triple(&t), render_triple(pre), render_triple(post)),
            });
        }
        b?;
        Ok(t == *post && t != *pre)
    }

    // ---- the case ----------------------------------------------------------------------------

    fn fail(f: Failure, ctx: &str) -> Outcome {
        Outcome::fail(f.signature, format!("{}\n{}", f.message, ctx))
    }

    pub fn case(g: &mut Gen) -> Outcome {
        let mut sample = String::new();
        let r = run(g, &mut sample);
        g.sample(|| sample);
        r
    }

    fn run(g: &mut Gen, sample: &mut String) -> Outcome {
        let domain = Domain { prefix_free: true, max_nodes: 3, max_parts: 2, max_sort_alphas: 2, max_sort_keys: 4, max_key_len: 6, long_keys: false };
        let alphabet = gen_alphabet(g, &domain);
        let shape = CommitShape { max_nodes: 2, max_parts: 2, max_items: 3 };
        let pruning = g.below(4) != 3;
        let n_commits = 1 + g.weighted(&[1, 3, 3, 3, 2, 2]);
        let in_child = g.chance(1, 8);

        let dir = case_dir("c19-");
        let pre_dir = dir.path().join("pre");
        let mut model = Model::default();
        let mut history: Vec<String> = Vec::new();

        // 1. the history before the last commit
        let pre = {
            let mut db = open(&pre_dir, pruning);
            for _ in 0..n_commits - 1 {
                let c = gen_commit(g, &alphabet, &model, &shape);
                model.apply(&c);
                history.push(render_commit(&c));
                let u = c.to_database_updates();
                if let Err(p) = catch(|| db.commit(&u)) {
                    return Outcome::fail(format!("{} uninterrupted: panics", STORE), format!("{}\nhistory: {}", p, history.join(" | ")));
                }
            }
            let t = read_triple(&db);
            if t.substates != model.map || t.version != (n_commits - 1) as u64 {
                return Outcome::fail(
                    format!("{} uninterrupted: substates or version differ from the model", STORE),
                    format!("store: {}\nmodel: version {} {}\nhistory: {}", render_triple(&t), n_commits - 1, render_model(&model), history.join(" | ")),
                );
            }
            if let Err(f) = self_consistent(&db, &t, "uninterrupted") {
                return fail(f, &format!("history: {}", history.join(" | ")));
            }
            t
        };

        // 2. the last commit, uninterrupted, on a twin: number of crash points and the post state
        let last = gen_commit(g, &alphabet, &model, &shape);
        let eff = effects(&model, &last);
        let mut model_post = model.clone();
        model_post.apply(&last);
        history.push(render_commit(&last));
        let ctx = format!("pruning {}; history (last commit is the interrupted one): {}", pruning, history.join(" | "));
        let updates = last.to_database_updates();
        *sample = ctx.clone();

        let twin_dir = dir.path().join("twin");
        copy_dir(&pre_dir, &twin_dir);
        let (post, labels) = {
            let mut db = open(&twin_dir, pruning);
            arm(Mode::Count);
            let r = catch(|| db.commit(&updates));
            let (_, labels) = disarm();
            if let Err(p) = r {
                return Outcome::fail(format!("{} uninterrupted: panics", STORE), format!("{}\n{}", p, ctx));
            }
            let t = read_triple(&db);
            if t.substates != model_post.map || t.version != n_commits as u64 {
                return Outcome::fail(
                    format!("{} uninterrupted: substates or version differ from the model", STORE),
                    format!("store: {}\nmodel: version {} {}\n{}", render_triple(&t), n_commits, render_model(&model_post), ctx),
                );
            }
            if let Err(f) = self_consistent(&db, &t, "uninterrupted") {
                return fail(f, &ctx);
            }
            (t, labels)
        };
        let _ = std::fs::remove_dir_all(&twin_dir);
        let points = labels.len() as u32;
        if points == 0 {
            return Outcome::fail(format!("{}: a commit passed no crash point (hook not compiled in?)", STORE), ctx);
        }

        // 3. every crash point
        let run_dir = dir.path().join("run");
        let mut landed_post = 0u64;
        let mut landed_pre = 0u64;
        for p in 1..=points {
            let _ = std::fs::remove_dir_all(&run_dir);
            copy_dir(&pre_dir, &run_dir);
            {
                let mut db = open(&run_dir, pruning);
                arm(Mode::Panic(p));
                let r = catch_unwind(AssertUnwindSafe(|| db.commit(&updates)));
                disarm();
                match r {
                    Err(payload) if payload.is::<Stop>() => {}
                    Err(payload) => {
                        let msg = vf_core::panic_message(&payload);
                        return Outcome::fail(format!("{} interrupted: panics before reaching the crash point", STORE), format!("point {}/{}: {}\n{}", p, points, msg, ctx));
                    }
                    Ok(()) => {
                        return Outcome::fail(
                            format!("{}: number of crash points differs between two runs of the same commit", STORE),
                            format!("point {} of {} was not reached\n{}", p, points, ctx),
                        )
                    }
                }
                drop(db);
            }
            let label = labels[(p - 1) as usize];
            match judge(&run_dir, pruning, &pre, &post, "interrupted") {
                Ok(true) => landed_post += 1,
                Ok(false) => landed_pre += 1,
                Err(f) => {
                    return fail(f, &format!("stopped immediately before mutation {} of {} [{}]; mutations of this commit: {:?}\n{}", p, points, label, labels, ctx));
                }
            }
        }

        // 4. one point again, in a child process that exits at the point without running destructors
        if in_child {
            let p = 1 + g.index(points as usize) as u32;
            let _ = std::fs::remove_dir_all(&run_dir);
            copy_dir(&pre_dir, &run_dir);
            let bytes = sbor_encode(&updates);
            std::fs::write(dir.path().join("updates.bin"), bytes).expect("write updates");
            let exe = std::env::current_exe().expect("current_exe");
            let status = std::process::Command::new(exe)
                .arg("__c19_child")
                .arg(&run_dir)
                .arg(p.to_string())
                .arg(if pruning { "1" } else { "0" })
                .arg(dir.path().join("updates.bin"))
                .stdin(std::process::Stdio::null())
                .stdout(std::process::Stdio::null())
                .stderr(std::process::Stdio::null())
                .status();
            match status {
                Ok(s) if s.code() == Some(CHILD_EXIT) => {
                    g.label("one point repeated in a child process (_exit, WAL recovery)");
                    if let Err(f) = judge(&run_dir, pruning, &pre, &post, "interrupted") {
                        return fail(f, &format!("child process stopped immediately before mutation {} of {} [{}]\n{}", p, points, labels[(p - 1) as usize], ctx));
                    }
                }
                other => {
                    // infrastructure trouble, not a verdict about the property
                    g.label("child process could not be run");
                    g.count("child process failures", 1);
                    let _ = other;
                }
            }
        }
        drop(dir);

        // classification
        let touched = last.touched();
        if points >= 3 && touched >= 2 {
            g.nontrivial();
        }
        g.count("crash points enumerated", points as u64);
        g.count("stops that left the pre-commit state", landed_pre);
        g.count("stops that left the post-commit state", landed_post);
        if pruning {
            g.label("pruning enabled");
        } else {
            g.label("pruning disabled");
        }
        if n_commits == 1 {
            g.label("first commit on an empty store");
        }
        if eff.reset_of_populated {
            g.label("last commit resets a populated partition");
        }
        if eff.deleted_last {
            g.label("last commit deletes a partition's last substate");
        }
        if labels.iter().any(|l| l.starts_with("pruning")) {
            g.label("crash points inside pruning");
        }
        if labels.iter().any(|l| l.contains("subtree")) {
            g.label("crash points inside subtree pruning");
        }
        if labels.iter().filter(|l| l.starts_with("substates")).count() > 0 {
            g.label("crash points at direct substate writes");
        }
        match points {
            1 => g.label("P = 1"),
            2 => g.label("P = 2"),
            3..=5 => g.label("P in 3..=5"),
            6..=10 => g.label("P in 6..=10"),
            _ => g.label("P > 10"),
        }
        *sample = format!("{} crash points {:?}; {}", points, labels, ctx);
        Outcome::Pass
    }

    fn sbor_encode(u: &DatabaseUpdates) -> Vec<u8> {
        radix_common::data::scrypto::scrypto_encode(u).expect("encode DatabaseUpdates")
    }

    pub fn child_main(args: &[String]) -> ! {
        // args: <dir> <crash index> <pruning> <updates file>
        let run = || -> Option<()> {
            let dir = std::path::PathBuf::from(args.first()?);
            let p: u32 = args.get(1)?.parse().ok()?;
            let pruning = args.get(2)? == "1";
            let bytes = std::fs::read(args.get(3)?).ok()?;
            let updates: DatabaseUpdates = radix_common::data::scrypto::scrypto_decode(&bytes).ok()?;
            let mut db = open(&dir, pruning);
            arm(Mode::Exit(p));
            db.commit(&updates);
            Some(())
        };
        let _ = run();
        // reaching this line means the crash point was not hit
        std::process::exit(3)
    }
}
