//! C16 Database key mapping is reversible and preserves sorted-index order.
//!
//! Only what the property states is asserted: round trip, injectivity, and ordering by the 2-byte
//! sort prefix. The concrete layout (which hash, how long, where) is not.

use radix_common::prelude::{FieldKey, MapKey, NodeId, PartitionNumber, SortedKey, SubstateKey};
use radix_substate_store_impls::memory_db::InMemorySubstateDatabase;
use radix_substate_store_interface::db_key_mapper::{DatabaseKeyMapper, SpreadPrefixKeyMapper as M};
use radix_substate_store_interface::interface::*;
use std::collections::BTreeSet;
use vf_core::{catch, ensure, Check, Gen, Outcome, Part};

fn gen_node_id(g: &mut Gen) -> NodeId {
    match g.weighted(&[2, 3, 1, 1]) {
        0 => {
            let mut id = [0u8; NodeId::LENGTH];
            id[0] = g.u8();
            id[NodeId::LENGTH - 1] = g.u8();
            NodeId(id)
        }
        1 => NodeId(g.array::<{ NodeId::LENGTH }>()),
        2 => NodeId([0x00; NodeId::LENGTH]),
        _ => NodeId([0xff; NodeId::LENGTH]),
    }
}

/// Map keys of length 0..=1024, biased to 0, 1, 20, 21 (around the mapper's hash-prefix length).
fn gen_map_key(g: &mut Gen) -> MapKey {
    let len = g.len_around(1024, &[0, 1, 20, 21, 32]);
    match g.weighted(&[3, 2, 1]) {
        0 => g.bytes(len),
        1 => vec![g.u8(); len],
        _ => {
            let mut k = vec![0u8; len];
            if let Some(last) = k.last_mut() {
                *last = g.u8();
            }
            k
        }
    }
}

fn gen_sort_prefix(g: &mut Gen) -> [u8; 2] {
    match g.weighted(&[3, 1, 1, 2]) {
        0 => g.u16().to_be_bytes(),
        1 => [0, 0],
        2 => [0xff, 0xff],
        _ => {
            // around a byte boundary: x0ff / (x+1)00
            let hi = g.u8();
            *g.pick(&[[hi, 0xff], [hi, 0x00], [hi, 0x01], [hi, 0xfe]])
        }
    }
}

/// A key related to `k`: equal, extended, truncated, or with one byte changed.
fn related_map_key(g: &mut Gen, k: &MapKey) -> MapKey {
    match g.weighted(&[2, 2, 2, 3, 2]) {
        0 => k.clone(),
        1 => {
            let mut e = k.clone();
            e.push(g.u8());
            e
        }
        2 => {
            let mut t = k.clone();
            t.pop();
            t
        }
        3 => {
            let mut c = k.clone();
            if !c.is_empty() {
                let i = g.index(c.len());
                c[i] = c[i].wrapping_add(1 + g.below(255) as u8);
            }
            c
        }
        _ => gen_map_key(g),
    }
}

fn hexs(b: &[u8]) -> String {
    if b.len() <= 48 {
        hex::encode(b)
    } else {
        format!("{}..({} bytes)", hex::encode(&b[..48]), b.len())
    }
}

macro_rules! mapped {
    ($sig:expr, $what:expr, $e:expr) => {
        match catch(|| $e) {
            Ok(v) => v,
            Err(p) => return Outcome::fail(format!("SpreadPrefixKeyMapper::{} panics", $sig), format!("{}: {}", $what, p)),
        }
    };
}

fn roundtrip(g: &mut Gen) -> Outcome {
    let node = gen_node_id(g);
    let partition = PartitionNumber(match g.weighted(&[3, 1, 1]) {
        0 => g.u8(),
        1 => 0,
        _ => 255,
    });
    // entity + partition
    let pk = mapped!("to_db_partition_key", format!("node {} partition {}", hex::encode(node.0), partition.0), M::to_db_partition_key(&node, partition));
    let back = mapped!("from_db_partition_key", format!("db partition key {:?}", pk), M::from_db_partition_key(&pk));
    ensure!(
        back == (node, partition),
        "SpreadPrefixKeyMapper: from_db_partition_key(to_db_partition_key(k)) != k",
        "node {} partition {} maps to node key {} / partition {} and back to node {} partition {}",
        hex::encode(node.0),
        partition.0,
        hex::encode(&pk.node_key),
        pk.partition_num,
        hex::encode(back.0 .0),
        back.1 .0
    );
    let nk = mapped!("to_db_node_key", format!("node {}", hex::encode(node.0)), M::to_db_node_key(&node));
    let nback = mapped!("from_db_node_key", format!("db node key {}", hex::encode(&nk)), M::from_db_node_key(&nk));
    ensure!(nback == node, "SpreadPrefixKeyMapper: from_db_node_key(to_db_node_key(k)) != k", "node {} -> {} -> {}", hex::encode(node.0), hex::encode(&nk), hex::encode(nback.0));

    // substate key of each flavour
    let flavour = g.weighted(&[1, 3, 3]);
    match flavour {
        0 => {
            g.label("field key");
            let k: FieldKey = g.u8();
            let db = mapped!("field_to_db_sort_key", format!("field {}", k), M::field_to_db_sort_key(&k));
            let b = mapped!("field_from_db_sort_key", format!("db sort key {}", hex::encode(&db.0)), M::field_from_db_sort_key(&db));
            ensure!(b == k, "SpreadPrefixKeyMapper: field key does not round-trip", "field {} -> {} -> {}", k, hex::encode(&db.0), b);
            let generic = mapped!("to_db_sort_key", format!("field {}", k), M::to_db_sort_key(&SubstateKey::Field(k)));
            ensure!(generic == db, "SpreadPrefixKeyMapper: to_db_sort_key disagrees with the flavour-specific mapping", "field {}: {} vs {}", k, hex::encode(&generic.0), hex::encode(&db.0));
            let gb = mapped!("from_db_sort_key", format!("db sort key {}", hex::encode(&db.0)), M::from_db_sort_key::<FieldKey>(&db));
            ensure!(gb == SubstateKey::Field(k), "SpreadPrefixKeyMapper: field key does not round-trip", "field {} -> {} -> {:?}", k, hex::encode(&db.0), gb);
            g.sample(|| format!("field {} <-> {}", k, hex::encode(&db.0)));
        }
        1 => {
            g.label("map key");
            let k = gen_map_key(g);
            if k.len() <= 1 {
                g.label("map key of length 0 or 1");
            }
            if (20..=21).contains(&k.len()) {
                g.label("map key of length 20 or 21");
            }
            let db = mapped!("map_to_db_sort_key", format!("map key {}", hexs(&k)), M::map_to_db_sort_key(&k));
            let b = mapped!("map_from_db_sort_key", format!("db sort key {}", hexs(&db.0)), M::map_from_db_sort_key(&db));
            ensure!(b == k, "SpreadPrefixKeyMapper: map key does not round-trip", "map key {} -> {} -> {}", hexs(&k), hexs(&db.0), hexs(&b));
            let generic = mapped!("to_db_sort_key", format!("map key {}", hexs(&k)), M::to_db_sort_key(&SubstateKey::Map(k.clone())));
            ensure!(generic == db, "SpreadPrefixKeyMapper: to_db_sort_key disagrees with the flavour-specific mapping", "map key {}: {} vs {}", hexs(&k), hexs(&generic.0), hexs(&db.0));
            let gb = mapped!("from_db_sort_key", format!("db sort key {}", hexs(&db.0)), M::from_db_sort_key::<MapKey>(&db));
            ensure!(gb == SubstateKey::Map(k.clone()), "SpreadPrefixKeyMapper: map key does not round-trip", "map key {} -> {} -> {:?}", hexs(&k), hexs(&db.0), gb);
            g.sample(|| format!("map {} <-> {}", hexs(&k), hexs(&db.0)));
        }
        _ => {
            g.label("sorted key");
            let k: SortedKey = (gen_sort_prefix(g), gen_map_key(g));
            let db = mapped!("sorted_to_db_sort_key", format!("sorted key {:?}", k), M::sorted_to_db_sort_key(&k));
            let b = mapped!("sorted_from_db_sort_key", format!("db sort key {}", hexs(&db.0)), M::sorted_from_db_sort_key(&db));
            ensure!(b == k, "SpreadPrefixKeyMapper: sorted key does not round-trip", "sorted key ({}, {}) -> {} -> ({}, {})", hex::encode(k.0), hexs(&k.1), hexs(&db.0), hex::encode(b.0), hexs(&b.1));
            let generic = mapped!("to_db_sort_key", format!("sorted key {:?}", k), M::to_db_sort_key(&SubstateKey::Sorted(k.clone())));
            ensure!(generic == db, "SpreadPrefixKeyMapper: to_db_sort_key disagrees with the flavour-specific mapping", "sorted key {:?}: {} vs {}", k, hexs(&generic.0), hexs(&db.0));
            let gb = mapped!("from_db_sort_key", format!("db sort key {}", hexs(&db.0)), M::from_db_sort_key::<SortedKey>(&db));
            ensure!(gb == SubstateKey::Sorted(k.clone()), "SpreadPrefixKeyMapper: sorted key does not round-trip", "sorted key {:?} -> {} -> {:?}", k, hexs(&db.0), gb);
            g.sample(|| format!("sorted ({}, {}) <-> {}", hex::encode(k.0), hexs(&k.1), hexs(&db.0)));
        }
    }
    g.nontrivial();
    Outcome::Pass
}

fn pairs(g: &mut Gen) -> Outcome {
    match g.weighted(&[2, 1, 3, 6]) {
        0 => {
            g.label("entity/partition pair");
            let n1 = gen_node_id(g);
            let p1 = g.u8();
            let (n2, p2) = match g.weighted(&[2, 2, 1]) {
                0 => (n1, g.u8()),
                1 => {
                    let mut b = n1.0;
                    let i = g.index(NodeId::LENGTH);
                    b[i] = b[i].wrapping_add(1 + g.below(255) as u8);
                    (NodeId(b), p1)
                }
                _ => (gen_node_id(g), g.u8()),
            };
            let a = mapped!("to_db_partition_key", format!("{:?}/{}", n1, p1), M::to_db_partition_key(&n1, PartitionNumber(p1)));
            let b = mapped!("to_db_partition_key", format!("{:?}/{}", n2, p2), M::to_db_partition_key(&n2, PartitionNumber(p2)));
            let distinct = (n1, p1) != (n2, p2);
            g.set_nontrivial(distinct);
            ensure!(
                (a == b) == !distinct,
                "SpreadPrefixKeyMapper: distinct (entity, partition) share a database partition key",
                "({}, {}) -> {:?} ; ({}, {}) -> {:?}",
                hex::encode(n1.0),
                p1,
                a,
                hex::encode(n2.0),
                p2,
                b
            );
            g.sample(|| format!("({}, {}) vs ({}, {})", hex::encode(n1.0), p1, hex::encode(n2.0), p2));
        }
        1 => {
            g.label("field key pair");
            let k1: FieldKey = g.u8();
            let k2: FieldKey = g.u8();
            let a = mapped!("field_to_db_sort_key", format!("field {}", k1), M::field_to_db_sort_key(&k1));
            let b = mapped!("field_to_db_sort_key", format!("field {}", k2), M::field_to_db_sort_key(&k2));
            g.set_nontrivial(k1 != k2);
            ensure!((a == b) == (k1 == k2), "SpreadPrefixKeyMapper: distinct field keys share a database sort key", "field {} -> {} ; field {} -> {}", k1, hex::encode(&a.0), k2, hex::encode(&b.0));
            g.sample(|| format!("field {} vs {}", k1, k2));
        }
        2 => {
            g.label("map key pair");
            let k1 = gen_map_key(g);
            let k2 = related_map_key(g, &k1);
            let a = mapped!("map_to_db_sort_key", format!("map key {}", hexs(&k1)), M::map_to_db_sort_key(&k1));
            let b = mapped!("map_to_db_sort_key", format!("map key {}", hexs(&k2)), M::map_to_db_sort_key(&k2));
            if k1 != k2 && (k1.starts_with(&k2) || k2.starts_with(&k1)) {
                g.label("one map key is a prefix of the other");
            }
            g.set_nontrivial(k1 != k2);
            ensure!((a == b) == (k1 == k2), "SpreadPrefixKeyMapper: distinct map keys share a database sort key", "map key {} -> {} ; map key {} -> {}", hexs(&k1), hexs(&a.0), hexs(&k2), hexs(&b.0));
            g.sample(|| format!("map {} vs {}", hexs(&k1), hexs(&k2)));
        }
        _ => {
            g.label("sorted key pair");
            let p1 = gen_sort_prefix(g);
            let r1 = gen_map_key(g);
            let p2 = match g.weighted(&[3, 3, 2, 2]) {
                0 => p1,
                1 => u16::from_be_bytes(p1).wrapping_add(1).to_be_bytes(),
                2 => u16::from_be_bytes(p1).wrapping_sub(1).to_be_bytes(),
                _ => gen_sort_prefix(g),
            };
            let r2 = related_map_key(g, &r1);
            let k1: SortedKey = (p1, r1);
            let k2: SortedKey = (p2, r2);
            let a = mapped!("sorted_to_db_sort_key", format!("sorted key {:?}", k1), M::sorted_to_db_sort_key(&k1));
            let b = mapped!("sorted_to_db_sort_key", format!("sorted key {:?}", k2), M::sorted_to_db_sort_key(&k2));
            let show = || format!("({}, {}) -> {} ; ({}, {}) -> {}", hex::encode(k1.0), hexs(&k1.1), hexs(&a.0), hex::encode(k2.0), hexs(&k2.1), hexs(&b.0));
            ensure!((a == b) == (k1 == k2), "SpreadPrefixKeyMapper: distinct sorted keys share a database sort key", "{}", show());
            if k1.0 != k2.0 {
                // order by the 2-byte prefix (big-endian numeric = byte-lexicographic), whatever the remainders
                ensure!(
                    (k1.0 < k2.0) == (a < b),
                    "SpreadPrefixKeyMapper: sorted keys are not ordered first by their 2-byte sort prefix",
                    "{}",
                    show()
                );
                let adjacent = u16::from_be_bytes(k1.0).abs_diff(u16::from_be_bytes(k2.0)) == 1;
                let (lo, hi) = if k1.0 < k2.0 { (&k1, &k2) } else { (&k2, &k1) };
                // remainders ordered the opposite way, as plain bytes or as the database orders them on their own
                let opposite_plain = lo.1 > hi.1;
                let opposite_mapped = M::map_to_db_sort_key(&lo.1) > M::map_to_db_sort_key(&hi.1);
                if adjacent {
                    g.label("adjacent prefixes");
                }
                if adjacent && lo.0[1] == 0xff {
                    g.label("adjacent prefixes across a byte boundary (xxff / yy00)");
                }
                if opposite_plain {
                    g.label("remainders ordered the opposite way (plain bytes)");
                }
                if opposite_mapped {
                    g.label("remainders ordered the opposite way (mapped)");
                }
                g.set_nontrivial(adjacent && (opposite_plain || opposite_mapped));
            } else if k1 != k2 {
                g.label("equal prefixes, distinct remainders (no tie allowed)");
                // total order, no ties: already implied by a != b above
                ensure!(a != b, "SpreadPrefixKeyMapper: distinct sorted keys share a database sort key", "{}", show());
            }
            g.sample(show);
        }
    }
    Outcome::Pass
}

/// The validator-set use case: entries written through the mapper list back in prefix order.
fn end_to_end(g: &mut Gen) -> Outcome {
    let node = gen_node_id(g);
    let partition = PartitionNumber(g.u8());
    let n = 1 + g.index(8);
    let base = g.u16();
    let mut keys: BTreeSet<SortedKey> = BTreeSet::new();
    let shared_rest = gen_map_key(g);
    for _ in 0..n {
        let prefix = match g.weighted(&[4, 1, 1, 2]) {
            0 => base.wrapping_add(g.below(4) as u16).to_be_bytes(),
            1 => [0, 0],
            2 => [0xff, 0xff],
            _ => g.u16().to_be_bytes(),
        };
        let rest = match g.weighted(&[2, 2, 1]) {
            0 => g.blob(24),
            1 => related_map_key(g, &shared_rest),
            _ => shared_rest.clone(),
        };
        keys.insert((prefix, rest));
    }
    let mut db = InMemorySubstateDatabase::standard();
    let inserted: Vec<SortedKey> = {
        // insert in a tape-chosen rotation so that insertion order is not the sorted order
        let v: Vec<SortedKey> = keys.iter().cloned().collect();
        let r = g.index(v.len());
        v[r..].iter().chain(v[..r].iter()).cloned().collect()
    };
    for (i, k) in inserted.iter().enumerate() {
        let value = vec![i as u8];
        if let Err(p) = catch(|| db.update_substate_raw(node, partition, SubstateKey::Sorted(k.clone()), value)) {
            return Outcome::fail("writing a sorted substate through the mapper panics", format!("key {:?}: {}", k, p));
        }
    }
    let listed: Vec<(SortedKey, Vec<u8>)> = match catch(|| db.list_sorted_raw_values(node, partition, None::<SubstateKey>).collect()) {
        Ok(v) => v,
        Err(p) => return Outcome::fail("list_sorted_raw_values panics", format!("keys {:?}: {}", inserted, p)),
    };
    let show = || format!("inserted {:?} ; listed {:?}", inserted.iter().map(|k| format!("({},{})", hex::encode(k.0), hexs(&k.1))).collect::<Vec<_>>(), listed.iter().map(|(k, _)| format!("({},{})", hex::encode(k.0), hexs(&k.1))).collect::<Vec<_>>());
    let listed_set: BTreeSet<SortedKey> = listed.iter().map(|(k, _)| k.clone()).collect();
    ensure!(listed_set == keys && listed.len() == keys.len(), "sorted substates written through the mapper do not list back as the same keys", "{}", show());
    ensure!(listed.windows(2).all(|w| w[0].0 .0 <= w[1].0 .0), "sorted substates do not list in order of their 2-byte sort prefix", "{}", show());
    for (k, v) in &listed {
        let i = inserted.iter().position(|x| x == k).unwrap();
        ensure!(*v == vec![i as u8], "sorted substates written through the mapper list back with another key's value", "{}", show());
    }
    let distinct_prefixes: BTreeSet<[u8; 2]> = keys.iter().map(|k| k.0).collect();
    if distinct_prefixes.len() >= 2 {
        g.label("≥ 2 distinct prefixes");
    }
    if distinct_prefixes.len() < keys.len() {
        g.label("several entries under one prefix");
    }
    g.set_nontrivial(distinct_prefixes.len() >= 2);
    g.sample(show);
    Outcome::Pass
}

pub fn check() -> Check {
    Check::new(
        "C16",
        "Database key mapping is reversible and preserves sorted-index order",
        "part roundtrip: arbitrary 30-byte node ids (random, all-00, all-ff, sparse), all partition numbers, field keys 0-255, map keys of length 0-1024 (biased to 0, 1, 20, 21, 32) and sorted keys (prefix incl. 0000, ffff, byte boundaries) are mapped by SpreadPrefixKeyMapper and back (flavour-specific and generic entry points); every case non-trivial. part pairs: two logical keys of one flavour, the second derived from the first (equal, extended, truncated, one byte changed, prefix +-1) - equal database keys iff equal logical keys; for sorted keys with different prefixes the database order must be the prefix order whatever the remainders; non-trivial = distinct keys, and for sorted keys: adjacent prefixes with remainders ordered the opposite way. part end_to_end: 1-8 sorted substates written through update_substate_raw into InMemorySubstateDatabase list back (list_sorted_raw_values) as the same keys with their values in non-decreasing prefix order; non-trivial = at least 2 distinct prefixes. Distinct = distinct decoded choice sequences.",
    )
    .assume("the concrete database key layout (hash prefix length and position) is not asserted")
    .part(Part::new("roundtrip", 2_000_000, 100_000_000, 1100, roundtrip))
    .part(Part::new("pairs", 4_000_000, 200_000_000, 1100, pairs))
    .part(Part::new("end_to_end", 1_000_000, 50_000_000, 400, end_to_end))
    .min_nontrivial_pct(20.0)
}
