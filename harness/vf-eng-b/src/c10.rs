//! C10 Funds behind a live proof cannot be withdrawn.

use crate::c09::model_case;
use crate::judge::Outcome3;
use crate::mgen::*;
use vf_core::{Check, Gen, Outcome, Part};

fn nontrivial(plan: &Plan, _o: Outcome3) -> bool {
    plan.outflows_under_2 > 0
}

fn case(g: &mut Gen) -> Outcome {
    // concentrate one case on one resource (plus the badge), so that proofs and outflows meet on
    // the same containers
    let mut prof = Profile::proofs();
    let res = match g.weighted(&[3, 3, 3, 2, 2, 2, 3, 2, 1, 1]) {
        0 => 3,  // divisibility 0, badge gated burn / recall / freeze
        1 => 6,  // divisibility 17, open burn, badge recall
        2 => 8,  // String ids, badge gated burn / recall
        3 => 2,  // divisibility 18, open burn
        4 => 7,  // Integer ids, open burn
        5 => 5,  // divisibility 1
        6 => 9,  // Bytes ids
        7 => 4,  // divisibility 6, nothing allowed
        8 => XRD_R,
        _ => 10, // RUID
    };
    prof.focus = Some(vec![res]);
    let out = model_case(g, &prof, "C10", 2, nontrivial);
    g.label(match res {
        2..=6 | 0 => "fungible_container",
        _ => "non_fungible_container",
    });
    out
}

pub fn check() -> Check {
    Check::new(
        "C10",
        "Funds behind a live proof cannot be withdrawn",
        "1-2 generated manifests per case, concentrated on one resource: interleavings of proof creation from buckets and account vaults (amount / ids / all), from the auth zone (amount / ids / all), clone, drop, push / pop, drop-all variants, with outflows from the same containers (withdraw, worktop take, burn, direct-vault recall, deposit of the locked bucket), amounts on and off the divisibility grid; in 40% of the manifests all proofs are finally dropped and a previously locked vault is withdrawn in full. Oracle: container model liquid + lock table (locked = max of live amounts / union of ids): an outflow of x succeeds iff x <= liquid and x is on the grid; dropping returns exactly the delta; final vault contents equal the model. Non-trivial = an outflow attempted on a container with >= 2 live locks.",
    )
    .part(Part::new("proofs", 5000, 200_000, 700, case))
    .min_nontrivial_pct(10.0)
}
