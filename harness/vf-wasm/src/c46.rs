//! C46 WASM instrumentation preserves program meaning.
//!
//! Differential: an R8 module is run in wasmi 0.39.1 (the engine's interpreter) as written — with a
//! memory maximum of 64 pages where it declares none, which is what validation injects — and again
//! after `ScryptoV1WasmValidator::validate` (gas metering + stack limiter injected), with stub host
//! functions that log their calls and a counting `gas` import with unlimited budget.

use crate::c45::{error_label, run_validate};
use crate::watgen::{self, Export, Opts, Ty};
use radix_common::prelude::*;
use radix_engine::transaction::ExecutionConfig;
use radix_engine_interface::blueprints::package::PackageDefinition;
use radix_engine_interface::prelude::*;
use radix_transactions::prelude::*;
use vf_core::{ensure, Check, Gen, Outcome, Part};
use vf_world::{no_build, no_genesis, with_world};
use wasmi::core::TrapCode;
use wasmi::{Engine, Extern, ExternType, Func, Linker, Module, Store, Val};

#[derive(Default)]
struct Host {
    /// (import name, arguments)
    calls: Vec<(String, Vec<i64>)>,
    gas: u64,
    gas_calls: u64,
}

#[derive(Clone, Debug, PartialEq, Eq)]
enum Trap {
    Code(String),
    Other(String),
}

#[derive(Clone, Debug, PartialEq)]
struct Run {
    result: Result<Vec<i64>, Trap>,
    mem_pages: u32,
    mem_hash: u64,
    mem: Vec<u8>,
    globals: Vec<i64>,
    calls: Vec<(String, Vec<i64>)>,
    gas: u64,
    gas_calls: u64,
}

fn val_i64(v: &Val) -> i64 {
    match v {
        Val::I32(x) => *x as i64,
        Val::I64(x) => *x,
        _ => 0,
    }
}

fn name_hash(s: &str) -> i64 {
    (vf_core::fnv(s.as_bytes()) & 0xffff) as i64
}

fn to_val(t: Ty, v: i64) -> Val {
    match t {
        Ty::I32 => Val::I32(v as i32),
        _ => Val::I64(v),
    }
}

/// Instantiate `bytes` with stub imports and call `export` with `args`.
fn execute(bytes: &[u8], export: &Export, args: &[i64], global_names: &[(String, Ty)]) -> Result<Run, String> {
    let engine = Engine::default();
    let module = Module::new(&engine, bytes).map_err(|e| format!("wasmi cannot compile: {}", e))?;
    let mut store = Store::new(&engine, Host::default());
    let mut linker = <Linker<Host>>::new(&engine);
    for imp in module.imports() {
        let name = imp.name().to_string();
        let ty = match imp.ty() {
            ExternType::Func(ft) => ft.clone(),
            other => return Err(format!("unexpected import kind {:?}", other)),
        };
        let n2 = name.clone();
        let f = if name == "gas" {
            Func::new(&mut store, ty, move |mut caller, params, _results| {
                let h = caller.data_mut();
                h.gas = h.gas.wrapping_add(val_i64(&params[0]) as u64);
                h.gas_calls += 1;
                Ok(())
            })
        } else {
            let results_ty: Vec<wasmi::core::ValType> = ty.results().to_vec();
            Func::new(&mut store, ty, move |mut caller, params, results| {
                let args: Vec<i64> = params.iter().map(val_i64).collect();
                let mut r = name_hash(&n2);
                for a in &args {
                    r = r.wrapping_mul(31).wrapping_add(*a);
                }
                caller.data_mut().calls.push((n2.clone(), args));
                for (k, t) in results_ty.iter().enumerate() {
                    results[k] = match t {
                        wasmi::core::ValType::I32 => Val::I32(r as i32),
                        _ => Val::I64(r),
                    };
                }
                Ok(())
            })
        };
        linker.define(imp.module(), &name, f).map_err(|e| format!("linker: {}", e))?;
    }
    let pre = linker.instantiate(&mut store, &module).map_err(|e| format!("wasmi cannot instantiate: {}", e))?;
    let instance = pre.ensure_no_start(&mut store).map_err(|e| format!("wasmi cannot instantiate: {}", e))?;
    let func = match instance.get_export(&store, &export.name) {
        Some(Extern::Func(f)) => f,
        _ => return Err(format!("export {} missing", export.name)),
    };
    let params: Vec<Val> = export.sig.params.iter().zip(args.iter()).map(|(t, v)| to_val(*t, *v)).collect();
    let mut results: Vec<Val> = export.sig.result.iter().map(|t| to_val(*t, 0)).collect();
    let r = func.call(&mut store, &params, &mut results);
    let result = match r {
        Ok(()) => Ok(results.iter().map(val_i64).collect()),
        Err(e) => Err(match e.as_trap_code() {
            Some(c) => Trap::Code(format!("{:?}", c)),
            None => Trap::Other(format!("{}", e)),
        }),
    };
    let (mem_pages, mem) = match instance.get_export(&store, "memory") {
        Some(Extern::Memory(m)) => {
            let d = m.data(&store);
            ((d.len() / 65536) as u32, d.to_vec())
        }
        _ => (0, vec![]),
    };
    let mut globals = vec![];
    for (n, _) in global_names {
        match instance.get_export(&store, n) {
            Some(Extern::Global(gl)) => globals.push(val_i64(&gl.get(&store))),
            _ => return Err(format!("global export {} missing", n)),
        }
    }
    let h = store.data();
    Ok(Run { result, mem_pages, mem_hash: vf_core::fnv(&mem), mem, globals, calls: h.calls.clone(), gas: h.gas, gas_calls: h.gas_calls })
}

const MODULE_TAPE: usize = 1100;
const CONTROL_TAPE: usize = 128;

const ARG_VALUES: &[i64] = &[0, 1, -1, 2, 7, 8, 40, 300, 1100, 2047, 0x7fff_ffff, -0x8000_0000, 0xffff_ffff, i64::MAX, i64::MIN, 65535, 65536, 1 << 32, 5, 13];

fn gen_args(g: &mut Gen, n: usize) -> Vec<i64> {
    (0..n)
        .map(|_| match g.weighted(&[5, 2]) {
            0 => *g.pick(ARG_VALUES),
            _ => g.u64() as i64,
        })
        .collect()
}

fn first_diff(a: &[u8], b: &[u8]) -> String {
    if a.len() != b.len() {
        return format!("sizes {} / {}", a.len(), b.len());
    }
    match a.iter().zip(b.iter()).position(|(x, y)| x != y) {
        Some(p) => format!("first difference at {:#x}: {:#04x} / {:#04x}", p, a[p], b[p]),
        None => "equal".into(),
    }
}

fn is_stack_trap(t: &Trap) -> bool {
    matches!(t, Trap::Code(c) if c == &format!("{:?}", TrapCode::StackOverflow) || c == &format!("{:?}", TrapCode::UnreachableCodeReached))
}

fn case(g: &mut Gen) -> Outcome {
    let opts = Opts { max_funcs: 6, export_all: true, recursion: true, vm_version: 2, ..Default::default() };
    // the module is generated from its own stretch of tape so that its structural twin can be
    // regenerated from the same choices
    // (the choices of exports and arguments come first so that short tapes still vary them)
    let control = g.bytes(CONTROL_TAPE);
    let mut cg = Gen::new(&control);
    let module_tape = g.bytes(MODULE_TAPE);
    let m = watgen::generate(&mut Gen::new(&module_tape), &opts);
    let wat_text = m.wat.clone();
    g.sample(|| format!("{:?}\n{}", m.stats, wat_text));
    let original = match wat::parse_str(&m.wat_ref) {
        Ok(b) => b,
        Err(e) => return Outcome::fail("harness: generated WAT does not assemble", format!("{}\n{}", e, m.wat_ref)),
    };
    let submitted = match wat::parse_str(&m.wat) {
        Ok(b) => b,
        Err(e) => return Outcome::fail("harness: generated WAT does not assemble", format!("{}\n{}", e, m.wat)),
    };
    let instrumented = match run_validate(&submitted, 2) {
        Err(p) => return Outcome::fail("ScryptoV1WasmValidator::validate panics", format!("{}\n{}", p, m.wat)),
        Ok(Err(e)) => {
            return Outcome::fail(
                format!("ScryptoV1WasmValidator::validate rejects a module that is within every limit: {}", error_label(&e)),
                format!("{:?}\n{}", e, m.wat),
            )
        }
        Ok(Ok((code, _))) => code,
    };

    // structural twin: same tape, other free constants in straight-line functions
    let twin_instrumented = if m.exports.iter().any(|e| e.straight) { twin(&module_tape, &opts) } else { None };

    let n_exports = m.exports.len();
    let picks = 1 + cg.index(3.min(n_exports));
    let mut any_trap = false;
    let mut any_loop = false;
    let straight: Vec<usize> = (0..n_exports).filter(|i| m.exports[*i].straight).collect();
    for pick in 0..picks {
        // the first pick prefers a straight-line export, the second the recursive entry point
        let e = if pick == 0 && !straight.is_empty() && cg.chance(2, 3) {
            &m.exports[straight[cg.index(straight.len())]]
        } else if pick <= 1 && m.exports[0].recursive && cg.chance(1, 2) {
            &m.exports[0]
        } else {
            &m.exports[cg.index(n_exports)]
        };
        let n_vectors = if e.straight { 3 } else { 1 + cg.index(3) };
        let mut straight_gas: Option<(u64, Vec<i64>)> = None;
        for _ in 0..n_vectors {
            let args = gen_args(&mut cg, e.sig.params.len());
            let ctx = |what: &str| format!("{}\nexport {} args {:?}\n{}", what, e.name, args, m.wat);
            let a = match execute(&original, e, &args, &m.globals) {
                Ok(r) => r,
                Err(s) => return Outcome::fail("harness: original module does not run in wasmi", ctx(&s)),
            };
            let b = match execute(&instrumented, e, &args, &m.globals) {
                Ok(r) => r,
                Err(s) => return Outcome::fail("instrumented module does not run in wasmi", ctx(&s)),
            };
            g.count("executions", 1);
            if a.gas_calls != 0 {
                return Outcome::fail("harness: original module charges gas", ctx(""));
            }
            if let Some(f) = a.globals.first() {
                if *f < 2000 {
                    any_loop = true;
                }
            }
            // deep recursion: the limiter (1024 units) is stricter than wasmi's own depth limit by
            // design; beyond a depth of 50 frames "the instrumented run traps in the limiter" is accepted
            let deep = e.recursive && (args[0] & 2047) >= 50;
            match (&a.result, &b.result) {
                (Ok(x), Ok(y)) => {
                    ensure!(x == y, "instrumented module returns another value", "{}", ctx(&format!("original {:?}, instrumented {:?}", x, y)));
                }
                (Err(x), Err(y)) => {
                    any_trap = true;
                    g.label("trap");
                    if x != y {
                        ensure!(deep && is_stack_trap(x) && is_stack_trap(y), "instrumented module traps differently", "{}", ctx(&format!("original {:?}, instrumented {:?}", x, y)));
                        g.label("trap:stack_exhaustion");
                        continue;
                    }
                    if deep && is_stack_trap(x) {
                        g.label("trap:stack_exhaustion");
                        continue;
                    }
                }
                (Ok(_), Err(y)) if deep && is_stack_trap(y) => {
                    any_trap = true;
                    g.label("trap:limiter_only");
                    continue;
                }
                (x, y) => {
                    return Outcome::fail("instrumented module traps where the original does not (or the reverse)", ctx(&format!("original {:?}, instrumented {:?}", x, y)));
                }
            }
            ensure!(a.mem_pages == b.mem_pages, "instrumented module ends with another memory size", "{}", ctx(&format!("original {} pages, instrumented {}", a.mem_pages, b.mem_pages)));
            ensure!(a.mem_hash == b.mem_hash && a.mem == b.mem, "instrumented module ends with other memory contents", "{}", ctx(&first_diff(&a.mem, &b.mem)));
            ensure!(a.globals == b.globals, "instrumented module ends with other globals", "{}", ctx(&format!("original {:?}, instrumented {:?}", a.globals, b.globals)));
            ensure!(a.calls == b.calls, "instrumented module makes other host calls", "{}", ctx(&format!("original {:?}, instrumented {:?}", a.calls, b.calls)));

            // cost: a fresh instance charges the same
            let b2 = match execute(&instrumented, e, &args, &m.globals) {
                Ok(r) => r,
                Err(s) => return Outcome::fail("instrumented module does not run in wasmi", ctx(&s)),
            };
            ensure!(b2.gas == b.gas && b2.gas_calls == b.gas_calls && b2.result == b.result, "gas differs between two fresh instances", "{}", ctx(&format!("{} in {} charges, then {} in {}", b.gas, b.gas_calls, b2.gas, b2.gas_calls)));
            if b.result.is_ok() {
                ensure!(b.gas > 0, "instrumented module runs without charging gas", "{}", ctx(""));
            }
            if e.straight {
                g.label("straight_line");
                if let Some((gas0, args0)) = &straight_gas {
                    ensure!(
                        *gas0 == b.gas,
                        "gas of a straight-line function depends on its arguments",
                        "{}",
                        ctx(&format!("{} for {:?}, {} for these", gas0, args0, b.gas))
                    );
                } else {
                    straight_gas = Some((b.gas, args.clone()));
                }
                if let Some((twin_code, twin_wat)) = &twin_instrumented {
                    let t = match execute(twin_code, e, &args, &m.globals) {
                        Ok(r) => r,
                        Err(s) => return Outcome::fail("instrumented module does not run in wasmi", ctx(&s)),
                    };
                    g.label("straight_line:twin");
                    ensure!(
                        t.gas == b.gas,
                        "gas of a straight-line function depends on the value of an immediate",
                        "{}\n--- twin (same instructions, other constants) ---\n{}",
                        ctx(&format!("{} here, {} in the twin", b.gas, t.gas)),
                        twin_wat
                    );
                }
            }
        }
    }
    let s = &m.stats;
    if any_loop {
        g.label("loop_iterated");
    }
    g.set_nontrivial(any_trap || (any_loop && s.calls + s.indirect_calls + s.host_calls > 0));
    Outcome::Pass
}

/// Regenerate the module from the same tape with another salt and instrument it.
fn twin(tape: &[u8], opts: &Opts) -> Option<(Vec<u8>, String)> {
    let mut g2 = Gen::new(tape);
    let o2 = Opts { salt: 0x5a5a_a5a5_1234_4321, ..opts.clone() };
    let m2 = watgen::generate(&mut g2, &o2);
    let b = wat::parse_str(&m2.wat).ok()?;
    match run_validate(&b, 2) {
        Ok(Ok((code, _))) => Some((code, m2.wat)),
        _ => None,
    }
}

// ------------------------------------------------------------------------------------------------
// engine path: published package, same call under the flag matrix
// ------------------------------------------------------------------------------------------------

fn engine_case(g: &mut Gen) -> Outcome {
    let opts = Opts { max_funcs: 5, export_all: false, recursion: true, vm_version: 2, ..Default::default() };
    let m = watgen::generate(g, &opts);
    let wat_text = m.wat.clone();
    g.sample(|| format!("{:?}\n{}", m.stats, wat_text));
    let code = match wat::parse_str(&m.wat) {
        Ok(b) => b,
        Err(e) => return Outcome::fail("harness: generated WAT does not assemble", format!("{}\n{}", e, m.wat)),
    };
    let flags = g.below(8);
    with_world("c46", no_genesis, no_build, |w| {
        let definition = PackageDefinition::new_single_function_test_definition("Test", "f");
        let manifest = ManifestBuilder::new().lock_fee_from_faucet().publish_package_advanced(None, code.clone(), definition, MetadataInit::default(), OwnerRole::None).build();
        let run = w.run(manifest, vec![]);
        if let Some(p) = &run.panic {
            return Outcome::fail("publishing a generated package panics", format!("{}\n{}", p, m.wat));
        }
        if !run.is_success() {
            return Outcome::fail("publishing a generated valid package fails", format!("{}\n{}", run.outcome_string(), m.wat));
        }
        let package = run.commit().unwrap().new_package_addresses()[0];
        let snapshot = w.sim.create_snapshot();
        let call = || ManifestBuilder::new().lock_fee_from_faucet().call_function(package, "Test", "f", manifest_args!()).build();
        let mut seen: Vec<(String, u32, String)> = vec![];
        let configs: Vec<(String, ExecutionConfig)> = vec![
            ("plain".into(), ExecutionConfig::for_test_transaction().with_cost_breakdown(false)),
            ("again".into(), ExecutionConfig::for_test_transaction().with_cost_breakdown(false)),
            (
                format!("kernel_trace={} cost_breakdown={} execution_trace={}", flags & 1 != 0, flags & 2 != 0, flags & 4 != 0),
                ExecutionConfig::for_test_transaction().with_kernel_trace(flags & 1 != 0).with_cost_breakdown(flags & 2 != 0).with_execution_trace(if flags & 4 != 0 { Some(5) } else { None }),
            ),
        ];
        for (name, cfg) in configs {
            w.sim.restore_snapshot(snapshot.clone());
            let r = w.run_with_config(call(), vec![], cfg);
            if let Some(p) = &r.panic {
                return Outcome::fail("calling a generated package panics", format!("{} [{}]\n{}", p, name, m.wat));
            }
            let receipt = r.receipt();
            let units = receipt.fee_summary.total_execution_cost_units_consumed;
            seen.push((name, units, r.outcome_string()));
        }
        let (_, u0, o0) = &seen[0];
        for (name, u, o) in &seen[1..] {
            ensure!(u == u0 && o == o0, "execution cost units of a WASM call differ between identical runs / trace flags", "plain: {} units, {}\n{}: {} units, {}\n{}", u0, o0, name, u, o, m.wat);
        }
        if o0.starts_with("CommitSuccess") {
            g.label("engine:success");
        } else {
            g.label("engine:failure");
        }
        g.set_nontrivial(m.stats.loops > 0 || m.stats.calls > 0);
        Outcome::Pass
    })
}

pub fn check() -> Check {
    Check::new(
        "C46",
        "WASM instrumentation preserves program meaning",
        "Part differential: R8 modules (1-6 functions over i32/i64, locals, globals, loads/stores of every width, block/loop/if/br/br_if/br_table, direct calls down a DAG, call_indirect through a table with nulls and signature mismatches, host imports, memory.grow, bounded loops up to 600 iterations, parameter-driven recursion up to 2047 frames, deliberate traps: unreachable, division, out-of-bounds access, indirect-call traps, stack exhaustion), every global exported; 1-3 exported functions x 1-3 argument vectors of boundary integers. The module as written (with the 64-page memory maximum validation injects) and the output of ScryptoV1WasmValidator::validate are run in wasmi 0.39.1 on fresh instances with stub host functions that log (name, arguments) and return a function of them, plus a counting `gas`: equal return values, trap codes, final memory (size and bytes), globals and host-call logs; beyond 50 frames of recursion a limiter trap in the instrumented run alone is accepted; gas equal on a second fresh instance and > 0; for straight-line exports gas equal for all argument vectors and equal to the gas of the structural twin (same tape, other free constants). Part engine: the package is published in the world and Test::f called from the same snapshot twice and under a generated combination of kernel-trace / cost-breakdown / execution-trace flags: equal outcome and execution cost units. Non-trivial = a trap, or >= 1 loop iteration (fuel global decreased) in a module with calls. Distinct = distinct decoded choice sequences.",
    )
    .assume("wasmi 0.39.1 (the interpreter the engine itself uses) is the reference semantics for the uninstrumented module; host functions are deterministic stubs")
    .assume("the stack limiter is stricter than wasmi's own recursion limit by design: for recursion deeper than 50 frames only 'both trap, or only the instrumented run traps in the limiter' is required")
    .part(Part::new("differential", 16_000, 800_000, 1228, case))
    .part(Part::new("engine", 3_000, 120_000, 1200, engine_case))
    .min_nontrivial_pct(20.0)
}
