//! Helpers shared by the checks of this crate.

use scrypto_test::prelude::*;
use vf_world::*;

/// Number of bytes of the LEB128 size prefix SBOR uses for a length.
pub fn leb(m: usize) -> usize {
    match m {
        0..=0x7f => 1,
        0x80..=0x3fff => 2,
        0x4000..=0x1f_ffff => 3,
        _ => 4,
    }
}

/// A valid Scrypto SBOR payload of exactly `n` bytes (n >= 4), or None when no shape fits.
pub fn sized_payload(n: usize) -> Option<Vec<u8>> {
    // shape A: Vec<u8>: prefix + array kind + element kind + leb(m) + m
    for l in 1..=4usize {
        if n < 3 + l {
            continue;
        }
        let m = n - 3 - l;
        if leb(m) == l {
            let p = scrypto_encode(&vec![0xABu8; m]).unwrap();
            if p.len() == n {
                return Some(p);
            }
        }
    }
    // shape B: (Vec<u8> of 7, Vec<u8> of m): 3 + (3 + 7) + (2 + leb(m) + m)
    for l in 1..=4usize {
        if n < 15 + l {
            continue;
        }
        let m = n - 15 - l;
        if leb(m) == l {
            let p = scrypto_encode(&(vec![1u8; 7], vec![0xABu8; m])).unwrap();
            if p.len() == n {
                return Some(p);
            }
        }
    }
    None
}

/// Test-transaction execution config with the given overrides applied.
pub fn config_with(update: impl FnOnce(&mut SystemOverrides)) -> ExecutionConfig {
    let mut cfg = ExecutionConfig::for_test_transaction().with_kernel_trace(false).with_cost_breakdown(false);
    let mut o = cfg.system_overrides.take().unwrap_or_default();
    update(&mut o);
    cfg.system_overrides = Some(o);
    cfg
}

/// Create a globalized Puppet component of package `pkg` (owner None, optionally with the royalty module).
pub fn new_puppet_component(w: &mut World, pkg: PackageAddress, owner: OwnerSpec, with_royalty: bool) -> ComponentAddress {
    let unit = scrypto_encode(&()).unwrap();
    let script = Script(vec![
        Op::NewObject {
            blueprint: PUPPET_BLUEPRINT.into(),
            fields: vec![(0, unit.clone(), false), (1, unit.clone(), false), (2, unit.clone(), false)],
            kv: vec![],
        },
        Op::Globalize { object: N::Slot(0), owner, reservation: None, with_royalty },
    ]);
    let m = w.puppet_manifest(pkg, &script);
    let run = w.run(m, vec![]);
    let c = run.commit().unwrap_or_else(|| panic!("harness: creating a puppet component failed: {}", run.outcome_string()));
    assert!(run.is_success(), "harness: creating a puppet component failed: {}", run.outcome_string());
    c.new_component_addresses()[0]
}

pub fn args_of(script: &Script) -> Vec<u8> {
    scrypto_encode(&(script.clone(),)).unwrap()
}

/// Manifest: lock fee from the faucet, then call `method(script)` on a puppet component.
pub fn puppet_method_manifest(component: ComponentAddress, method: &str, script: &Script) -> TransactionManifestV1 {
    ManifestBuilder::new()
        .lock_fee_from_faucet()
        .call_method(component, method, (script.clone_as_manifest_value(),))
        .build()
}

/// `Op::Import` of references to the given global nodes: makes them visible to the frame running the script
/// (and pushes one Node slot per node).
pub fn import_refs(nodes: &[NodeId]) -> Op {
    Op::Import(ScryptoValue::Tuple {
        fields: nodes.iter().map(|n| ScryptoValue::Custom { value: ScryptoCustomValue::Reference(Reference(*n)) }).collect(),
    })
}
