//! R5: sparse-Merkle reference root of a set of substates.
//!
//! `root(S)`: empty → 32 zero bytes; one leaf → `blake2b256(key ‖ value_hash)`; otherwise
//! `blake2b256(root(S | next bit 0) ‖ root(S | next bit 1))`, bits of the key MSB-first. Three
//! tiers are chained: the substate-tier root of a partition is the value hash of that partition's
//! leaf (key = the partition byte) in the entity's partition tier, whose root is the value hash of
//! the entity's leaf (key = node key) in the entity tier. A tier with no leaves has no leaf above.
//!
//! Uses the `blake2` crate directly. Never builds nodes, versions or batches. Precondition: the
//! keys of one tier are prefix-free (so that two distinct keys differ at some bit both have).

use crate::model::Key;
use blake2::digest::consts::U32;
use blake2::{Blake2b, Digest};
use std::collections::BTreeMap;

pub type H = [u8; 32];

pub fn blake(parts: &[&[u8]]) -> H {
    let mut h = Blake2b::<U32>::new();
    for p in parts {
        h.update(p);
    }
    h.finalize().into()
}

fn bit(key: &[u8], i: usize) -> bool {
    (key[i / 8] >> (7 - i % 8)) & 1 == 1
}

/// `leaves` sorted by key (byte-lexicographic), distinct, prefix-free.
fn root(leaves: &[(Vec<u8>, H)], depth: usize) -> H {
    match leaves {
        [] => [0u8; 32],
        [(k, vh)] => blake(&[k, vh]),
        _ => {
            let split = leaves.partition_point(|(k, _)| !bit(k, depth));
            blake(&[&root(&leaves[..split], depth + 1), &root(&leaves[split..], depth + 1)])
        }
    }
}

pub fn state_root(substates: &BTreeMap<Key, Vec<u8>>) -> H {
    // node key → partition → [(sort key, value hash)]; BTreeMap iteration keeps every level sorted
    let mut tiers: BTreeMap<&[u8], BTreeMap<u8, Vec<(Vec<u8>, H)>>> = BTreeMap::new();
    for ((node, p, sk), v) in substates {
        tiers.entry(node).or_default().entry(*p).or_default().push((sk.clone(), blake(&[v])));
    }
    let entity_leaves: Vec<(Vec<u8>, H)> = tiers
        .iter()
        .map(|(node, parts)| {
            let part_leaves: Vec<(Vec<u8>, H)> = parts.iter().map(|(p, subs)| (vec![*p], root(subs, 0))).collect();
            (node.to_vec(), root(&part_leaves, 0))
        })
        .collect();
    root(&entity_leaves, 0)
}

#[cfg(test)]
mod tests {
    use super::*;

    #[test]
    fn empty_is_zero() {
        assert_eq!(state_root(&BTreeMap::new()), [0u8; 32]);
    }
}
