//! vf-eng-d: engine-level checks C06 (fees), C07 (intent replay), C08 (authorization), C49 (limits).

pub mod util;
pub mod c06;
pub mod c07;
pub mod c08;
pub mod c49;

pub fn checks() -> Vec<vf_core::Check> {
    vec![c06::check(), c07::check(), c08::check(), c49::check()]
}
