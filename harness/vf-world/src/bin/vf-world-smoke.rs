use scrypto_test::prelude::*;
use vf_world::*;

fn main() {
    let t0 = std::time::Instant::now();
    with_world("smoke", no_genesis, no_build, |w| {
        println!("world built in {:?}", t0.elapsed());
        let t = Totals::scan(w.db());
        println!("nodes {} problems {:?}", t.nodes, t.supply_problems());
        for f in &w.fungibles {
            println!("fungible {:?} div {} held {} supply {:?}", f.address, f.divisibility, t.held(&f.address), t.supply.get(&f.address));
        }
        for n in &w.non_fungibles {
            println!("nf {:?} {:?} held {} supply {:?}", n.address, n.id_type, t.held(&n.address), t.supply.get(&n.address));
        }
        // puppet: create an object with fields, globalize it, then call it
        let any = |v: u32| scrypto_encode(&v).unwrap();
        let script = Script(vec![
            Op::NewObject { blueprint: PUPPET_BLUEPRINT.into(), fields: vec![(0, any(1), false), (1, any(2), false), (2, any(3), true)], kv: vec![] },
            Op::Globalize { object: N::Slot(0), owner: OwnerSpec::None, reservation: None, with_royalty: false },
            Op::CallMethod { receiver: N::Slot(1), method: PUPPET_ACT.into(), args: scrypto_encode(&(Script(vec![
                Op::ActorOpenKv { state: 0, collection: PUPPET_COLL_KV, key: any(7), flags: 1 },
                Op::KvSet(0, any(99)),
                Op::KvClose(0),
                Op::ActorSortedInsert { state: 0, collection: PUPPET_COLL_SORTED, sort: 5, key: any(1), value: any(2) },
                Op::ActorOpenField { state: 0, field: 0, flags: 1 },
                Op::FieldWrite(4, any(1234)),
                Op::FieldClose(4),
            ]),)).unwrap() },
            Op::Log { level: 2, message: "hello".into() },
            Op::ActorEmitEvent { name: "E0".into(), data: puppet_event_data(vec![1,2,3]), force_write: false },
        ]);
        let m = w.puppet_manifest(w.puppet_p, &script);
        let t1 = std::time::Instant::now();
        let run = w.run(m, vec![]);
        println!("puppet run: {} in {:?}", run.outcome_string(), t1.elapsed());
        if let Some(c) = run.commit() {
            println!("new components {:?}", c.new_component_addresses());
        }
    });
    let t2 = std::time::Instant::now();
    with_world("smoke", no_genesis, no_build, |w| {
        println!("reset in {:?}", t2.elapsed());
        let t3 = std::time::Instant::now();
        let t = Totals::scan(w.db());
        println!("scan in {:?} nodes {}", t3.elapsed(), t.nodes);
    });
}
