//! C26 Roots and powers are correctly truncated.
//!
//! Roots: the returned r is verified against the defining inequality of the truncated root in
//! exact arithmetic: sign(r) = sign(x) (or r = 0) and |r|^n <= |x| * one^(n-1) < (|r| + 1)^n, where
//! everything is in subunits. Failure is allowed only for n = 0 or an even root of a negative.
//! Powers: the exact rational x^e is computed with bigints; when it is a representable multiple
//! of one subunit the result must be exactly it, otherwise the result is None or satisfies
//! |result| <= |exact| with the exact sign (or zero); a zero base with a negative exponent gives
//! None; nothing panics. For the four astronomically large exponents the exact value is not
//! computable; there the only representable cases (base 0, +-1) are decided exactly and every other
//! base is held against a rigorous upper bound of |exact| (square-and-multiply, rounding up, 40
//! extra digits).

use crate::c24::kind;
use crate::refdec::*;
use num_bigint::BigInt;
use num_traits::{One, Signed, Zero};
use vf_core::{catch, ensure, Gen, Outcome, Part};

// -------------------------------------------------------------------------------------------
// roots
// -------------------------------------------------------------------------------------------

fn gen_radicand(g: &mut Gen, k: Kind, n: u32) -> (BigInt, bool) {
    if n >= 1 && g.chance(2, 5) {
        // next to a perfect n-th power: x * one^(n-1) ~ r^n
        let r = match g.weighted(&[3, 3, 2]) {
            0 => BigInt::from(g.range(0, 2000) as i64),
            1 => gen_value(g, k).abs(),
            _ => {
                // whole and simple fractional roots
                BigInt::from(g.range(1, 300) as i64) * k.one() / BigInt::from(*g.pick(&[1i64, 2, 4, 5, 8, 10, 100]))
            }
        };
        let scale_up = k.one().pow(n - 1);
        // a root taken from a random in-range radicand half of the time, so that high degrees
        // (whose roots cluster around 1) get boundary cases as well
        let r = if g.bool() { iroot(&(gen_value(g, k).abs() * &scale_up), n) + BigInt::from(g.below(2)) } else { r };
        // the least radicand whose truncated root is r, and its predecessor
        let x0 = ceil_div(&r.pow(n), &scale_up);
        let x = x0 - BigInt::from(g.below(2));
        if k.fits(&x) && !x.is_negative() {
            let x = if g.chance(1, 3) { -x } else { x };
            return (x, true);
        }
    }
    (gen_value(g, k), false)
}

/// Some(r) must satisfy the truncated-root inequality; returns an error text otherwise.
fn root_violation(k: Kind, x: &BigInt, n: u32, r: &BigInt) -> Option<String> {
    if x.is_zero() {
        return if r.is_zero() { None } else { Some("root of zero must be zero".into()) };
    }
    if (x.is_negative() && r.is_positive()) || (x.is_positive() && r.is_negative()) {
        return Some("sign of the root differs from the sign of the radicand".into());
    }
    let target = x.abs() * k.one().pow(n - 1);
    let ra = r.abs();
    if ra.pow(n) > target {
        return Some("|root|^n exceeds |x| (not truncated toward zero: magnitude too large)".into());
    }
    if (ra + 1u8).pow(n) <= target {
        return Some("(|root| + 1 subunit)^n still does not exceed |x| (magnitude too small)".into());
    }
    None
}

fn call_root(k: Kind, entry: usize, x: &BigInt, n: u32) -> Result<Option<BigInt>, String> {
    if k == DEC {
        let d = big_to_dec(x);
        catch(move || {
            let r = match entry {
                0 => d.checked_sqrt(),
                1 => d.checked_cbrt(),
                _ => d.checked_nth_root(n),
            };
            r.map(dec_to_big)
        })
    } else {
        let d = big_to_pdec(x);
        catch(move || {
            let r = match entry {
                0 => d.checked_sqrt(),
                1 => d.checked_cbrt(),
                _ => d.checked_nth_root(n),
            };
            r.map(pdec_to_big)
        })
    }
}

fn root_case(g: &mut Gen, k: Kind, entry: usize, n: u32) -> Outcome {
    let name = match entry {
        0 => "checked_sqrt",
        1 => "checked_cbrt",
        _ => "checked_nth_root",
    };
    g.label(name);
    let (x, near_power) = gen_radicand(g, k, n);
    if near_power {
        g.label("radicand within 1 subunit of a perfect power");
        g.nontrivial();
    }
    if x.is_negative() && n % 2 == 1 {
        g.label("negative radicand, odd degree");
        g.nontrivial();
    }
    if !x.is_zero() && x.abs() * pow10(9) < k.one() {
        g.label("|x| < 10^-9");
        g.nontrivial();
    }
    let defined = n != 0 && !(x.is_negative() && n % 2 == 0);
    if !defined {
        g.label("undefined root");
    }
    g.sample(|| format!("{}({} subunits).{}({}) defined={}", k.name, x, name, n, defined));
    let got = match call_root(k, entry, &x, n) {
        Ok(r) => r,
        Err(p) => return Outcome::fail(format!("{}::{} panics", k.name, name), format!("x={} subunits, n={}: {}", x, n, p)),
    };
    match (defined, got) {
        (false, None) => Outcome::Pass,
        (false, Some(r)) => Outcome::fail(
            format!("{}::{} returns a value for an undefined root", k.name, name),
            format!("x={} subunits, n={}: got {} subunits, expected None", x, n, r),
        ),
        (true, None) => Outcome::fail(
            format!("{}::{} fails for a defined root", k.name, name),
            format!("x={} subunits, n={}: got None; failure is allowed only for n = 0 or an even root of a negative value", x, n),
        ),
        (true, Some(r)) => {
            if let Some(why) = root_violation(k, &x, n, &r) {
                let t = iroot(&(x.abs() * k.one().pow(n - 1)), n);
                let t = if x.is_negative() { -t } else { t };
                return Outcome::fail(
                    format!("{}::{} is not the exact root truncated toward zero", k.name, name),
                    format!("x={} subunits, n={}: got {} subunits, exact truncated root is {} subunits ({})", x, n, r, t, why),
                );
            }
            Outcome::Pass
        }
    }
}

fn roots(g: &mut Gen) -> Outcome {
    let k = kind(g);
    g.label(k.name);
    let (entry, n) = match g.weighted(&[3, 3, 10]) {
        0 => (0usize, 2u32),
        1 => (1, 3),
        _ => {
            let n = match g.weighted(&[6, 6, 1]) {
                0 => g.range_u64(1, 8) as u32,
                1 => g.range_u64(1, 64) as u32,
                _ => 0,
            };
            (2, n)
        }
    };
    root_case(g, k, entry, n)
}

fn roots_high_degree(g: &mut Gen) -> Outcome {
    let k = kind(g);
    g.label(k.name);
    let n = g.range_u64(65, 400) as u32;
    g.label("degree 65..=400");
    root_case(g, k, 2, n)
}

// -------------------------------------------------------------------------------------------
// powers
// -------------------------------------------------------------------------------------------

const HUGE: [i64; 4] = [1 << 62, -(1 << 62), i64::MAX, i64::MIN];

fn gen_base(g: &mut Gen, k: Kind, e: i64) -> BigInt {
    let one = k.one();
    let v = match g.weighted(&[6, 4, 4, 4]) {
        0 => gen_value(g, k),
        1 => {
            // bases whose powers stay exact for a while: +-1, small integers, 2^a 5^b / 10^s
            let c: [(i64, i64); 14] =
                [(1, 1), (-1, 1), (2, 1), (-2, 1), (10, 1), (1, 2), (-1, 2), (1, 10), (3, 1), (1, 4), (5, 2), (-3, 2), (1, 8), (0, 1)];
            let (n, d) = *g.pick(&c);
            BigInt::from(n) * &one / BigInt::from(d)
        }
        2 => {
            // +-1 +- a few subunits, small sub-unit values
            let d = BigInt::from(g.range(-3, 3) as i64);
            match g.below(3) {
                0 => &one + d,
                1 => -&one + d,
                _ => d,
            }
        }
        _ => {
            // |x|^|e| next to MAX: x ~ (MAX * one^(e-1))^(1/e)
            let m = e.unsigned_abs().clamp(2, 80) as u32;
            let t = iroot(&(k.max() * one.pow(m - 1)), m) + BigInt::from(g.range(-2, 2) as i64);
            if g.bool() {
                -t
            } else {
                t
            }
        }
    };
    if v > k.max() {
        k.max()
    } else if v < k.min() {
        k.min()
    } else {
        v
    }
}

fn call_powi(k: Kind, x: &BigInt, e: i64) -> Result<Option<BigInt>, String> {
    if k == DEC {
        let d = big_to_dec(x);
        catch(move || d.checked_powi(e).map(dec_to_big))
    } else {
        let d = big_to_pdec(x);
        catch(move || d.checked_powi(e).map(pdec_to_big))
    }
}

const EXTRA_DIGITS: u32 = 40;

/// Rigorous upper bound of |x|^m (m >= 1) in units of 1 / (one * 10^EXTRA_DIGITS), where `u0` is
/// an upper bound of |x| in the same units; `None` once the bound leaves the range of interest
/// (then nothing is asserted).
fn pow_upper(k: Kind, u0: &BigInt, m: u64) -> Option<BigInt> {
    let w = k.one() * pow10(EXTRA_DIGITS);
    let cap: BigInt = (BigInt::one() << (k.bits + 8)) * pow10(EXTRA_DIGITS);
    let mul_up = |a: &BigInt, b: &BigInt| -> Option<BigInt> {
        let r = ceil_div(&(a * b), &w);
        if r > cap {
            None
        } else {
            Some(r)
        }
    };
    let mut acc = w.clone(); // 1
    let top = 63 - m.leading_zeros();
    for i in (0..=top).rev() {
        acc = mul_up(&acc, &acc)?;
        if (m >> i) & 1 == 1 {
            acc = mul_up(&acc, u0)?;
        }
    }
    Some(acc)
}

fn powers(g: &mut Gen) -> Outcome {
    let k = kind(g);
    g.label(k.name);
    let e: i64 = match g.weighted(&[8, 6, 1]) {
        0 => g.range(-4, 8) as i64,
        1 => g.range(-80, 80) as i64,
        _ => *g.pick(&HUGE),
    };
    let x = gen_base(g, k, e);
    let one = k.one();
    let name = format!("{}::checked_powi", k.name);
    let input = format!("base {} subunits, exponent {}", x, e);
    g.label(if e < 0 { "negative exponent" } else if e == 0 { "zero exponent" } else { "positive exponent" });
    let huge = e.unsigned_abs() > 80;
    if huge {
        g.label("astronomic exponent");
    }
    g.sample(|| format!("{}({} subunits).checked_powi({})", k.name, x, e));
    let got = match call_powi(k, &x, e) {
        Ok(r) => r,
        Err(p) => return Outcome::fail(format!("{} panics", name), format!("{}: {}", input, p)),
    };

    // zero base
    if x.is_zero() {
        g.label("zero base");
        return if e < 0 {
            ensure!(got.is_none(), format!("{} returns a value for zero to a negative power", name), "{}: got {:?}", input, got);
            Outcome::Pass
        } else {
            let expect = if e == 0 { one.clone() } else { BigInt::zero() };
            ensure!(got.as_ref() == Some(&expect), format!("{} returns a wrong value", name), "{}: exact result {} subunits, got {:?}", input, expect, got);
            Outcome::Pass
        };
    }
    let m = e.unsigned_abs();
    let negative_result = x.is_negative() && m % 2 == 1;
    let sign_ok = |r: &BigInt| r.is_zero() || (r.is_negative() == negative_result);

    if huge {
        if x.abs() == one {
            // the only non-zero bases whose astronomic powers are representable
            g.label("base +-1");
            g.nontrivial();
            let expect = if negative_result { -one.clone() } else { one.clone() };
            if got.is_none() && e == i64::MIN {
                return Outcome::fail(
                    format!("{}(i64::MIN) reports failure although the exact result is representable (base +-1)", name),
                    format!("{}: exact result {} subunits, got None (the exponent is negated with checked arithmetic before use)", input, expect),
                );
            }
            ensure!(got.is_some(), format!("{} reports failure for a representable exact result", name), "{}: exact result {} subunits, got None", input, expect);
            ensure!(got.as_ref() == Some(&expect), format!("{} returns a wrong value", name), "{}: exact result {} subunits, got {:?}", input, expect, got);
            return Outcome::Pass;
        }
        g.nontrivial(); // every intermediate squaring truncates
        let Some(r) = got else { return Outcome::Pass };
        ensure!(sign_ok(&r), format!("{} returns a result of the wrong sign", name), "{}: got {} subunits", input, r);
        let w10 = pow10(EXTRA_DIGITS);
        let u0 = if e > 0 { x.abs() * &w10 } else { ceil_div(&(&one * &one * &w10), &x.abs()) };
        if let Some(u) = pow_upper(k, &u0, m) {
            ensure!(
                r.abs() * &w10 <= u,
                format!("{} exceeds the exact result in magnitude", name),
                "{}: got {} subunits, but |exact| <= {} * 10^-{} subunits",
                input,
                r,
                u,
                EXTRA_DIGITS
            );
        }
        return Outcome::Pass;
    }

    // exact rational value of x^e in subunits: num / den
    let m32 = m as u32;
    let (num, den) = if e == 0 {
        (one.clone(), BigInt::one()) // x^0 = 1
    } else if e > 0 {
        (x.abs().pow(m32), one.pow(m32 - 1))
    } else {
        (one.pow(m32 + 1), x.abs().pow(m32))
    };
    let on_grid = (&num % &den).is_zero();
    let q_abs = &num / &den;
    let q = if negative_result { -q_abs } else { q_abs };
    if !on_grid && m >= 2 {
        g.label("inexact power (squarings truncate)");
        g.nontrivial();
    }
    if on_grid && m >= 2 && x.abs() != one {
        g.label("exactly representable power of a base other than +-1");
        g.nontrivial();
    }
    if near_limit(&q, k) {
        g.label("result within 2^-8 of limit");
    }
    if on_grid && k.fits(&q) {
        ensure!(got.is_some(), format!("{} reports failure for a representable exact result", name), "{}: exact result {} subunits, got None", input, q);
        ensure!(got.as_ref() == Some(&q), format!("{} returns a wrong value", name), "{}: exact result {} subunits, got {:?}", input, q, got);
        return Outcome::Pass;
    }
    if !k.fits(&q) {
        g.label("exact result out of range");
    }
    match got {
        None => Outcome::Pass,
        Some(r) => {
            ensure!(sign_ok(&r), format!("{} returns a result of the wrong sign", name), "{}: got {} subunits, exact is about {} subunits", input, r, q);
            ensure!(
                r.abs() * &den <= num,
                format!("{} exceeds the exact result in magnitude", name),
                "{}: got {} subunits, exact result is {}/{} ~ {} subunits",
                input,
                r,
                num,
                den,
                q
            );
            Outcome::Pass
        }
    }
}

pub fn check() -> vf_core::Check {
    vf_core::Check::new(
        "C26",
        "Roots and powers are correctly truncated",
        "part roots: checked_sqrt, checked_cbrt and checked_nth_root(n), n in 0..=64 (biased to 1..=8), on boundary-heavy radicands, 40% of them within one subunit of a perfect n-th power (negated a third of the time); the returned root is held against |r|^n <= |x|*one^(n-1) < (|r|+1)^n and the sign rule in exact arithmetic; None only for n = 0 or an even root of a negative. part roots_high_degree: degrees 65..=400 (few cases: the implementation's cost grows with the degree). part powers: checked_powi with exponents -80..=80 (biased to -4..=8) and {+-2^62, i64::MAX, i64::MIN}; bases boundary-heavy, or exact-power bases (+-1, +-2, 10, 1/2, 1/10, 5/2 ...), or 1 +- a few subunits, or next to MAX^(1/e); exact rational oracle as described in the module header. Non-trivial = negative radicand with odd degree, or |x| < 10^-9, or radicand next to a perfect power, or a power whose intermediate squarings truncate, or an exactly representable power of a base other than +-1, or an astronomic exponent.",
    )
    .assume("0^0 = 1 (empty product), as the repository's own tests state")
    .assume("root degrees above 64 are explored only by the small roots_high_degree part (cost of the implementation grows with the degree); degrees above 400 are not generated")
    .part(Part::new("roots", 3_000_000, 100_000_000, 160, roots))
    .part(Part::new("roots_high_degree", 10_000, 1_000_000, 160, roots_high_degree))
    .part(Part::new("powers", 4_000_000, 150_000_000, 160, powers))
    .min_nontrivial_pct(30.0)
}
