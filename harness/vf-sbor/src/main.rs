//! vf-sbor binary: checks C20, C21, C23. Installs a counting global allocator so that C21 can
//! assert a bound on the bytes a decode allocates. Counters are per thread (the 16 workers decode
//! concurrently), and only count while the thread has a measurement open.

use std::alloc::{GlobalAlloc, Layout, System};
use std::cell::Cell;

struct Counting;

thread_local! {
    static ACTIVE: Cell<bool> = const { Cell::new(false) };
    static CURRENT: Cell<isize> = const { Cell::new(0) };
    static PEAK: Cell<isize> = const { Cell::new(0) };
}

#[inline]
fn on_alloc(size: usize) {
    let _ = ACTIVE.try_with(|a| {
        if a.get() {
            let _ = CURRENT.try_with(|c| {
                let v = c.get().saturating_add(size as isize);
                c.set(v);
                let _ = PEAK.try_with(|p| {
                    if v > p.get() {
                        p.set(v);
                    }
                });
            });
        }
    });
}

#[inline]
fn on_free(size: usize) {
    let _ = ACTIVE.try_with(|a| {
        if a.get() {
            let _ = CURRENT.try_with(|c| c.set(c.get().saturating_sub(size as isize)));
        }
    });
}

unsafe impl GlobalAlloc for Counting {
    unsafe fn alloc(&self, layout: Layout) -> *mut u8 {
        on_alloc(layout.size());
        unsafe { System.alloc(layout) }
    }
    unsafe fn dealloc(&self, ptr: *mut u8, layout: Layout) {
        on_free(layout.size());
        unsafe { System.dealloc(ptr, layout) }
    }
    unsafe fn alloc_zeroed(&self, layout: Layout) -> *mut u8 {
        on_alloc(layout.size());
        unsafe { System.alloc_zeroed(layout) }
    }
    unsafe fn realloc(&self, ptr: *mut u8, layout: Layout, new_size: usize) -> *mut u8 {
        // worst case both blocks are live while the data is copied
        on_alloc(new_size);
        let p = unsafe { System.realloc(ptr, layout, new_size) };
        on_free(layout.size());
        p
    }
}

#[global_allocator]
static GLOBAL: Counting = Counting;

fn begin() {
    CURRENT.with(|c| c.set(0));
    PEAK.with(|p| p.set(0));
    ACTIVE.with(|a| a.set(true));
}

fn end() -> usize {
    ACTIVE.with(|a| a.set(false));
    PEAK.with(|p| p.get()).max(0) as usize
}

fn main() {
    vf_sbor::alloc_hook::install(vf_sbor::alloc_hook::Hooks { begin, end });
    vf_core::main_with(vf_sbor::checks());
}
