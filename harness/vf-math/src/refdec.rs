//! R1: exact reference arithmetic for Decimal / PreciseDecimal on num-bigint, sharing no code
//! with bnum or the repository's wide-integer implementation. A decimal is its integer number
//! of subunits ("attos"); every mathematical result is computed exactly as a rational and then
//! truncated / rounded by the small functions below.

use num_bigint::{BigInt, Sign};
use num_integer::Integer;
use num_traits::{One, Signed, Zero};
use radix_common::math::{Decimal, PreciseDecimal, I192, I256};
use vf_core::Gen;

#[derive(Clone, Copy, Debug, PartialEq, Eq)]
pub struct Kind {
    pub name: &'static str,
    pub scale: u32,
    pub bits: u32,
}

pub const DEC: Kind = Kind { name: "Decimal", scale: 18, bits: 192 };
pub const PDEC: Kind = Kind { name: "PreciseDecimal", scale: 36, bits: 256 };

impl Kind {
    pub fn max(&self) -> BigInt {
        (BigInt::one() << (self.bits - 1)) - 1
    }
    pub fn min(&self) -> BigInt {
        -(BigInt::one() << (self.bits - 1))
    }
    pub fn one(&self) -> BigInt {
        pow10(self.scale)
    }
    pub fn fits(&self, v: &BigInt) -> bool {
        *v >= self.min() && *v <= self.max()
    }
}

pub fn pow10(n: u32) -> BigInt {
    BigInt::from(10u8).pow(n)
}

/// Quotient truncated toward zero.
pub fn trunc_div(a: &BigInt, b: &BigInt) -> BigInt {
    let (q, _) = a.abs().div_rem(&b.abs());
    if (a.is_negative()) != (b.is_negative()) {
        -q
    } else {
        q
    }
}
/// Quotient rounded toward negative infinity.
pub fn floor_div(a: &BigInt, b: &BigInt) -> BigInt {
    a.div_floor(b)
}
/// Quotient rounded toward positive infinity.
pub fn ceil_div(a: &BigInt, b: &BigInt) -> BigInt {
    -((-a).div_floor(b))
}

pub fn dec_to_big(d: Decimal) -> BigInt {
    BigInt::from_signed_bytes_le(&d.attos().to_le_bytes())
}
pub fn pdec_to_big(d: PreciseDecimal) -> BigInt {
    BigInt::from_signed_bytes_le(&d.precise_subunits().to_le_bytes())
}
fn to_fixed_le(v: &BigInt, n: usize) -> Vec<u8> {
    let mut bytes = v.to_signed_bytes_le();
    let fill = if v.sign() == Sign::Minus { 0xFF } else { 0x00 };
    assert!(bytes.len() <= n, "value does not fit");
    bytes.resize(n, fill);
    bytes
}
/// Two's-complement little-endian image of `v`, sign-extended to exactly `n` bytes.
pub fn fixed_le(v: &BigInt, n: usize) -> Vec<u8> {
    to_fixed_le(v, n)
}
/// Panics if the value does not fit (callers check `fits` first).
pub fn big_to_dec(v: &BigInt) -> Decimal {
    assert!(DEC.fits(v));
    Decimal::from_attos(I192::from_le_bytes(&to_fixed_le(v, 24)))
}
pub fn big_to_pdec(v: &BigInt) -> PreciseDecimal {
    assert!(PDEC.fits(v));
    PreciseDecimal::from_precise_subunits(I256::from_le_bytes(&to_fixed_le(v, 32)))
}

/// Exact decimal rendering of `subunits / 10^scale` (canonical: no trailing zeros, no exponent,
/// "-0.x" for values in (-1, 0)).
pub fn render(subunits: &BigInt, scale: u32) -> String {
    let neg = subunits.is_negative();
    let abs = subunits.abs();
    let (q, r) = abs.div_rem(&pow10(scale));
    let mut s = String::new();
    if neg {
        s.push('-');
    }
    s.push_str(&q.to_string());
    if !r.is_zero() {
        let frac = format!("{:0>width$}", r.to_string(), width = scale as usize);
        s.push('.');
        s.push_str(frac.trim_end_matches('0'));
    }
    s
}

/// Boundary-heavy generator of subunit values for a kind (always within range).
pub fn gen_value(g: &mut Gen, k: Kind) -> BigInt {
    let max = k.max();
    let min = k.min();
    let v = match g.weighted(&[6, 10, 6, 6, 6, 6, 4, 4, 3]) {
        0 => {
            // tiny constants
            let c: [i64; 9] = [0, 1, -1, 2, -2, 3, 10, -10, 7];
            BigInt::from(*g.pick(&c))
        }
        1 => {
            // uniform random bits of random width, random sign
            let bits = g.range_u64(1, (k.bits - 1) as u64) as u32;
            let nbytes = (bits as usize).div_ceil(8);
            let raw = g.bytes(nbytes);
            let mut v = BigInt::from_bytes_le(Sign::Plus, &raw);
            v &= (BigInt::one() << bits) - 1;
            if g.bool() {
                v = -v;
            }
            v
        }
        2 => {
            // limits and their neighbours
            let d = BigInt::from(g.below(3));
            match g.below(4) {
                0 => max.clone() - d,
                1 => min.clone() + d,
                2 => (max.clone() >> 1u32) + d,
                _ => (min.clone() >> 1u32) - d,
            }
        }
        3 => {
            // ± 10^k ± small
            let e = g.range_u64(0, decimal_digits(&max) as u64) as u32;
            let mut v: BigInt = pow10(e) + BigInt::from(g.range(-2, 2) as i64);
            if g.bool() {
                v = -v;
            }
            v
        }
        4 => {
            // ± 2^k ± small
            let e = g.range_u64(0, (k.bits - 2) as u64) as u32;
            let mut v: BigInt = (BigInt::one() << e) + BigInt::from(g.range(-2, 2) as i64);
            if g.bool() {
                v = -v;
            }
            v
        }
        5 => {
            // whole numbers and simple fractions: n * 10^scale / d
            let n = BigInt::from(g.range(-1000, 1000) as i64);
            let d = BigInt::from(*g.pick(&[1i64, 2, 3, 4, 5, 7, 8, 10, 100, 1000]));
            trunc_div(&(n * k.one()), &d)
        }
        6 => {
            // values near sqrt(MAX * 10^scale): products sit around the limit
            let target = (max.clone() * k.one()).sqrt();
            let d = BigInt::from(g.range(-1000, 1000) as i64);
            let mut v: BigInt = target + d;
            if g.bool() {
                v = -v;
            }
            v
        }
        7 => {
            // exact ties / half steps at a random decimal place
            let p = g.range_u64(0, k.scale as u64) as u32;
            let step = pow10(p);
            let n = BigInt::from(g.range(-50, 50) as i64);
            let half = if p > 0 { pow10(p - 1) * 5 } else { BigInt::zero() };
            n * step + half + BigInt::from(g.range(-1, 1) as i64)
        }
        _ => {
            // small magnitude (sub-unit) values
            let bits = g.range_u64(1, 64) as u32;
            let mut v: BigInt = BigInt::from(g.u64()) & ((BigInt::one() << bits) - 1);
            if g.bool() {
                v = -v;
            }
            v
        }
    };
    if v > max {
        max
    } else if v < min {
        min
    } else {
        v
    }
}

pub fn decimal_digits(v: &BigInt) -> usize {
    v.abs().to_string().len()
}

/// floor(x^(1/n)) for x ≥ 0, n ≥ 1, by bisection.
pub fn iroot(x: &BigInt, n: u32) -> BigInt {
    assert!(!x.is_negative() && n >= 1);
    if x.is_zero() || n == 1 {
        return x.clone();
    }
    let bits = x.bits();
    let mut hi = BigInt::one() << (bits / n as u64 + 1);
    let mut lo = BigInt::zero();
    // invariant: lo^n <= x < hi^n
    while &hi - &lo > BigInt::one() {
        let mid = (&hi + &lo) >> 1u32;
        if mid.pow(n) <= *x {
            lo = mid;
        } else {
            hi = mid;
        }
    }
    lo
}

// ---------------------------------------------------------------------------------------------
// Reference rounding (C25). Modes are numbered independently of the repository's enum; the
// mapping to `RoundingMode` lives in the check.
// ---------------------------------------------------------------------------------------------

#[derive(Clone, Copy, Debug, PartialEq, Eq)]
pub enum RefMode {
    /// toward +infinity
    Up,
    /// toward -infinity
    Down,
    /// toward zero
    ToZero,
    /// away from zero
    AwayFromZero,
    /// to nearest, ties toward zero
    HalfToZero,
    /// to nearest, ties away from zero
    HalfAwayFromZero,
    /// to nearest, ties to the even multiple
    HalfEven,
}

pub const REF_MODES: [RefMode; 7] = [
    RefMode::Up,
    RefMode::Down,
    RefMode::ToZero,
    RefMode::AwayFromZero,
    RefMode::HalfToZero,
    RefMode::HalfAwayFromZero,
    RefMode::HalfEven,
];

/// The multiple of `step` (> 0) that `mode` prescribes for `v`, by the mathematical definition
/// of each mode (no range check). Second component: `v` was an exact tie between two multiples.
pub fn round_to_multiple(v: &BigInt, step: &BigInt, mode: RefMode) -> (BigInt, bool) {
    assert!(step.is_positive());
    let lo = v.div_floor(step) * step; // greatest multiple <= v
    if &lo == v {
        return (lo, false);
    }
    let hi = &lo + step; // least multiple > v
    let positive = v.is_positive();
    let toward_zero = if positive { lo.clone() } else { hi.clone() };
    let away = if positive { hi.clone() } else { lo.clone() };
    let twice: BigInt = (v - &lo) * 2u8;
    let ord = twice.cmp(step);
    let tie = ord == std::cmp::Ordering::Equal;
    let nearest = |on_tie: BigInt| match ord {
        std::cmp::Ordering::Less => lo.clone(),
        std::cmp::Ordering::Greater => hi.clone(),
        std::cmp::Ordering::Equal => on_tie,
    };
    let r = match mode {
        RefMode::Up => hi.clone(),
        RefMode::Down => lo.clone(),
        RefMode::ToZero => toward_zero,
        RefMode::AwayFromZero => away,
        RefMode::HalfToZero => nearest(toward_zero),
        RefMode::HalfAwayFromZero => nearest(away),
        RefMode::HalfEven => {
            let lo_even = (&lo / step).is_even();
            nearest(if lo_even { lo.clone() } else { hi.clone() })
        }
    };
    (r, tie)
}

/// `true` when `|v|` is within `limit / 256` of the type's MAX (DESIGN: "within 2^-8 of MAX").
pub fn near_limit(v: &BigInt, k: Kind) -> bool {
    let max = k.max();
    let d = (v.abs() - &max).abs();
    d <= (max >> 8u32)
}

/// A second operand chosen relative to `a` so that sums / products / quotients land on or next
/// to the range limits and on exact / just-inexact results; falls back to an independent value.
pub fn gen_partner(g: &mut Gen, k: Kind, a: &BigInt) -> BigInt {
    let max = k.max();
    let min = k.min();
    let one = k.one();
    let small = |g: &mut Gen| BigInt::from(g.range(-2, 2) as i64);
    let v = match g.weighted(&[10, 3, 3, 3, 3, 2, 2]) {
        0 => return gen_value(g, k),
        1 => {
            // a + b next to MAX / MIN
            let lim = if g.bool() { max.clone() } else { min.clone() };
            lim - a + small(g)
        }
        2 => {
            // a * b next to MAX / MIN: b ≈ lim * one / a
            if a.is_zero() {
                return gen_value(g, k);
            }
            let lim = if g.bool() { max.clone() } else { min.clone() };
            trunc_div(&(lim * &one), a) + small(g)
        }
        3 => {
            // a / b next to MAX / MIN: b ≈ a * one / lim
            let lim = if g.bool() { max.clone() } else { min.clone() };
            trunc_div(&(a * &one), &lim) + small(g)
        }
        4 => {
            // small divisors / multipliers (sub-unit and whole)
            let c: [i64; 10] = [1, -1, 2, 3, -3, 7, 10, 1000, -1000, 999_999_999];
            let v = BigInt::from(*g.pick(&c));
            if g.bool() {
                v * &one
            } else {
                v
            }
        }
        5 => {
            // an exact divisor / multiple of a
            let d = BigInt::from(*g.pick(&[1i64, 2, 4, 5, 8, 10, 16, 25, 100, 1_000_000]));
            if g.bool() {
                trunc_div(a, &d)
            } else {
                a * d
            }
        }
        _ => {
            // same magnitude, either sign, ± small
            let s = if g.bool() { a.clone() } else { -a.clone() };
            s + small(g)
        }
    };
    if v > max {
        max
    } else if v < min {
        min
    } else {
        v
    }
}
